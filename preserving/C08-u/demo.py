"""C08 -- particle-list set algebra and identifier discipline; change (b): the object-id shift that merge_and_renumber
and merge_and_drop_duplicates performed inline is now one helper, Motl._shift_object_ids, which rewrites the object_id
column of the table handed to it IN PLACE -- the table being the private copy the merge functions get from Motl.load.

Run as:  cd /tmp/wt11/C08 && /venv/bin/python /tmp/seedsV/C08/b/demo.py

Three things are checked, over random particle lists (0..200 rows, repeated ids, absent values, unsorted ids) and random
histories of up to 10 operations:
  1. the property itself, against a pure-Python row-set model (lists of 20-tuples),
  2. the tree's functions against the ORIGINAL text of the touched function(s) (kept below, compiled into a reference
     subclass) -- frames must be identical including index and dtypes,
  3. the caller's inputs (the list argument, the Motl objects / frames / files in it, frames held under another name)
     stay untouched.
"""
import sys, os

sys.path.insert(0, os.getcwd())
import contextlib, copy, io, random, textwrap, warnings

import numpy as np
import pandas as pd

from cryocat import cryomotl
from cryocat.cryomotl import Motl

warnings.simplefilter("ignore")

# --------------------------------------------------------------------------------------------------------------------
# original text of the function(s) touched by the change (HEAD d4d8304)
ORIG = '''
    @classmethod
    def merge_and_renumber(cls, motl_list):
        if not isinstance(motl_list, list) or len(motl_list) == 0:
            raise UserInputError(f"Input must be a list of em file paths, or Motl instances.")

        merged_df = cls.create_empty_motl_df()
        feature_add = 0

        if not isinstance(motl_list, list) or len(motl_list) == 0:
            raise UserInputError(
                f"You must provide a list of em file paths, or Motl instances. "
                f"Instead, an instance of {type(motl_list).__name__} was given."
            )

        for m in motl_list:
            if m is None:
                raise ValueError("Motl list cannot contain None values.")
            motl = cls.load(m)
            if not motl.df.empty:
                feature_min = min(motl.df.loc[:, "object_id"])
            else:
                print("Warning: Encountered an empty Motl DataFrame. Skipping.")
                continue

            if feature_min <= feature_add:
                motl.df.loc[:, "object_id"] = motl.df.loc[:, "object_id"] + (feature_add - feature_min + 1)

            merged_df = pd.concat([merged_df, motl.df])
            feature_add = max(motl.df.loc[:, "object_id"])

        merged_motl = cls(merged_df)
        merged_motl.renumber_particles()
        merged_motl.df.reset_index(inplace=True, drop=True)

        return merged_motl

    @classmethod
    def merge_and_drop_duplicates(cls, motl_list):
        merged_df = cls.create_empty_motl_df()
        feature_add = 0

        if not isinstance(motl_list, list) or len(motl_list) == 0:
            raise UserInputError(
                f"You must provide a list of em file paths, or Motl instances. "
                f"Instead, an instance of {type(motl_list).__name__} was given."
            )

        for m in motl_list:
            motl = cls.load(m)
            if motl.df.empty:
                print(f"Skipping empty Motl: {motl}")
                continue  # Skip empty motls
            feature_min = min(motl.df.loc[:, "object_id"])

            if feature_min <= feature_add:
                motl.df.loc[:, "object_id"] = motl.df.loc[:, "object_id"] + (feature_add - feature_min + 1)

            merged_df = pd.concat([merged_df, motl.df])
            feature_add = max(motl.df.loc[:, "object_id"])

        merged_motl = cls(merged_df)
        merged_motl.drop_duplicates()
        merged_motl.df.reset_index(inplace=True, drop=True)

        return merged_motl
'''
_ns = dict(cryomotl.__dict__)
exec("class OrigMotl(Motl):\n" + textwrap.indent(textwrap.dedent(ORIG), "    "), _ns)
OrigMotl = _ns["OrigMotl"]

# --------------------------------------------------------------------------------------------------------------------
COLS = list(Motl.motl_columns)
IX = {c: i for i, c in enumerate(COLS)}
SCORE, SID, TOMO, OBJ = IX["score"], IX["subtomo_id"], IX["tomo_id"], IX["object_id"]
assert len(COLS) == 20


def quiet(fn, *a, **k):
    with contextlib.redirect_stdout(io.StringIO()):
        return fn(*a, **k)


def random_rows(rng, n, id_pool=None):
    rows = []
    id_hi = max(2, int(n * rng.choice([0.3, 0.6, 1.0, 3.0])))
    for _ in range(n):
        r = [0.0] * 20
        for c in range(20):
            r[c] = rng.choice([0.0, 0.0, round(rng.uniform(-50, 50), 3), float(rng.randint(-3, 3))])
        r[SCORE] = rng.choice([0.0, 0.25, 0.5, 0.5, 0.75, round(rng.random(), 4)])
        r[SID] = float(rng.randint(1, id_hi)) if id_pool is None else float(rng.choice(id_pool))
        r[TOMO] = float(rng.choice([1, 2, 3, 5, 17, 17, 240]))
        r[OBJ] = float(rng.choice([0, 1, 2, 3, 4, 9, 12]))
        r[IX["class"]] = float(rng.choice([1, 1, 2, 3]))
        r[IX["geom1"]] = float(rng.choice([0, 1, 2, 2, 7]))
        rows.append(tuple(r))
    return rows


def frame(rows, kind=float):
    if not rows:
        return pd.DataFrame(columns=COLS, dtype=float)
    return pd.DataFrame([list(r) for r in rows], columns=COLS).astype(kind)


def rows_of(m):
    assert list(m.df.columns) == COLS, f"fields changed: {list(m.df.columns)}"
    assert m.df.shape[1] == 20
    return [tuple(float(v) for v in r) for r in m.df.to_numpy().tolist()]


def same_frames(a, b, what):
    pd.testing.assert_frame_equal(a, b, check_exact=True, obj=what)
    assert list(a.dtypes) == list(b.dtypes), what


def rewrap(m, o):
    """fresh wrappers: tree class / reference class (operations hand back plain Motl objects)"""
    return Motl(m.df), OrigMotl(o.df)


# ---- the pure-Python model ------------------------------------------------------------------------------------------
def model_subset(rows, values, f):
    return [r for v in values for r in rows if r[f] == v]


def model_remove(rows, values, f):
    return [r for r in rows if not any(r[f] == v for v in values)]


def model_split(rows, f):
    order = []
    for r in rows:
        if r[f] not in order:
            order.append(r[f])
    return [[r for r in rows if r[f] == v] for v in order]


def model_intersection(r1, r2, f):
    have = {r[f] for r in r2}
    return [r for r in r1 if r[f] in have]


def check_dropped(before, after, dup=SID, dec=SCORE, ascending=False):
    """exactly one row per id, it is one of the input rows and it has the best decision value; ids ascending"""
    ids = [r[dup] for r in after]
    assert ids == sorted(set(r[dup] for r in before)), "ids after drop_duplicates"
    pool = list(before)
    for r in after:
        assert r in pool, "a surviving row was altered"
        pool.remove(r)
        cands = [q[dec] for q in before if q[dup] == r[dup]]
        best = min(cands) if ascending else max(cands)
        assert r[dec] == best, "not the best-scoring row"


def model_shift_objects(inputs):
    """merged rows (object ids shifted by the documented rule), and the per-input segments"""
    out, segs, feature_add = [], [], 0
    for rows in inputs:
        if not rows:
            continue
        lo = min(r[OBJ] for r in rows)
        shift = (feature_add - lo + 1) if lo <= feature_add else 0
        seg = [r[:OBJ] + (r[OBJ] + shift,) + r[OBJ + 1 :] for r in rows]
        feature_add = max(r[OBJ] for r in seg)
        out.extend(seg)
        segs.append((rows, seg))
    return out, segs


def check_merge_renumber(inputs, after):
    exp, segs = model_shift_objects(inputs)
    n = sum(len(r) for r in inputs)
    assert len(after) == n
    assert [r[SID] for r in after] == [float(i) for i in range(1, n + 1)], "subtomogram numbers 1..N"
    strip = lambda r: r[:SID] + r[SID + 1 :]
    assert [strip(r) for r in after] == [strip(r) for r in exp], "merge changed another field / the shift rule"
    # the property proper: no collisions across inputs, grouping of each input kept
    pos, seen = 0, set()
    for old, _ in segs:
        new = after[pos : pos + len(old)]
        pos += len(old)
        fwd, bwd = {}, {}
        for a, b in zip(old, new):
            assert fwd.setdefault(a[OBJ], b[OBJ]) == b[OBJ] and bwd.setdefault(b[OBJ], a[OBJ]) == a[OBJ]
        assert not (seen & set(bwd)), "object numbers collide across inputs"
        seen |= set(bwd)


def check_renumber_objects(before, after, start):
    assert len(before) == len(after)
    for a, b in zip(before, after):
        assert a[:OBJ] + a[OBJ + 1 :] == b[:OBJ] + b[OBJ + 1 :], "another field changed"
    groups = []
    for t in sorted({r[TOMO] for r in before}):
        for r in before:
            if r[TOMO] == t and (t, r[OBJ]) not in groups:
                groups.append((t, r[OBJ]))
    number = {g: float(start + k) for k, g in enumerate(groups)}
    assert [r[OBJ] for r in after] == [number[(r[TOMO], r[OBJ])] for r in before], "consecutive object numbers"


# ---- one random history ---------------------------------------------------------------------------------------------
FEATS = ["tomo_id", "object_id", "class", "subtomo_id", "geom1"]
OPS = ["subset", "remove", "split", "intersection", "dropdup", "merge_renumber", "merge_dropdup", "renum_p", "renum_o"]
counts = dict.fromkeys(OPS, 0)


def pick_values(rng, rows, f):
    present = sorted({r[f] for r in rows})
    vals = rng.sample(present, rng.randint(0, min(4, len(present)))) if present else []
    if rng.random() < 0.4:
        vals.append(rng.choice([99.0, -1.0, 1000.0]))  # absent value
    rng.shuffle(vals)
    form = rng.choice(["list", "array", "scalar", "intlist"])
    if form == "array":
        return vals, np.array(vals, dtype=float)
    if form == "scalar" and vals:
        return vals[:1], rng.choice([vals[0], int(vals[0]), np.float64(vals[0])]) if vals[0] == int(vals[0]) else vals[0]
    if form == "intlist" and all(v == int(v) for v in vals):
        return vals, [int(v) for v in vals]
    return vals, list(vals)


def other_list(rng, rows):
    k = rng.random()
    if k < 0.15:
        return []
    if k < 0.55 and rows:
        part = rng.sample(rows, rng.randint(0, len(rows)))
        return part + random_rows(rng, rng.randint(0, 5))
    return random_rows(rng, rng.choice([1, 3, 20, 60]))


def history(rng, n, steps):
    model = random_rows(rng, n)
    m, o = Motl(frame(model)), OrigMotl(frame(model))
    for _ in range(steps):
        op = rng.choice(OPS)
        counts[op] += 1
        keep = m.df.copy(deep=True)  # what the list looked like before the call
        held = m.df  # the same frame held under another name by the caller
        if op == "subset":
            f = rng.choice(FEATS)
            vals, arg = pick_values(rng, model, IX[f])
            arg0 = copy.deepcopy(arg)
            res, ref = quiet(m.get_motl_subset, arg, f), quiet(o.get_motl_subset, copy.deepcopy(arg), f)
            again = quiet(m.get_motl_subset, arg, f)  # repeated call on the same object
            same_frames(res.df, again.df, "subset twice")
            same_frames(m.df, keep, "subset touched its list")
            assert np.array_equal(np.atleast_1d(arg), np.atleast_1d(arg0)) and type(arg) is type(arg0)
            model = model_subset(model, vals, IX[f])
            m, o = res, ref
        elif op == "remove":
            f = rng.choice(FEATS)
            vals, arg = pick_values(rng, model, IX[f])
            arg0 = copy.deepcopy(arg)
            compl = rows_of(quiet(m.get_motl_subset, sorted(set(vals)), f))
            quiet(m.remove_feature, f, arg), quiet(o.remove_feature, f, copy.deepcopy(arg))
            same_frames(held, keep, "remove touched the held frame")
            assert np.array_equal(np.atleast_1d(arg), np.atleast_1d(arg0))
            before, model = model, model_remove(model, vals, IX[f])
            assert sorted(compl + model) == sorted(before), "removal and selection are not complementary"
        elif op == "split":
            f = rng.choice(FEATS)
            parts, refs = quiet(m.split_by_feature, f), quiet(o.split_by_feature, f)
            same_frames(m.df, keep, "split touched its list")
            exp = model_split(model, IX[f])
            assert [rows_of(p) for p in parts] == exp, "split is not the partition by value"
            assert sorted(r for p in parts for r in rows_of(p)) == sorted(model)
            assert len(parts) == len(refs)
            for p, q in zip(parts, refs):
                same_frames(p.df, q.df, "split part")
            if parts and rng.random() < 0.5:
                k = rng.randrange(len(parts))
                m, o, model = parts[k], refs[k], exp[k]
        elif op == "intersection":
            f = rng.choice(["subtomo_id", "subtomo_id", "tomo_id", "object_id"])
            second = other_list(rng, model)
            m2 = Motl(frame(second))
            keep2 = m2.df.copy(deep=True)
            res = quiet(Motl.get_motl_intersection, m, m2, f)
            ref = quiet(OrigMotl.get_motl_intersection, o, OrigMotl(frame(second)), f)
            same_frames(m.df, keep, "intersection touched list 1"), same_frames(m2.df, keep2, "... list 2")
            model = model_intersection(model, second, IX[f])
            m, o = res, ref
        elif op == "dropdup":
            quiet(m.drop_duplicates), quiet(o.drop_duplicates)
            same_frames(held, keep, "drop_duplicates reordered a frame the caller still holds")
            check_dropped(model, rows_of(m))
            once = m.df.copy(deep=True)
            quiet(m.drop_duplicates)  # repeated call: nothing left to drop
            same_frames(m.df, once, "drop_duplicates twice")
            model = rows_of(m)
        elif op in ("merge_renumber", "merge_dropdup"):
            others = [other_list(rng, model) for _ in range(rng.randint(0, 2))]
            inputs = [model] + others
            motls = [m] + [Motl(frame(r)) for r in others]
            orefs = [o] + [OrigMotl(frame(r)) for r in others]
            if rng.random() < 0.3:  # the same object twice in the list
                inputs.append(model), motls.append(m), orefs.append(o)
            perm = list(range(len(inputs)))
            rng.shuffle(perm)
            inputs, motls, orefs = [inputs[i] for i in perm], [motls[i] for i in perm], [orefs[i] for i in perm]
            keeps = [x.df.copy(deep=True) for x in motls]
            arglist = list(motls)
            if op == "merge_renumber":
                res, ref = quiet(Motl.merge_and_renumber, motls), quiet(OrigMotl.merge_and_renumber, orefs)
                check_merge_renumber(inputs, rows_of(res))
            else:
                res, ref = quiet(Motl.merge_and_drop_duplicates, motls), quiet(OrigMotl.merge_and_drop_duplicates, orefs)
                check_dropped(model_shift_objects(inputs)[0], rows_of(res))
            assert len(motls) == len(arglist) and all(x is y for x, y in zip(motls, arglist)), "list argument changed"
            for x, k in zip(motls, keeps):
                same_frames(x.df, k, "merge touched an input list")
            m, o, model = res, ref, rows_of(res)
        elif op == "renum_p":
            quiet(m.renumber_particles), quiet(o.renumber_particles)
            model = [r[:SID] + (float(i + 1),) + r[SID + 1 :] for i, r in enumerate(model)]
        elif op == "renum_o":
            start = rng.choice([1, 1, 5, 100])
            quiet(m.renumber_objects_sequentially, start), quiet(o.renumber_objects_sequentially, start)
            same_frames(held, keep, "renumber_objects touched the held frame")
            check_renumber_objects(model, rows_of(m), start)
            model = rows_of(m)
        assert rows_of(m) == model, f"{op}: table differs from the row-set model"
        same_frames(m.df, o.df, f"{op}: tree vs original text")
        m, o = rewrap(m, o)


# ---- direct comparison of the touched function(s) with their original text -----------------------------------------
def outcome(fn, arg):
    try:
        return "ok", quiet(fn, arg)
    except Exception as e:  # error paths must agree as well
        return type(e).__name__, None


def direct(rng):
    import tempfile

    n_cmp = 0
    tmp = tempfile.mkdtemp(prefix="c08b_")
    for trial in range(150):
        lst, models = [], []
        for k in range(rng.randint(1, 5)):
            n = rng.choice([0, 0, 1, 2, 3, 10, 50, 200])
            rows = random_rows(rng, n)
            if rng.random() < 0.3:  # negative / large / single object ids
                off = rng.choice([-20.0, 1000.0, 0.0])
                rows = [r[:OBJ] + ((r[OBJ] if off else 1.0) + off,) + r[OBJ + 1 :] for r in rows]
            kind = rng.choice(["motl", "frame", "intframe", "intmotl", "nan", "file", "same"])
            if kind == "same" and lst:
                j = rng.randrange(len(lst))
                lst.append(lst[j]), models.append(models[j])  # the very same object twice
                continue
            df = frame(rows)
            df.index = rng.sample(range(1000), len(df))
            if kind in ("intframe", "intmotl"):
                rows = [tuple(float(round(v)) for v in r) for r in rows]
                df = frame(rows, int)
            if kind == "nan" and n:  # outside the stated quantifier, still has to agree with the original text
                df.iloc[rng.randrange(n), rng.choice([SCORE, OBJ, OBJ, SID])] = np.nan
                rows = None
            if kind == "file" and n and trial % 5 == 0:
                path = os.path.join(tmp, f"m{trial}_{k}.em")
                quiet(Motl(df.reset_index(drop=True)).write_out, path)
                lst.append(path), models.append(None)
                continue
            lst.append(Motl(df) if kind in ("motl", "intmotl", "nan") else df)
            models.append(rows)
        keeps = [x if isinstance(x, str) else (x.df if isinstance(x, Motl) else x).copy(deep=True) for x in lst]
        ident = list(lst)
        for name in ("merge_and_renumber", "merge_and_drop_duplicates"):
            for rep in range(2):  # repeated calls on the same objects
                s1, r1 = outcome(getattr(Motl, name), lst)
                s2, r2 = outcome(getattr(OrigMotl, name), copy.deepcopy(lst))
                assert s1 == s2, (name, s1, s2)
                if r1 is not None:
                    same_frames(r1.df, r2.df, name + " vs original")
                    assert type(r1) is Motl and list(r1.df.columns) == COLS
                    if all(mm is not None for mm in models):
                        if name == "merge_and_renumber":
                            check_merge_renumber(models, rows_of(r1))
                        else:
                            check_dropped(model_shift_objects(models)[0], rows_of(r1))
                n_cmp += 1
            assert len(lst) == len(ident) and all(x is y for x, y in zip(lst, ident)), "list argument changed"
            for x, k in zip(lst, keeps):
                if isinstance(x, str):
                    continue
                same_frames(x.df if isinstance(x, Motl) else x, k, name + ": input list touched")
    # error paths
    for bad in ([], None, "x.em", (Motl(frame(random_rows(rng, 3))),), [None], [Motl(frame(random_rows(rng, 3))), None]):
        for name in ("merge_and_renumber", "merge_and_drop_duplicates"):
            s1, r1 = outcome(getattr(Motl, name), bad)
            s2, r2 = outcome(getattr(OrigMotl, name), bad)
            assert s1 == s2, (name, bad, s1, s2)
            if r1 is not None:  # e.g. merge_and_drop_duplicates([None]) is an empty list, before and after
                same_frames(r1.df, r2.df, name + " vs original (edge)")
            n_cmp += 1
    # subclasses hand the shift to the same helper
    for cls_name in ("EmMotl",):
        c = getattr(cryomotl, cls_name)
        rows1, rows2 = random_rows(rng, 30), random_rows(rng, 40)
        r1 = quiet(c.merge_and_renumber, [frame(rows1), frame(rows2)])
        assert type(r1) is c
        check_merge_renumber([rows1, rows2], rows_of(r1))
        n_cmp += 1
    import shutil

    shutil.rmtree(tmp, ignore_errors=True)
    return n_cmp


def main():
    rng = random.Random(int(os.environ.get("DEMO_SEED", "80808")))
    n_hist = 0
    for n in [0, 0, 1, 1, 2, 3, 200, 200] + [rng.randint(0, 200) for _ in range(150)]:
        history(rng, n, rng.randint(1, 10))
        n_hist += 1
    n_cmp = direct(rng)
    assert all(counts.values()), counts
    print(f"histories: {n_hist}, operations: {counts}")
    print(f"direct comparisons with the original text: {n_cmp}")
    print("PASS")


if __name__ == "__main__":
    main()
