import sys, os

sys.path.insert(0, os.getcwd())

import contextlib
import copy
import io
import warnings

warnings.simplefilter("ignore", SyntaxWarning)

import numpy as np
import pandas as pd
from pandas.testing import assert_frame_equal

from cryocat import cryomotl
from cryocat.cryomotl import Motl
from cryocat.exceptions import UserInputError

COLS = list(Motl.motl_columns)
CI = {c: k for k, c in enumerate(COLS)}
KEYS = ["subtomo_id", "tomo_id", "object_id", "class", "geom2"]  # fields used as identifiers / selectors (no NaN)
HOLES = ["geom1", "geom3", "geom4", "geom5", "shift_x", "subtomo_mean"]  # fields that may hold NaN
SEED = int(os.environ.get("DEMO_SEED", "20260928"))

failures = []


def fail(msg):
    failures.append(msg)
    if len(failures) <= 15:
        print("FAIL:", msg)


# ---------------------------------------------------------------------------------------------------------------------
# input generation
# ---------------------------------------------------------------------------------------------------------------------
def random_table(rng, n=None, with_nan=True, score_ties=True):
    """A particle table as N x 20 float array: repeated / unsorted ids, zeros, negative values, NaN holes."""
    if n is None:
        n = int(rng.choice([0, 1, 2, 3, 5, 8, 13, 40, 200], p=[0.08, 0.1, 0.1, 0.1, 0.14, 0.14, 0.14, 0.15, 0.05]))
    A = rng.normal(scale=50.0, size=(n, 20)).round(2)
    A[:, CI["subtomo_id"]] = rng.integers(0, max(2, int(n * rng.choice([0.5, 1.0, 3.0]))), size=n)  # repeated, 0 allowed
    A[:, CI["tomo_id"]] = rng.integers(0, 5, size=n)
    A[:, CI["object_id"]] = rng.integers(-2, 6, size=n)  # zero and negative object numbers
    A[:, CI["class"]] = rng.integers(0, 3, size=n)
    A[:, CI["geom2"]] = rng.integers(0, 2, size=n)
    if score_ties:
        A[:, CI["score"]] = rng.integers(-2, 3, size=n) * 0.25  # many ties, zeros, negatives
    for ang, lim in (("phi", 360), ("psi", 360), ("theta", 180)):
        A[:, CI[ang]] = rng.choice([0.0, lim, -lim, 90.0, 180.0, 33.3], size=n)  # poles of the Euler angles
    if with_nan and n:
        for c in HOLES:
            A[rng.random(n) < 0.15, CI[c]] = np.nan
        if rng.random() < 0.3:
            A[rng.random(n) < 0.2, CI["score"]] = np.nan
    return A


def make_motl(A, rng=None, index_kind=0, int_keys=False):
    df = pd.DataFrame(np.array(A, dtype=float).reshape(-1, 20), columns=COLS)
    if int_keys:
        df = df.astype({"subtomo_id": int, "tomo_id": int, "object_id": int})
    n = len(df)
    if n and index_kind == 1:
        df.index = rng.permutation(n) * 3 + 7  # non-default, unsorted row labels
    elif n and index_kind == 2:
        df.index = np.arange(n)[::-1]
    elif n and index_kind == 3:
        df.index = rng.integers(0, 4, size=n)  # repeated row labels
    return Motl(df)


def table_of(m):
    if sorted(m.df.columns) != sorted(COLS) or len(m.df.columns) != 20:
        fail(f"table does not have exactly the 20 fields: {list(m.df.columns)}")
    return m.df[COLS].to_numpy(dtype=float)


def same(A, B):
    A = np.asarray(A, dtype=float).reshape(-1, 20)
    B = np.asarray(B, dtype=float).reshape(-1, 20)
    return A.shape == B.shape and np.array_equal(A, B, equal_nan=True)


# ---------------------------------------------------------------------------------------------------------------------
# pure-Python row-set model
# ---------------------------------------------------------------------------------------------------------------------
def take(A, idx):
    return A[np.array(idx, dtype=int)] if len(idx) else np.zeros((0, 20))


def m_subset(A, values, f):
    return take(A, [i for v in values for i in range(len(A)) if A[i, CI[f]] == v])


def m_remove(A, f, values):
    return take(A, [i for i in range(len(A)) if not any(A[i, CI[f]] == v for v in values)])


def m_uniq(A, f):
    out = []
    for v in A[:, CI[f]]:
        if v not in out:
            out.append(v)
    return out


def m_intersection(A, B, f):
    ids = set(B[:, CI[f]].tolist())
    R = take(A, [i for i in range(len(A)) if A[i, CI[f]] in ids])
    return np.nan_to_num(R, nan=0.0)  # both lists go through load(), which reads missing values as 0


def m_dropdup(A, dup="subtomo_id", dec="score", asc=False):
    out = []
    for v in sorted(set(A[:, CI[dup]].tolist())):
        rows = [i for i in range(len(A)) if A[i, CI[dup]] == v]
        valid = [i for i in rows if not np.isnan(A[i, CI[dec]])]
        if valid:
            best = (min if asc else max)(A[i, CI[dec]] for i in valid)
            out.append([i for i in valid if A[i, CI[dec]] == best][0])
        else:
            out.append(rows[0])
    return take(A, out)


def m_merge(tables):
    add, parts, shifts = 0, [], []
    for A in tables:
        if len(A) == 0:
            shifts.append(None)
            continue
        A = A.copy()
        lo = A[:, CI["object_id"]].min()
        sh = 0
        if lo <= add:
            sh = add - lo + 1
            A[:, CI["object_id"]] += sh
        add = A[:, CI["object_id"]].max()
        shifts.append(sh)
        parts.append(A)
    return (np.vstack(parts) if parts else np.zeros((0, 20))), shifts


def m_renumber_particles(A):
    A = A.copy()
    A[:, CI["subtomo_id"]] = np.arange(1, len(A) + 1)
    return A


def m_renumber_objects(A, start):
    A = A.copy()
    nxt = start
    for t in sorted(set(A[:, CI["tomo_id"]].tolist())):
        rows = [i for i in range(len(A)) if A[i, CI["tomo_id"]] == t]
        seen = []
        for i in rows:
            if A[i, CI["object_id"]] not in seen:
                seen.append(A[i, CI["object_id"]])
        new = {o: nxt + k for k, o in enumerate(seen)}
        for i in rows:
            A[i, CI["object_id"]] = new[A[i, CI["object_id"]]]
        nxt = nxt + len(seen)
    return A


def others_unchanged(before, after, changed_cols, what):
    """no field other than `changed_cols` differs between two tables with the same rows"""
    keep = [k for c, k in CI.items() if c not in changed_cols]
    if before.shape != after.shape or not np.array_equal(before[:, keep], after[:, keep], equal_nan=True):
        fail(f"{what}: a field outside {changed_cols} changed")


# ---------------------------------------------------------------------------------------------------------------------
# property check over histories of operations
# ---------------------------------------------------------------------------------------------------------------------
OPS = ["subset", "remove", "split", "intersection", "dropdup", "merge_renumber", "merge_dropdup", "renumber_particles",
       "renumber_objects"]


def pick_values(rng, A, f):
    present = m_uniq(A, f)
    pool = present + [99.0, -7.0, 0.0]
    k = int(rng.integers(0, 4))
    return [float(pool[int(rng.integers(0, len(pool)))]) for _ in range(k)]


def run_history(rng, n_ops=10, force_ops=None, start_table=None):
    A = random_table(rng) if start_table is None else start_table
    cur = make_motl(A, rng, index_kind=int(rng.integers(0, 4)), int_keys=bool(rng.random() < 0.25 and not np.isnan(A[:, [CI[k] for k in KEYS]]).any()))
    trace = []
    for step in range(n_ops):
        op = force_ops[step] if force_ops else OPS[int(rng.integers(0, len(OPS)))]
        trace.append(op)
        tag = f"history {trace}"
        A = table_of(cur)
        snapshot = cur.df.copy()
        with warnings.catch_warnings(), contextlib.redirect_stdout(io.StringIO()):
            warnings.simplefilter("ignore")
            if op == "subset":
                f = KEYS[int(rng.integers(0, len(KEYS)))]
                vals = pick_values(rng, A, f)
                scalar = len(vals) == 1 and rng.random() < 0.5
                ri = bool(rng.random() < 0.5)
                arg = vals[0] if scalar else [int(v) if rng.random() < 0.5 else v for v in vals]
                new = cur.get_motl_subset(arg, feature_id=f, reset_index=ri)
                R = table_of(new)
                if not same(R, m_subset(A, vals, f)):
                    fail(f"{tag}: subset({vals}, {f}) is not the matching rows grouped by value")
                if ri and list(new.df.index) != list(range(len(new.df))):
                    fail(f"{tag}: subset index not reset")
                if not ri and len(R) and sorted(set(vals), key=vals.index) == vals:
                    want = [lab for v in vals for lab, x in zip(snapshot.index, A[:, CI[f]]) if x == v]
                    if list(new.df.index) != want:
                        fail(f"{tag}: subset without reset_index does not keep the row labels")
                # complement
                rest = copy.deepcopy(cur)
                rest.remove_feature(f, np.array(vals) if rng.random() < 0.5 else list(vals))
                Rm = table_of(rest)
                if not same(Rm, m_remove(A, f, vals)):
                    fail(f"{tag}: remove_feature({f}, {vals}) is not the complement")
                uniq_vals = [v for k, v in enumerate(vals) if v not in vals[:k]]
                if len(m_subset(A, uniq_vals, f)) + len(Rm) != len(A):
                    fail(f"{tag}: subset and removal are not complementary")
                if not same(table_of(cur), A) or not snapshot.equals(cur.df):
                    fail(f"{tag}: get_motl_subset changed its source")
                cur = new
            elif op == "remove":
                f = KEYS[int(rng.integers(0, len(KEYS)))]
                vals = pick_values(rng, A, f)
                if len(vals) == 1 and rng.random() < 0.5:
                    cur.remove_feature(f, vals[0])
                else:
                    cur.remove_feature(f, vals)
                if not same(table_of(cur), m_remove(A, f, vals)):
                    fail(f"{tag}: remove_feature({f}, {vals})")
            elif op == "split":
                f = KEYS[int(rng.integers(0, len(KEYS)))]
                parts = cur.split_by_feature(f)
                uniq = m_uniq(A, f)
                if len(parts) != len(uniq):
                    fail(f"{tag}: split_by_feature({f}) gives {len(parts)} parts for {len(uniq)} values")
                else:
                    for v, p in zip(uniq, parts):
                        if not same(table_of(p), m_subset(A, [v], f)):
                            fail(f"{tag}: split part for {f}={v} is not exactly the rows with that value")
                    if sum(len(p.df) for p in parts) != len(A):
                        fail(f"{tag}: split is not a partition")
                if not snapshot.equals(cur.df):
                    fail(f"{tag}: split_by_feature changed its source")
                if parts and rng.random() < 0.7:
                    cur = parts[int(rng.integers(0, len(parts)))]
            elif op == "intersection":
                f = "subtomo_id" if rng.random() < 0.7 else KEYS[int(rng.integers(0, len(KEYS)))]
                choice = rng.random()
                if choice < 0.2:
                    other = cur  # the same object twice
                elif choice < 0.4:
                    other = make_motl(np.zeros((0, 20)))
                else:
                    B = random_table(rng)
                    if len(A) and rng.random() < 0.5:
                        B = np.vstack([B, A[rng.random(len(A)) < 0.5]])
                    other = make_motl(B, rng, index_kind=int(rng.integers(0, 4)))
                B = table_of(other)
                if rng.random() < 0.7:
                    new = Motl.get_motl_intersection(cur, other, feature_id=f)
                else:
                    new = Motl.get_motl_intersection(cur, other) if f == "subtomo_id" else Motl.get_motl_intersection(cur, other, f)
                if not same(table_of(new), m_intersection(A, B, f)):
                    fail(f"{tag}: intersection on {f} is not the first list's rows whose id occurs in the second")
                if list(new.df.index) != list(range(len(new.df))):
                    fail(f"{tag}: intersection index not reset")
                if not snapshot.equals(cur.df) or not same(table_of(other), B):
                    fail(f"{tag}: intersection changed an input")
                cur = Motl(new.df)
            elif op == "dropdup":
                kind = int(rng.integers(0, 4))
                if kind == 0:
                    cur.drop_duplicates()
                    want = m_dropdup(A)
                elif kind == 1:
                    cur.drop_duplicates(decision_sort_ascending=True)
                    want = m_dropdup(A, asc=True)
                elif kind == 2:
                    cur.drop_duplicates(decision_column="geom1", decision_sort_ascending=True)
                    want = m_dropdup(A, dec="geom1", asc=True)
                else:
                    cur.drop_duplicates("object_id", "x", False)
                    want = m_dropdup(A, dup="object_id", dec="x", asc=False)
                R = table_of(cur)
                if not same(R, want):
                    fail(f"{tag}: drop_duplicates kind {kind} does not keep exactly one best row per id")
                if list(cur.df.index) != list(range(len(cur.df))):
                    fail(f"{tag}: drop_duplicates index not reset")
            elif op in ("merge_renumber", "merge_dropdup"):
                k = int(rng.integers(0, 3))
                extra = [make_motl(random_table(rng), rng, index_kind=int(rng.integers(0, 4))) for _ in range(k)]
                if rng.random() < 0.3:
                    extra.append(make_motl(np.zeros((0, 20))))
                if rng.random() < 0.3:
                    extra.append(cur)  # the same object twice in one call
                pos = int(rng.integers(0, len(extra) + 1))
                lst = extra[:pos] + [cur] + extra[pos:]
                tabs = [table_of(m) for m in lst]
                snaps = [m.df.copy() for m in lst]
                stacked, shifts = m_merge(tabs)
                if op == "merge_renumber":
                    new = Motl.merge_and_renumber(lst)
                    R = table_of(new)
                    if not same(R, m_renumber_particles(stacked)):
                        fail(f"{tag}: merge_and_renumber differs from the model")
                    else:
                        if list(R[:, CI["subtomo_id"]]) != list(range(1, len(R) + 1)):
                            fail(f"{tag}: subtomogram numbers are not 1..N")
                        ofs, ranges = 0, []
                        for T, sh in zip(tabs, shifts):
                            if len(T) == 0:
                                continue
                            part = R[ofs : ofs + len(T)]
                            ofs += len(T)
                            d = part[:, CI["object_id"]] - T[:, CI["object_id"]]
                            if not np.all(d == d[0]):
                                fail(f"{tag}: merge does not keep an input's object grouping")
                            others_unchanged(T, part, ["object_id", "subtomo_id"], tag)
                            ranges.append((part[:, CI["object_id"]].min(), part[:, CI["object_id"]].max()))
                        for (lo1, hi1), (lo2, hi2) in zip(ranges, ranges[1:]):
                            if not lo2 > hi1:
                                fail(f"{tag}: object numbers collide across inputs")
                else:
                    new = Motl.merge_and_drop_duplicates(lst)
                    R = table_of(new)
                    if not same(R, m_dropdup(stacked)):
                        fail(f"{tag}: merge_and_drop_duplicates differs from the model")
                    ids = R[:, CI["subtomo_id"]].tolist()
                    if len(set(ids)) != len(ids) or set(ids) != set(stacked[:, CI["subtomo_id"]].tolist()):
                        fail(f"{tag}: merge_and_drop_duplicates does not keep one row per id")
                if list(new.df.index) != list(range(len(new.df))):
                    fail(f"{tag}: merge index not reset")
                for m, s in zip(lst, snaps):
                    if not s.equals(m.df):
                        fail(f"{tag}: merge changed an input")
                cur = new
            elif op == "renumber_particles":
                cur.renumber_particles()
                R = table_of(cur)
                if not same(R, m_renumber_particles(A)):
                    fail(f"{tag}: renumber_particles")
                others_unchanged(A, R, ["subtomo_id"], tag)
            elif op == "renumber_objects":
                start = [None, 1, 0, -3, 7, 1000][int(rng.integers(0, 6))]
                if start is None:
                    cur.renumber_objects_sequentially()
                elif rng.random() < 0.5:
                    cur.renumber_objects_sequentially(start)
                else:
                    cur.renumber_objects_sequentially(starting_number=start)
                s = 1 if start is None else start
                R = table_of(cur)
                if not same(R, m_renumber_objects(A, s)):
                    fail(f"{tag}: renumber_objects_sequentially({start}) differs from the model")
                else:
                    others_unchanged(A, R, ["object_id"], tag)
                    old_groups = list(zip(A[:, CI["tomo_id"]].tolist(), A[:, CI["object_id"]].tolist()))
                    new_ids = R[:, CI["object_id"]].tolist()
                    fwd, back = {}, {}
                    for g, o in zip(old_groups, new_ids):
                        if fwd.setdefault(g, o) != o or back.setdefault(o, g) != g:
                            fail(f"{tag}: (tomogram, object) grouping not kept")
                            break
                    if len(A) and sorted(set(new_ids)) != list(range(s, s + len(set(old_groups)))):
                        fail(f"{tag}: new object numbers are not consecutive from {s}")
                if list(cur.df.index) != list(range(len(cur.df))):
                    fail(f"{tag}: renumber_objects_sequentially index not reset")
        table_of(cur)
        if failures:
            return


def property_check(n_hist=220):
    rng = np.random.default_rng(SEED)
    for h in range(n_hist):
        run_history(rng, n_ops=int(rng.integers(1, 11)))
        if failures:
            return
    # every operation from every kind of start table (empty, single row, all rows equal, one group)
    one = random_table(rng, 1)
    eq = np.repeat(random_table(rng, 1, with_nan=False), 6, axis=0)
    zeros = np.zeros((4, 20))
    for start in (np.zeros((0, 20)), one, eq, zeros):
        for op in OPS:
            for rep in range(4):
                run_history(rng, n_ops=3, force_ops=[op, op, OPS[int(rng.integers(0, len(OPS)))]], start_table=start.copy())
                if failures:
                    return


# ---------------------------------------------------------------------------------------------------------------------
# comparison of a current function with the stored text of the original one
# ---------------------------------------------------------------------------------------------------------------------
def outcome(fn, make_args):
    """Run fn on fresh arguments; return (kind, payload, warnings, printed)."""
    args, kwargs, watch = make_args()
    out = io.StringIO()
    with warnings.catch_warnings(record=True) as rec, contextlib.redirect_stdout(out):
        warnings.simplefilter("always")
        try:
            res = fn(*args, **kwargs)
            kind = "ok"
        except Exception as e:  # noqa: BLE001 - the kind of failure is part of the outcome
            res, kind = (type(e), str(e)), "raise"
    msgs = [(w.category, str(w.message)) for w in rec if not issubclass(w.category, (SyntaxWarning, DeprecationWarning))]
    return kind, res, msgs, out.getvalue(), watch


def frames_of(x):
    if isinstance(x, Motl):
        return [x.df]
    if isinstance(x, pd.DataFrame):
        return [x]
    if isinstance(x, (list, tuple)):
        return [f for y in x for f in frames_of(y)]
    return []


def compare(label, f_orig, f_cur, make_args):
    """make_args() must build equal, independent arguments on every call (it is given a fixed seed by the caller)."""
    k1, r1, w1, p1, watch1 = outcome(f_orig, make_args)
    k2, r2, w2, p2, watch2 = outcome(f_cur, make_args)
    if k1 != k2:
        fail(f"{label}: original {k1} {r1 if k1 == 'raise' else ''} / current {k2} {r2 if k2 == 'raise' else ''}")
        return
    if k1 == "raise":
        if r1 != r2:
            fail(f"{label}: different errors {r1} / {r2}")
        return
    if w1 != w2:
        fail(f"{label}: different warnings {w1} / {w2}")
    if p1 != p2:
        fail(f"{label}: different printed text {p1!r} / {p2!r}")
    if type(r1) is not type(r2):
        fail(f"{label}: result types {type(r1)} / {type(r2)}")
    fr1, fr2 = frames_of(r1) + frames_of(watch1), frames_of(r2) + frames_of(watch2)
    if len(fr1) != len(fr2):
        fail(f"{label}: number of tables differs")
        return
    for a, b in zip(fr1, fr2):
        try:
            assert_frame_equal(a, b, check_exact=True, check_index_type="exact", check_column_type="exact")
            assert type(a.index) is type(b.index), f"index classes {type(a.index)} / {type(b.index)}"
        except AssertionError as e:
            fail(f"{label}: tables differ: {str(e)[:400]}")
            return


def finish(name):
    if failures:
        print(f"{name}: FAIL ({len(failures)} findings)")
        sys.exit(1)
    print(f"{name}: PASS")
    sys.exit(0)


# =====================================================================================================================
# change c: get_motl_subset collects the pieces and concatenates once -- original function text (unmodified tree)
# =====================================================================================================================
def orig_get_motl_subset(self, feature_values, feature_id="tomo_id", return_df=False, reset_index=True):
    if isinstance(feature_values, (list, np.ndarray)):
        feature_values = np.atleast_1d(np.array(feature_values))  # a 0-d array is one value
    else:
        feature_values = np.array([feature_values])

    new_df = Motl.create_empty_motl_df()
    for i in feature_values:
        df_i = self.df.loc[self.df[feature_id] == i].copy()
        new_df = pd.concat([new_df, df_i])

    if reset_index:
        new_df = new_df.reset_index(drop=True)

    if return_df:
        return new_df
    else:
        return Motl(motl_df=new_df)


def source_motl(seed, kind):
    rng = np.random.default_rng(seed)
    if kind == "empty":
        return make_motl(np.zeros((0, 20)))
    if kind == "emptyclass":
        return Motl()
    if kind == "one":
        return make_motl(random_table(rng, 1), rng, index_kind=1)
    if kind == "zeros":
        return make_motl(np.zeros((3, 20)), rng, index_kind=1)
    if kind == "allint":  # every column integer: the result is float like an empty motl
        A = np.round(random_table(rng, 9, with_nan=False))
        return Motl(pd.DataFrame(A.astype(int), columns=COLS))
    if kind == "float32":
        A = random_table(rng, 9, with_nan=False)
        return Motl(pd.DataFrame(A, columns=COLS).astype(np.float32))
    if kind == "shuffledcols":  # accepted by the constructor: same 20 fields in another order
        A = random_table(rng, 9)
        df = pd.DataFrame(A, columns=COLS)
        return Motl(df[list(rng.permutation(COLS))])
    if kind == "strindex":
        m = make_motl(random_table(rng, 7), rng)
        m.df.index = [f"p{j}" for j in rng.permutation(7)]
        return m
    if kind == "floatindex":
        m = make_motl(random_table(rng, 7), rng)
        m.df.index = rng.permutation(7) + 0.5
        return m
    if kind == "steps":  # arithmetic row labels: concat may or may not rebuild a RangeIndex
        m = make_motl(random_table(rng, 12), rng)
        m.df.index = np.arange(12) * 2 + 3
        return m
    if kind == "sorted":  # groups are contiguous blocks with consecutive labels
        A = random_table(rng, 12)
        A = A[np.argsort(A[:, CI["tomo_id"]], kind="stable")]
        return make_motl(A, rng)
    return make_motl(random_table(rng), rng, index_kind=int(rng.integers(0, 4)), int_keys=bool(rng.random() < 0.3))


def compare_c():
    rng = np.random.default_rng(SEED + 2)
    cur = Motl.get_motl_subset
    kinds = ["empty", "emptyclass", "one", "zeros", "allint", "float32", "shuffledcols", "strindex", "floatindex",
             "steps", "sorted"] + ["rand"] * 16
    fixed_values = [[], [0], 0, 0.0, [99], 99, [0, 1], [1, 0], [1, 1], [0, 0, 0], [99, 0], [0, 99], [99, 98], [4, 3, 2, 1, 0],
                    [0, 1, 2, 3, 4, 5, 6], [1.0, 2], np.int64(1), np.float64(2.0), float("nan"), [float("nan"), 1], -1, [-2, -1, 0],
                    [0.5], True, [True, False]]
    for k, kind in enumerate(kinds):
        vals_list = list(fixed_values)
        for _ in range(6):
            vals_list.append([int(v) for v in rng.integers(-2, 7, size=int(rng.integers(0, 7)))])
        for vi, vals in enumerate(vals_list):
            feats = [None, "tomo_id", "object_id", "subtomo_id", "class", "score", "geom1"]
            feat = feats[(k + vi) % len(feats)]
            for ri in (None, True, False):
                for rdf in (None, True, False):
                    def mk(k=k, kind=kind, vals=vals, feat=feat, ri=ri, rdf=rdf):
                        m = source_motl(SEED + 40 + k, kind)
                        kw = {}
                        if feat is not None:
                            kw["feature_id"] = feat
                        if ri is not None:
                            kw["reset_index"] = ri
                        if rdf is not None:
                            kw["return_df"] = rdf
                        return (m, copy.deepcopy(vals)), kw, [m]
                    compare(f"get_motl_subset {kind} {vals} {feat} reset={ri} df={rdf}", orig_get_motl_subset, cur, mk)
        # failures stay failures: unknown field, values given as an array / tuple (never supported as a list of values)
        for args, kw in ((([1],), {"feature_id": "nosuch"}), ((np.array([1, 2]),), {}), (((1, 2),), {}), ((None,), {}),
                         (("1",), {}), (([[1, 2]],), {})):
            def mk(k=k, kind=kind, args=args, kw=kw):
                m = source_motl(SEED + 40 + k, kind)
                return (m,) + copy.deepcopy(args), dict(kw), [m]
            compare(f"get_motl_subset {kind} unusual {args} {kw}", orig_get_motl_subset, cur, mk)

        # the result is independent of its source (no shared data): writing to one does not show in the other,
        # chained and repeated calls on the same object
        def chain(fn):
            def run(m):
                first = fn(m, [1, 0, 3], reset_index=False)
                first.df.loc[:, "x"] = -1.0
                first.df.iloc[:, 0] = 5.0
                second = fn(m, [1, 0, 3], reset_index=False)
                third = fn(second, 1, "tomo_id", False, True)
                third.df.loc[:, "y"] = 7.0
                m.df.loc[:, "z"] = 11.0
                fourth = fn(fn(m, [0, 1, 2, 3, 4]), [2, 1], "object_id", True)
                return [first, second, third, fourth]
            return run
        def mk5(k=k, kind=kind):
            m = source_motl(SEED + 40 + k, kind)
            return (m,), {}, [m]
        compare(f"get_motl_subset chained {kind}", chain(orig_get_motl_subset), chain(cur), mk5)

    # callers inside the package that iterate over every value of a field (clean_by_distance style)
    for k in range(10):
        m = source_motl(SEED + 900 + k, "rand")
        A = table_of(m)
        for f in ("tomo_id", "object_id"):
            got = [table_of(m.get_motl_subset(v, feature_id=f, reset_index=True)) for v in np.unique(m.df[f].values)]
            want = [m_subset(A, [v], f) for v in np.unique(A[:, CI[f]])]
            if len(got) != len(want) or not all(same(g, w) for g, w in zip(got, want)):
                fail("per-value subsets are not the split of the list")


property_check()
if not failures:
    compare_c()
finish("C08-c (get_motl_subset: pieces concatenated once)")
