import sys, os

sys.path.insert(0, os.getcwd())
import contextlib, io, warnings, inspect, tempfile

import numpy as np

warnings.filterwarnings("ignore")

from cryocat import tiltstack, ioutils, cryomap  # noqa: E402

FAILS = []


def check(cond, msg):
    if not cond:
        FAILS.append(msg)
        if len(FAILS) < 20:
            print("FAIL:", msg)


def quiet(fn, *args, **kwargs):
    with contextlib.redirect_stdout(io.StringIO()):
        with np.errstate(all="ignore"):
            return fn(*args, **kwargs)


# ---------------------------------------------------------------------------------------------------------
# Copy of the ORIGINAL code (text of cryocat/tiltstack.py at HEAD), used as an oracle for bit-identity.
# ---------------------------------------------------------------------------------------------------------
def orig_total_dose_load(input_dose):
    if isinstance(input_dose, np.ndarray):
        return input_dose
    elif isinstance(input_dose, list):
        return np.asarray(input_dose)
    raise ValueError("not used in this demo")


def orig_dose_filter_single_image(image, dose, freq_array):
    a = 0.245
    b = -1.665
    c = 2.81
    ft = np.fft.fftshift(np.fft.fft2(image))
    q = np.exp((-dose) / (2 * ((a * (freq_array**b)) + c)))
    filtered_image = np.fft.ifft2(np.fft.ifftshift(ft * q))
    return filtered_image.real


def orig_dose_filter(tilt_stack, pixel_size, total_dose, input_order="xyz", output_order="xyz"):
    data = tilt_stack.copy()
    if input_order == "xyz":
        data = data.transpose(2, 1, 0)
    data_type = data.dtype
    n_tilts, height, width = data.shape
    pixel_size = float(pixel_size)
    total_dose = orig_total_dose_load(total_dose)
    frequency_array = np.zeros((height, width))
    cen_x = width // 2
    cen_y = height // 2
    rstep_x = 1 / (width * pixel_size)
    rstep_y = 1 / (height * pixel_size)
    for x in range(width):
        for y in range(height):
            d = np.sqrt(((x - cen_x) ** 2 * rstep_x**2) + ((y - cen_y) ** 2 * rstep_y**2))
            frequency_array[y, x] = d
    data = np.array(data, copy=True)
    for z in range(n_tilts):
        image = data[z, :, :]
        data[z, :, :] = orig_dose_filter_single_image(image, total_dose[z], frequency_array)
    if data.dtype != data_type:
        data = data.astype(data_type)
    if output_order != "zyx":
        return data.transpose(2, 1, 0)
    return data


# ---------------------------------------------------------------------------------------------------------
# INDEPENDENT computation of the property (no fftshift, frequencies from np.fft.fftfreq, zero frequency = 1).
# stack_zyx : (n, h, w)
# ---------------------------------------------------------------------------------------------------------
def attenuation(h, w, px, dose):
    fx = np.fft.fftfreq(w, d=px)
    fy = np.fft.fftfreq(h, d=px)
    f = np.sqrt(fx[None, :] ** 2 + fy[:, None] ** 2)
    q = np.ones((h, w))
    nz = f > 0
    q[nz] = np.exp(-dose / (2.0 * (0.245 * f[nz] ** (-1.665) + 2.81)))
    return q


def reference(stack_zyx, px, doses):
    out = np.empty(stack_zyx.shape, dtype=float)
    n, h, w = stack_zyx.shape
    for i in range(n):
        out[i] = np.fft.ifft2(np.fft.fft2(stack_zyx[i]) * attenuation(h, w, px, doses[i])).real
    return out


def random_case(rng):
    n = int(rng.integers(1, 11))
    h = int(rng.integers(4, 65))
    w = int(rng.integers(4, 65))
    px = float(rng.uniform(0.5, 10.0))
    doses = rng.uniform(0.0, 300.0, size=n)
    if rng.random() < 0.3:
        doses[rng.integers(0, n)] = 0.0
    if rng.random() < 0.3:
        doses[rng.integers(0, n)] = 300.0
    kind = rng.random()
    if kind < 0.6:
        stack = rng.normal(size=(n, h, w)) * rng.uniform(0.1, 100.0) + rng.uniform(-50, 50)
    else:  # pure plane waves, one per image
        stack = np.empty((n, h, w))
        yy, xx = np.mgrid[0:h, 0:w]
        for i in range(n):
            kx = int(rng.integers(0, w))
            ky = int(rng.integers(0, h))
            stack[i] = np.cos(2 * np.pi * (kx * xx / w + ky * yy / h) + rng.uniform(0, 6.28)) + rng.uniform(-3, 3)
    return stack, px, doses


def run_patched(stack_zyx, px, doses, order, dose_as):
    """Call the package function with the stack given in `order`; returns result in zyx."""
    if dose_as == "list":
        d = [float(v) for v in doses]
    else:
        d = np.array(doses, dtype=float)
    if order == "xyz":
        inp = np.ascontiguousarray(stack_zyx.transpose(2, 1, 0))
        before = inp.copy()
        res = quiet(tiltstack.dose_filter, inp, px, d)
        check(np.array_equal(inp, before), "input stack modified in place (xyz)")
        check(res.shape == inp.shape, "shape of the result (xyz)")
        ores = orig_dose_filter(inp, px, d)
        check(np.array_equal(res, ores), f"differs from the original code (xyz) shape={inp.shape} px={px}")
        return res.transpose(2, 1, 0)
    else:
        inp = stack_zyx.copy()
        before = inp.copy()
        res = quiet(tiltstack.dose_filter, inp, px, d, None, "zyx", "zyx")
        check(np.array_equal(inp, before), "input stack modified in place (zyx)")
        check(res.shape == inp.shape, "shape of the result (zyx)")
        ores = orig_dose_filter(inp, px, d, input_order="zyx", output_order="zyx")
        check(np.array_equal(res, ores), f"differs from the original code (zyx) shape={inp.shape} px={px}")
        return res


def check_property(stack, px, doses, res, tag):
    n, h, w = stack.shape
    ref = reference(stack, px, doses)
    scale = max(1.0, np.abs(stack).max())
    check(np.allclose(res, ref, rtol=0, atol=1e-9 * scale), f"{tag}: formula violated, max err {np.abs(res-ref).max()}")
    # mean unchanged
    check(
        np.allclose(res.mean(axis=(1, 2)), stack.mean(axis=(1, 2)), rtol=0, atol=1e-10 * scale),
        f"{tag}: image mean changed",
    )
    # per-frequency ratio and power never increases
    Fi = np.fft.fft2(stack, axes=(1, 2))
    Fo = np.fft.fft2(res, axes=(1, 2))
    check(np.all(np.abs(Fo) <= np.abs(Fi) + 1e-8 * scale * h * w), f"{tag}: power increased")
    for i in range(n):
        q = attenuation(h, w, px, doses[i])
        check(np.allclose(Fo[i], Fi[i] * q, rtol=0, atol=1e-8 * scale * h * w), f"{tag}: DFT ratio wrong in image {i}")


def main_common(seed=20260928, n_cases=140):
    rng = np.random.default_rng(seed)
    cases = []
    # edge cases: smallest / largest, even/odd mixes, single image, extreme pixel sizes and doses
    for h, w in [(4, 4), (4, 5), (5, 4), (5, 5), (64, 64), (63, 64), (64, 63), (4, 64), (64, 4), (7, 10)]:
        for px in (0.5, 1.0, 10.0):
            n = int(rng.integers(1, 4))
            cases.append((rng.normal(size=(n, h, w)), px, rng.choice([0.0, 300.0, 17.5, 1e-3], size=n)))
    for _ in range(n_cases):
        cases.append(random_case(rng))

    results = []
    for k, (stack, px, doses) in enumerate(cases):
        order = "xyz" if k % 2 == 0 else "zyx"
        dose_as = "list" if k % 3 == 0 else "array"
        res = run_patched(stack, px, doses, order, dose_as)
        check_property(stack, px, doses, res, f"case {k}")
        results.append(res)

    # call sequences: same objects again, in reverse order, after editing inputs in place
    for k in list(range(len(cases)))[::-7]:
        stack, px, doses = cases[k]
        res2 = run_patched(stack, px, doses, "zyx", "array")
        check(np.allclose(res2, results[k], rtol=0, atol=1e-12 * max(1, np.abs(stack).max())), f"case {k}: repeat differs")
    for k in range(0, len(cases), 9):
        stack, px, doses = cases[k]
        doses_arr = np.array(doses, dtype=float)
        r1 = run_patched(stack, px, doses_arr, "xyz", "array")
        r1_copy = r1.copy()
        # edit inputs in place: change doses (reverse + scale), image contents and pixel size, keep shapes
        doses_arr[:] = doses_arr[::-1] * 0.5 + 1.0
        stack *= -2.0
        stack += 3.0
        r2 = run_patched(stack, px, doses_arr, "xyz", "array")
        check_property(stack, px, doses_arr, r2, f"case {k} after in-place edit")
        px2 = px * 1.7 if px * 1.7 <= 10 else px / 1.7
        r3 = run_patched(stack, px2, doses_arr, "zyx", "list")
        check_property(stack, px2, doses_arr, r3, f"case {k} third call, other pixel size")
        # results returned earlier must not have been altered by later calls
        check(np.array_equal(r1, r1_copy), f"case {k}: an earlier result was altered by later calls")
        # transposed geometry with same numbers (h,w swapped) right after
        st = np.ascontiguousarray(stack.transpose(0, 2, 1))
        r4 = run_patched(st, px2, doses_arr, "zyx", "array")
        check_property(st, px2, doses_arr, r4, f"case {k} swapped height/width")

    # consequences
    for k in range(0, len(cases), 5):
        stack, px, doses = cases[k]
        n = stack.shape[0]
        scale = max(1.0, np.abs(stack).max())
        z = run_patched(stack, px, np.zeros(n), "zyx", "array")
        check(np.allclose(z, stack, rtol=0, atol=1e-10 * scale), f"case {k}: zero dose is not identity")
        other = rng.normal(size=stack.shape)
        la = run_patched(2.5 * stack - 1.5 * other, px, doses, "xyz", "array")
        lb = 2.5 * run_patched(stack, px, doses, "xyz", "array") - 1.5 * run_patched(other, px, doses, "xyz", "array")
        check(np.allclose(la, lb, rtol=0, atol=1e-9 * scale), f"case {k}: not linear")
        d1 = np.array(doses, dtype=float) * 0.4
        d2 = np.array(doses, dtype=float) * 0.6
        twice = run_patched(run_patched(stack, px, d1, "zyx", "array"), px, d2, "zyx", "array")
        once = run_patched(stack, px, d1 + d2, "zyx", "array")
        check(np.allclose(twice, once, rtol=0, atol=1e-9 * scale), f"case {k}: d1 then d2 != d1+d2")
        more = run_patched(stack, px, np.array(doses) + 25.0, "zyx", "array")
        Pm = np.abs(np.fft.fft2(more, axes=(1, 2)))
        Po = np.abs(np.fft.fft2(once, axes=(1, 2)))
        check(np.all(Pm <= Po + 1e-8 * scale * stack.shape[1] * stack.shape[2]), f"case {k}: more dose attenuates less")

    # file round trip: stack from an mrc file, doses from a one-value-per-line text file, output written
    with tempfile.TemporaryDirectory() as td:
        stack = rng.normal(size=(3, 12, 9)).astype(np.float32)
        doses = np.array([12.5, 0.0, 140.25])
        cryomap.write(stack, os.path.join(td, "in.mrc"), data_type=np.float32, transpose=False)
        np.savetxt(os.path.join(td, "dose.txt"), doses, fmt="%.6f")
        out = quiet(
            tiltstack.dose_filter,
            os.path.join(td, "in.mrc"),
            2.0,
            os.path.join(td, "dose.txt"),
            output_file=os.path.join(td, "out.mrc"),
            output_order="zyx",
        )
        ref = reference(stack.astype(float), 2.0, doses)
        check(np.allclose(out, ref, rtol=0, atol=1e-5), "file input: formula violated")
        back = cryomap.read(os.path.join(td, "out.mrc"), transpose=False)
        check(np.allclose(back, ref, rtol=0, atol=1e-5), "file output: formula violated")

    # single-image function, frequency array as the public caller would build it (centred), vs original text
    for _ in range(40):
        h, w = int(rng.integers(4, 65)), int(rng.integers(4, 65))
        px = float(rng.uniform(0.5, 10))
        img = rng.normal(size=(h, w))
        fx = np.fft.fftshift(np.fft.fftfreq(w, d=px))
        fy = np.fft.fftshift(np.fft.fftfreq(h, d=px))
        fa = np.sqrt(fx[None, :] ** 2 + fy[:, None] ** 2)
        fa_before = fa.copy()
        dose = float(rng.uniform(0, 300))
        got = quiet(tiltstack.dose_filter_single_image, img, dose, fa)
        exp = quiet(orig_dose_filter_single_image, img, dose, fa)
        check(np.array_equal(got, exp), "dose_filter_single_image differs from the original text")
        check(np.array_equal(fa, fa_before), "dose_filter_single_image modified the frequency array")
        check(np.allclose(got, reference(img[None], px, [dose])[0], rtol=0, atol=1e-9), "single image: formula violated")


def specific():
    """Change a: the attenuator expression lives in a private helper with module-level constants."""
    rng = np.random.default_rng(7)
    # integer doses given as a python list (np.asarray -> int64), float32 / integer-valued images
    for _ in range(10):
        n, h, w = int(rng.integers(1, 11)), int(rng.integers(4, 65)), int(rng.integers(4, 65))
        stack = rng.normal(size=(n, h, w))
        doses = [int(v) for v in rng.integers(0, 301, size=n)]
        px = float(rng.uniform(0.5, 10))
        res = quiet(tiltstack.dose_filter, stack, px, doses, None, "zyx", "zyx")
        check(np.array_equal(res, orig_dose_filter(stack, px, doses, "zyx", "zyx")), "integer doses: differs from original")
        check_property(stack, px, np.array(doses, dtype=float), res, "integer doses")
        s32 = stack.astype(np.float32)
        res = quiet(tiltstack.dose_filter, s32, px, doses, None, "zyx", "zyx")
        check(res.dtype == np.float32, "float32 stack: dtype of the result")
        check(np.array_equal(res, orig_dose_filter(s32, px, doses, "zyx", "zyx")), "float32 stack: differs from original")
    helper = getattr(tiltstack, "_exposure_attenuator", None)
    if helper is not None:
        for _ in range(200):
            fa = rng.uniform(0, 1.5, size=(int(rng.integers(1, 9)), int(rng.integers(1, 9))))
            fa[rng.integers(0, fa.shape[0]), rng.integers(0, fa.shape[1])] = 0.0
            for dose in (0, 0.0, 300, float(rng.uniform(0, 300)), np.float32(12.5), np.int64(7), np.float64(1e-9)):
                with np.errstate(all="ignore"):
                    got = helper(dose, fa)
                    exp = np.exp((-dose) / (2 * ((0.245 * (fa**-1.665)) + 2.81)))
                check(np.array_equal(got, exp) and got.dtype == exp.dtype, f"helper differs for dose {dose!r}")
        check(
            (tiltstack._CRITICAL_EXPOSURE_A, tiltstack._CRITICAL_EXPOSURE_B, tiltstack._CRITICAL_EXPOSURE_C)
            == (0.245, -1.665, 2.81),
            "constants changed",
        )
    sig = inspect.signature(tiltstack.dose_filter_single_image)
    check(list(sig.parameters)[:3] == ["image", "dose", "freq_array"], "signature of dose_filter_single_image changed")


if __name__ == "__main__":
    main_common()
    specific()
    if FAILS:
        print(f"FAIL ({len(FAILS)} checks)")
        sys.exit(1)
    print("PASS")
