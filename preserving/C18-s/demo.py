"""C18 demo: nearest-neighbour analysis equals brute force and is invariant under rigid motion.

Run as:  cd /tmp/wt11/C18 && /venv/bin/python /tmp/seedsU/C18/<x>/demo.py
Prints PASS and exits 0 when the property holds and the module's functions agree bit for bit with the copies of
the original function texts kept below.
"""
import os
import sys

sys.path.insert(0, os.getcwd())
import warnings

warnings.filterwarnings("ignore")
import logging
import numpy as np
import pandas as pd

from cryocat import nnana, cryomotl, geom  # noqa: E402

CHANGE = "c"  # which change this demo accompanies (a, b or c); the core checks are the same for all three

# --------------------------------------------------------------------------------------------------------------
# copies of the ORIGINAL function texts (unmodified tree), executed in a namespace of their own
# --------------------------------------------------------------------------------------------------------------
ORIGINAL_TEXT = '''
def get_feature_nn_indices(fm_a, fm_nn, nn_number=1):
    coord_a = fm_a.get_coordinates()
    coord_nn = fm_nn.get_coordinates()

    nn_count = min(nn_number, coord_nn.shape[0])
    kdt_nn = sn.KDTree(coord_nn)
    nn_dist, nn_idx = kdt_nn.query(coord_a, k=nn_count)
    ordered_idx = np.arange(0, nn_idx.shape[0], 1)

    return (
        ordered_idx,
        nn_idx.reshape((nn_idx.shape[0], nn_count)),
        nn_dist.reshape((nn_idx.shape[0], nn_count)),
        nn_count,
    )


def get_nn_stats(motl_a, motl_nn, pixel_size=1.0, feature_id="tomo_id", nn_number=1, rotation_type="angular_distance"):
    (
        centered_coord,
        rotated_coord,
        nn_dist,
        ang_dst,
        subtomo_idx,
        subtomo_idx_nn,
    ) = get_nn_distances(
        motl_a, motl_nn, nn_number=nn_number, pixel_size=pixel_size, feature=feature_id, rotation_type=rotation_type
    )

    coord_rot, angles = get_nn_rotations(motl_a, motl_nn, feature=feature_id, nn_number=nn_number)

    nn_stats = pd.DataFrame(
        np.hstack(
            (
                nn_dist.reshape((nn_dist.shape[0], 1)),
                centered_coord,
                rotated_coord,
                ang_dst.reshape((nn_dist.shape[0], 1)),
                coord_rot,
                angles,
                subtomo_idx.reshape((nn_dist.shape[0], 1)),
                subtomo_idx_nn.reshape((nn_dist.shape[0], 1)),
            )
        ),
        columns=[
            "distance",
            "coord_x",
            "coord_y",
            "coord_z",
            "coord_rx",
            "coord_ry",
            "coord_rz",
            "angular_distance",
            "rot_x",
            "rot_y",
            "rot_z",
            "phi",
            "theta",
            "psi",
            "subtomo_idx",
            "subtomo_nn_idx",
        ],
    )

    nn_stats["type"] = "nn"

    return nn_stats


def get_nn_distances(motl_a, motl_nn, pixel_size=1.0, nn_number=1, feature="tomo_id", rotation_type="angular_distance"):
    if isinstance(motl_a, str):
        motl_a = cryomotl.Motl(motl_path=motl_a)

    if isinstance(motl_nn, str):
        motl_nn = cryomotl.Motl(motl_path=motl_nn)

    # Get unique feature idx
    features_a = np.unique(motl_a.df.loc[:, feature].values)
    features_nn = np.unique(motl_nn.df.loc[:, feature].values)

    # Work only with intersection
    features = np.intersect1d(features_a, features_nn, assume_unique=True)

    centered_coord = []
    nn_dist = []
    angular_distances = []
    rotated_coord = []
    subtomo_idx = []
    subtomo_idx_nn = []

    for f in features:
        fm_a = motl_a.get_motl_subset(f, feature_id=feature)
        fm_nn = motl_nn.get_motl_subset(f, feature_id=feature)

        idx, nn_idx, dist, nn_count = get_feature_nn_indices(fm_a, fm_nn, nn_number)

        if len(idx) == 0:
            continue

        coord_nn = fm_nn.get_coordinates() * pixel_size
        coord_a = fm_a.get_coordinates() * pixel_size

        # get angles
        angles_a = fm_a.get_angles()
        angles_a = angles_a[idx, :]
        angles_nn = fm_nn.get_angles()
        rotations = srot.from_euler("zxz", angles=angles_a, degrees=True)

        angles = -fm_a.df[["psi", "theta", "phi"]].values
        angles = angles[idx, :]
        rot = srot.from_euler("zxz", angles=angles, degrees=True)

        subtomos_nn = fm_nn.df["subtomo_id"].to_numpy()
        subtomos_a = fm_a.df["subtomo_id"].to_numpy()

        for i in range(nn_count):
            c_coord = coord_nn[nn_idx[:, i], :] - coord_a[idx, :]
            centered_coord.append(c_coord)
            nn_dist.append(dist[:, i] * pixel_size)

            angles_nn_sel = angles_nn[nn_idx[:, i], :]

            rotations_nn = srot.from_euler("zxz", angles=angles_nn_sel, degrees=True)
            angular_distances.append(geom.compare_rotations(rotations, rotations_nn, rotation_type=rotation_type))

            rotated_coord.append(rot.apply(c_coord))

            subtomo_idx_nn.append(subtomos_nn[nn_idx[:, i]])
            subtomo_idx.append(subtomos_a[idx])

    return (
        np.vstack(centered_coord),
        np.vstack(rotated_coord),
        np.concatenate(nn_dist),
        np.concatenate(angular_distances),
        np.concatenate(subtomo_idx),
        np.concatenate(subtomo_idx_nn),
    )


def get_nn_rotations(motl_a, motl_nn, nn_number=1, feature="tomo_id", type_id="geom1"):
    if isinstance(motl_a, str):
        motl_a = cryomotl.Motl(motl_path=motl_a)

    if isinstance(motl_nn, str):
        motl_nn = cryomotl.Motl(motl_path=motl_nn)

    # Get unique feature idx
    features_a = np.unique(motl_a.df.loc[:, feature].values)
    features_nn = np.unique(motl_nn.df.loc[:, feature].values)

    # Work only with intersection
    features = np.intersect1d(features_a, features_nn, assume_unique=True)

    nn_rotations = []

    for f in features:
        fm_a = motl_a.get_motl_subset(f, feature_id=feature)
        fm_nn = motl_nn.get_motl_subset(f, feature_id=feature)

        idx, idx_nn, _, nn_count = get_feature_nn_indices(fm_a, fm_nn, nn_number)

        angles_nn = fm_nn.get_angles()
        angles_ref_to_zero = -fm_a.get_feature(["psi", "theta", "phi"])
        rot_to_zero = srot.from_euler("zxz", angles=angles_ref_to_zero[idx, :], degrees=True)

        for i in range(nn_count):
            rot_nn = srot.from_euler("zxz", angles=angles_nn[idx_nn[:, i], :], degrees=True)
            nn_rotations.append(rot_to_zero * rot_nn)

    nn_rotations = srot.concatenate(nn_rotations)
    points_on_sphere = geom.visualize_rotations(nn_rotations, plot_rotations=False)
    angles = nn_rotations.as_euler("zxz", degrees=True)

    return points_on_sphere, angles
'''
ORIG = {
    "np": np,
    "pd": pd,
    "cryomotl": cryomotl,
    "geom": geom,
    "sn": nnana.sn,
    "srot": nnana.srot,
}
exec(compile(ORIGINAL_TEXT, "<original nnana>", "exec"), ORIG)


# --------------------------------------------------------------------------------------------------------------
# independent computation (no scipy Rotation, no KD tree)
# --------------------------------------------------------------------------------------------------------------
def rz(a):
    c, s = np.cos(np.radians(a)), np.sin(np.radians(a))
    return np.array([[c, -s, 0.0], [s, c, 0.0], [0.0, 0.0, 1.0]])


def rx(a):
    c, s = np.cos(np.radians(a)), np.sin(np.radians(a))
    return np.array([[1.0, 0.0, 0.0], [0.0, c, -s], [0.0, s, c]])


def euler_to_matrix(phi, theta, psi):
    # extrinsic zxz(phi, theta, psi): first about z by phi, then about x by theta, then about z by psi
    return rz(psi) @ rx(theta) @ rz(phi)


def matrix_to_euler(m):
    """zxz(phi, theta, psi) of a rotation matrix m = rz(psi) rx(theta) rz(phi) (own formulae)."""
    theta = np.degrees(np.arctan2(np.hypot(m[2, 0], m[2, 1]), m[2, 2]))
    if np.hypot(m[2, 0], m[2, 1]) < 1e-12:
        # pole: only phi +- psi is defined, put everything into phi
        if m[2, 2] > 0:
            return np.degrees(np.arctan2(m[1, 0], m[0, 0])), 0.0, 0.0
        return np.degrees(np.arctan2(-m[1, 0], m[0, 0])), 180.0, 0.0
    phi = np.degrees(np.arctan2(m[2, 0], m[2, 1]))
    psi = np.degrees(np.arctan2(m[0, 2], -m[1, 2]))
    return phi, theta, psi


def rotation_angle(m):
    s = 0.5 * np.sqrt((m[2, 1] - m[1, 2]) ** 2 + (m[0, 2] - m[2, 0]) ** 2 + (m[1, 0] - m[0, 1]) ** 2)
    c = 0.5 * (np.trace(m) - 1.0)
    return np.degrees(np.arctan2(s, c))


def brute_force(df_a, df_nn, k, pixel_size):
    """Rows in the order of get_nn_stats: tomogram ascending, neighbour rank, query particle in table order."""
    rows = []
    tomos = sorted(set(df_a["tomo_id"].tolist()) & set(df_nn["tomo_id"].tolist()))
    for t in tomos:
        a = df_a[df_a["tomo_id"].to_numpy() == t]
        n = df_nn[df_nn["tomo_id"].to_numpy() == t]
        pa = a[["x", "y", "z"]].to_numpy(dtype=float) + a[["shift_x", "shift_y", "shift_z"]].to_numpy(dtype=float)
        pn = n[["x", "y", "z"]].to_numpy(dtype=float) + n[["shift_x", "shift_y", "shift_z"]].to_numpy(dtype=float)
        ra = [euler_to_matrix(*r) for r in a[["phi", "theta", "psi"]].to_numpy(dtype=float)]
        rn = [euler_to_matrix(*r) for r in n[["phi", "theta", "psi"]].to_numpy(dtype=float)]
        ida = a["subtomo_id"].to_numpy()
        idn = n["subtomo_id"].to_numpy()
        d = np.sqrt(((pa[:, None, :] - pn[None, :, :]) ** 2).sum(axis=2))
        order = np.argsort(d, axis=1, kind="stable")
        for rank in range(min(k, pn.shape[0])):
            for i in range(pa.shape[0]):
                j = order[i, rank]
                off = (pn[j] - pa[i]) * pixel_size
                rel = ra[i].T @ rn[j]
                rows.append(
                    dict(
                        distance=d[i, j] * pixel_size,
                        off=off,
                        roff=ra[i].T @ off,
                        ang=rotation_angle(rel),
                        rel=rel,
                        sid=ida[i],
                        sid_nn=idn[j],
                        gap=_gap(d[i], order[i], rank),
                    )
                )
    return rows


def _gap(drow, order, rank):
    # distance gap to the competing candidates: used to make sure that no near-tie enters the comparison
    g = np.inf
    if rank + 1 < len(order):
        g = min(g, drow[order[rank + 1]] - drow[order[rank]])
    if rank > 0:
        g = min(g, drow[order[rank]] - drow[order[rank - 1]])
    return g


def check_against_brute_force(stats, df_a, df_nn, k, pixel_size, label):
    rows = brute_force(df_a, df_nn, k, pixel_size)
    assert len(rows) == stats.shape[0], (label, "row count", len(rows), stats.shape[0])
    assert list(stats.columns) == [
        "distance", "coord_x", "coord_y", "coord_z", "coord_rx", "coord_ry", "coord_rz", "angular_distance",
        "rot_x", "rot_y", "rot_z", "phi", "theta", "psi", "subtomo_idx", "subtomo_nn_idx", "type",
    ], (label, list(stats.columns))
    assert (stats["type"] == "nn").all()
    assert list(stats.index) == list(range(len(rows))), label
    scale = 1.0 + max((abs(r["distance"]) for r in rows), default=0.0)
    for r, (_, s) in zip(rows, stats.iterrows()):
        assert r["gap"] > 1e-9, (label, "tie in the generated data")
        assert s["subtomo_idx"] == r["sid"], (label, "query id", s["subtomo_idx"], r["sid"])
        assert s["subtomo_nn_idx"] == r["sid_nn"], (label, "neighbour id", s["subtomo_nn_idx"], r["sid_nn"])
        assert abs(s["distance"] - r["distance"]) <= 1e-9 * scale, (label, "distance", s["distance"], r["distance"])
        got_off = s[["coord_x", "coord_y", "coord_z"]].to_numpy(dtype=float)
        assert np.allclose(got_off, r["off"], rtol=0, atol=1e-9 * scale), (label, "offset", got_off, r["off"])
        # the distance is the length of the reported offset
        assert abs(np.linalg.norm(got_off) - s["distance"]) <= 1e-9 * scale, (label, "offset length")
        got_roff = s[["coord_rx", "coord_ry", "coord_rz"]].to_numpy(dtype=float)
        assert np.allclose(got_roff, r["roff"], rtol=0, atol=1e-8 * scale), (label, "frame offset", got_roff, r["roff"])
        assert abs(s["angular_distance"] - r["ang"]) <= 1e-4, (label, "angular distance", s["angular_distance"], r["ang"])
        got_n = s[["rot_x", "rot_y", "rot_z"]].to_numpy(dtype=float)
        assert np.allclose(got_n, r["rel"][:, 2], rtol=0, atol=1e-9), (label, "z normal", got_n, r["rel"][:, 2])
        got_rel = euler_to_matrix(s["phi"], s["theta"], s["psi"])
        assert np.allclose(got_rel, r["rel"], rtol=0, atol=1e-7), (label, "relative orientation")
    return rows


def same_table(t1, t2, label):
    assert list(t1.columns) == list(t2.columns), label
    assert list(t1.dtypes) == list(t2.dtypes), (label, "dtypes")
    assert list(t1.index) == list(t2.index), label
    for c in t1.columns:
        if t1[c].dtype == object or str(t1[c].dtype).startswith("str"):
            assert (t1[c] == t2[c]).all(), (label, c)
        else:
            assert np.array_equal(t1[c].to_numpy(), t2[c].to_numpy(), equal_nan=True), (label, c)


# --------------------------------------------------------------------------------------------------------------
# inputs
# --------------------------------------------------------------------------------------------------------------
def make_df(rng, n, tomos, int_types=False, index="default", poles=False, id_start=1, spread=200.0):
    df = pd.DataFrame(0.0, index=range(n), columns=cryomotl.Motl.motl_columns)
    pos = rng.uniform(-spread, spread, size=(n, 3))  # negative values and values around zero included
    df["x"], df["y"], df["z"] = np.round(pos[:, 0]), np.round(pos[:, 1]), np.round(pos[:, 2])
    sh = pos - np.round(pos)  # non-zero shifts (random, so that no two distances tie)
    df["shift_x"], df["shift_y"], df["shift_z"] = sh[:, 0], sh[:, 1], sh[:, 2]
    if int_types:
        for c in ["x", "y", "z"]:
            df[c] = df[c].astype(int)
    ang = np.column_stack((rng.uniform(-180, 180, n), rng.uniform(0, 180, n), rng.uniform(-180, 180, n)))
    if poles:
        ang[::3, 1] = 0.0
        ang[1::3, 1] = 180.0
        ang[::4, 0] = 0.0
        ang[::5, 2] = 0.0
    if int_types:
        ang = np.round(ang)
    df["phi"], df["theta"], df["psi"] = ang[:, 0], ang[:, 1], ang[:, 2]
    if int_types:
        df[["phi", "theta", "psi"]] = df[["phi", "theta", "psi"]].astype(int)
    df["tomo_id"] = rng.choice(np.asarray(tomos, dtype=float), size=n)
    df["subtomo_id"] = rng.permutation(np.arange(id_start, id_start + n)).astype(float)  # not in row order
    df["score"] = rng.uniform(0, 1, n)
    df["class"] = 1.0
    if int_types:
        df["tomo_id"] = df["tomo_id"].astype(int)
        df["subtomo_id"] = df["subtomo_id"].astype(int)
    if index == "shuffled":
        df.index = rng.permutation(np.arange(100, 100 + n))
    elif index == "offset":
        df.index = np.arange(n)[::-1] * 3 + 7
    elif index == "duplicate":
        df.index = np.zeros(n, dtype=int)
    return df


def rigid_motion(rng, df, per_tomo_motion):
    """Every tomogram moved rigidly: positions -> Q p + t, orientations -> Q R; the new complete position is split
    again into a rounded part and a non-zero shift."""
    out = df.copy()
    for c in ["x", "y", "z", "shift_x", "shift_y", "shift_z", "phi", "theta", "psi"]:
        out[c] = out[c].astype(float)
    for t, (q, tr) in per_tomo_motion.items():
        m = out["tomo_id"].to_numpy() == t
        if not m.any():
            continue
        p = df.loc[m, ["x", "y", "z"]].to_numpy(dtype=float) + df.loc[m, ["shift_x", "shift_y", "shift_z"]].to_numpy(dtype=float)
        p2 = p @ q.T + tr
        base = np.floor(p2)
        out.loc[m, ["x", "y", "z"]] = base
        out.loc[m, ["shift_x", "shift_y", "shift_z"]] = p2 - base
        ang = df.loc[m, ["phi", "theta", "psi"]].to_numpy(dtype=float)
        new = np.array([matrix_to_euler(q @ euler_to_matrix(*a)) for a in ang])
        out.loc[m, ["phi", "theta", "psi"]] = new
    return out


def random_rotation_matrix(rng, special=None):
    if special == "identity":
        return np.eye(3)
    if special == "flip":
        return euler_to_matrix(0.0, 180.0, 0.0)
    if special == "z90":
        return euler_to_matrix(90.0, 0.0, 0.0)
    return euler_to_matrix(rng.uniform(-180, 180), rng.uniform(0, 180), rng.uniform(-180, 180))


def check_invariance(stats, stats_moved, label):
    assert stats.shape == stats_moved.shape, (label, "shape after the motion")
    scale = 1.0 + float(np.abs(stats["distance"]).max()) if len(stats) else 1.0
    for c in ["subtomo_idx", "subtomo_nn_idx"]:
        assert np.array_equal(stats[c].to_numpy(), stats_moved[c].to_numpy()), (label, c)
    assert np.allclose(stats["distance"], stats_moved["distance"], rtol=0, atol=1e-8 * scale), (label, "distance moved")
    for c in ["coord_rx", "coord_ry", "coord_rz"]:
        assert np.allclose(stats[c], stats_moved[c], rtol=0, atol=1e-7 * scale), (label, c)
    assert np.allclose(stats["angular_distance"], stats_moved["angular_distance"], rtol=0, atol=1e-4), (label, "angular moved")
    for c in ["rot_x", "rot_y", "rot_z"]:
        assert np.allclose(stats[c], stats_moved[c], rtol=0, atol=1e-7), (label, c)
    for (_, s1), (_, s2) in zip(stats.iterrows(), stats_moved.iterrows()):
        m1 = euler_to_matrix(s1["phi"], s1["theta"], s1["psi"])
        m2 = euler_to_matrix(s2["phi"], s2["theta"], s2["psi"])
        assert np.allclose(m1, m2, rtol=0, atol=1e-7), (label, "relative orientation moved")


# --------------------------------------------------------------------------------------------------------------
# the run
# --------------------------------------------------------------------------------------------------------------
def one_case(rng, label, df_a, df_nn, k, pixel_size, coincident=False, motion="random"):
    keep_a, keep_nn = df_a.copy(deep=True), df_nn.copy(deep=True)
    motl_a = cryomotl.Motl(df_a)
    motl_nn = motl_a if coincident else cryomotl.Motl(df_nn)

    state = np.random.get_state()[1].copy()
    stats = nnana.get_nn_stats(motl_a, motl_nn, pixel_size=pixel_size, nn_number=k)
    assert np.array_equal(state, np.random.get_state()[1]), (label, "global random state touched")
    # inputs untouched
    pd.testing.assert_frame_equal(motl_a.df, keep_a)
    pd.testing.assert_frame_equal(motl_nn.df, keep_a if coincident else keep_nn)

    # 1. the property: brute force
    check_against_brute_force(stats, keep_a, keep_a if coincident else keep_nn, k, pixel_size, label)

    # 2. patched == original text, bit for bit, also for the intermediate functions
    ref = ORIG["get_nn_stats"](motl_a, motl_nn, pixel_size=pixel_size, nn_number=k)
    same_table(stats, ref, label + " vs original")
    d1 = nnana.get_nn_distances(motl_a, motl_nn, pixel_size=pixel_size, nn_number=k)
    d0 = ORIG["get_nn_distances"](motl_a, motl_nn, pixel_size=pixel_size, nn_number=k)
    for x, y in zip(d1, d0):
        assert x.dtype == y.dtype and np.array_equal(x, y, equal_nan=True), (label, "get_nn_distances vs original")
    r1 = nnana.get_nn_rotations(motl_a, motl_nn, nn_number=k)
    r0 = ORIG["get_nn_rotations"](motl_a, motl_nn, nn_number=k)
    for x, y in zip(r1, r0):
        assert x.dtype == y.dtype and np.array_equal(x, y, equal_nan=True), (label, "get_nn_rotations vs original")
    for rt in ["cone_distance", "in_plane_distance"]:
        s1 = nnana.get_nn_stats(motl_a, motl_nn, pixel_size=pixel_size, nn_number=k, rotation_type=rt)
        s0 = ORIG["get_nn_stats"](motl_a, motl_nn, pixel_size=pixel_size, nn_number=k, rotation_type=rt)
        same_table(s1, s0, label + " " + rt)

    # 3. repeated call on the same objects gives the same table
    again = nnana.get_nn_stats(motl_a, motl_nn, pixel_size=pixel_size, nn_number=k)
    same_table(stats, again, label + " repeated")

    # 4. rigid motion of every tomogram (its own Q and t per tomogram)
    tomos = sorted(set(keep_a["tomo_id"].tolist()) | set(keep_nn["tomo_id"].tolist()))
    motions = {}
    for n, t in enumerate(tomos):
        special = None if motion == "random" else ["identity", "flip", "z90", None][n % 4]
        motions[t] = (random_rotation_matrix(rng, special), rng.uniform(-500, 500, 3) if special != "identity" else np.zeros(3))
    mv_a = rigid_motion(rng, keep_a, motions)
    mv_nn = mv_a if coincident else rigid_motion(rng, keep_nn, motions)
    m_a = cryomotl.Motl(mv_a)
    m_nn = m_a if coincident else cryomotl.Motl(mv_nn)
    moved = nnana.get_nn_stats(m_a, m_nn, pixel_size=pixel_size, nn_number=k)
    check_invariance(stats, moved, label + " moved")
    check_against_brute_force(moved, mv_a, mv_nn, k, pixel_size, label + " moved, brute force")
    return stats


def _small_pair(rng, int_angles=False):
    df_a = make_df(rng, 9, [1, 2], index="shuffled", poles=True, int_types=int_angles)
    df_nn = make_df(rng, 11, [1, 2, 3], index="offset", id_start=300)
    for d in (df_a, df_nn):
        d.iloc[0, d.columns.get_loc("tomo_id")] = 1
    return df_a, df_nn


def outcome(f):
    try:
        return ("ok", f())
    except BaseException as e:  # noqa: BLE001 - the demo only records what happened
        return ("raised", e)


def extra_checks_a(rng):
    """Change a: the shared helper gives exactly the rotations of the two original expressions."""
    helper = getattr(nnana, "_rotations_to_particle_frame", None)
    if helper is None:
        print("   (clean tree: no helper to compare)")
        return
    srot = nnana.srot
    for int_angles in (False, True):
        for n in (1, 2, 13):
            df = make_df(rng, n, [1], poles=True, int_types=int_angles, index="shuffled")
            if int_angles and n > 1:
                df["theta"] = df["theta"].astype(float)  # mixed integer / float angle columns
            fm = cryomotl.Motl(df.reset_index(drop=True))
            for idx in (np.arange(0, n, 1), np.arange(n)[::-1].copy(), np.zeros(n, dtype=int)):
                a0 = -fm.df[["psi", "theta", "phi"]].values
                r0 = srot.from_euler("zxz", angles=a0[idx, :], degrees=True)
                a1 = -fm.get_feature(["psi", "theta", "phi"])
                r1 = srot.from_euler("zxz", angles=a1[idx, :], degrees=True)
                r2 = helper(fm, idx)
                assert np.array_equal(r0.as_quat(), r2.as_quat()) and np.array_equal(r1.as_quat(), r2.as_quat())
                assert r0.as_quat().shape == r2.as_quat().shape and len(r2) == n
    print("   helper == both original expressions (float, integer and mixed angle columns)")


def extra_checks_b(rng):
    """Change b: valid requests at the edge of the quantifier pass untouched; requests outside it fail in both trees
    or (pixel size <= 0) are outside the property."""
    patched = hasattr(nnana, "_check_nn_request")
    df_a, df_nn = _small_pair(rng)
    ma, mn = cryomotl.Motl(df_a), cryomotl.Motl(df_nn)
    # inside the quantifier, unusual spellings of valid values
    for kw in [
        dict(nn_number=np.int64(3)), dict(nn_number=5, pixel_size=2), dict(pixel_size=np.float32(1.5)),
        dict(pixel_size=np.float64(1e-12)), dict(pixel_size=5e-324), dict(pixel_size=1e300, nn_number=1),
        dict(nn_number=1, pixel_size=np.array(2.5)), dict(nn_number=200), dict(feature_id="class"),
        dict(rotation_type="cone_distance", nn_number=2), dict(rotation_type="in_plane_distance"),
        dict(rotation_type=np.str_("angular_distance")),
    ]:
        s1 = nnana.get_nn_stats(ma, mn, **kw)
        s0 = ORIG["get_nn_stats"](ma, mn, **kw)
        same_table(s1, s0, f"valid {kw}")
    # outside the quantifier: must not succeed silently where the original failed, same exception type kept
    disjoint = cryomotl.Motl(make_df(rng, 4, [7], id_start=900))
    for label, call in [
        ("nn_number=0", lambda f: f(ma, mn, nn_number=0)),
        ("nn_number=-1", lambda f: f(ma, mn, nn_number=-1)),
        ("rotation_type=all", lambda f: f(ma, mn, rotation_type="all")),
        ("rotation_type=all, k=3", lambda f: f(ma, mn, rotation_type="all", nn_number=3)),
        ("rotation_type=foo", lambda f: f(ma, mn, rotation_type="foo")),
        ("disjoint tomograms", lambda f: f(ma, disjoint)),
        ("empty first list", lambda f: f(cryomotl.Motl(), mn)),
        ("empty second list", lambda f: f(ma, cryomotl.Motl())),
    ]:
        o1, o0 = outcome(lambda: call(nnana.get_nn_stats)), outcome(lambda: call(ORIG["get_nn_stats"]))
        assert o0[0] == "raised" and o1[0] == "raised", (label, o0, o1)
        assert type(o1[1]) is type(o0[1]), (label, "exception type changed", o0, o1)
    for label, call in [
        ("disjoint tomograms", lambda f: f(ma, disjoint)),
        ("empty first list", lambda f: f(cryomotl.Motl(), mn)),
    ]:
        o1, o0 = outcome(lambda: call(nnana.get_nn_distances)), outcome(lambda: call(ORIG["get_nn_distances"]))
        assert o0[0] == o1[0] == "raised" and type(o1[1]) is type(o0[1]) is ValueError, (label, o0, o1)
    if patched:
        for px in (0, 0.0, -1.0, float("nan"), -0.0):
            o = outcome(lambda: nnana.get_nn_stats(ma, mn, pixel_size=px))
            assert o[0] == "raised" and isinstance(o[1], ValueError), ("pixel size", px, o)
        # the check itself returns None and changes nothing
        assert nnana._check_nn_request(1.0, 1, "angular_distance") is None
    print("   edge-of-quantifier requests identical to the original; invalid requests raise the same exception types")


class _Collect(logging.Handler):
    def __init__(self):
        super().__init__(level=logging.DEBUG)
        self.records = []

    def emit(self, record):
        self.records.append(record.getMessage())


def extra_checks_c(rng):
    """Change c: with the module's logger switched to DEBUG the tables are the same as with logging off."""
    log = logging.getLogger("cryocat.nnana")
    handler = _Collect()
    old_level, old_prop = log.level, log.propagate
    for rep in range(6):
        df_a, df_nn = _small_pair(rng, int_angles=bool(rep % 2))
        ma, mn = cryomotl.Motl(df_a), cryomotl.Motl(df_nn)
        k, px = 1 + rep % 5, [1.0, 2.2][rep % 2]
        quiet = nnana.get_nn_stats(ma, mn, pixel_size=px, nn_number=k)
        keep_a, keep_nn = ma.df.copy(deep=True), mn.df.copy(deep=True)
        log.addHandler(handler)
        log.setLevel(logging.DEBUG)
        log.propagate = False
        try:
            state = np.random.get_state()[1].copy()
            loud = nnana.get_nn_stats(ma, mn, pixel_size=px, nn_number=k)
            loud_d = nnana.get_nn_distances(ma, mn, pixel_size=px, nn_number=k)
            assert np.array_equal(state, np.random.get_state()[1])
        finally:
            log.removeHandler(handler)
            log.setLevel(old_level)
            log.propagate = old_prop
        same_table(quiet, loud, "logging on/off")
        same_table(loud, ORIG["get_nn_stats"](ma, mn, pixel_size=px, nn_number=k), "logging on vs original")
        for x, y in zip(loud_d, ORIG["get_nn_distances"](ma, mn, pixel_size=px, nn_number=k)):
            assert x.dtype == y.dtype and np.array_equal(x, y)
        pd.testing.assert_frame_equal(ma.df, keep_a)
        pd.testing.assert_frame_equal(mn.df, keep_nn)
        check_against_brute_force(loud, df_a, df_nn, k, px, "logging on, brute force")
    print(f"   logging on/off: identical tables ({len(handler.records)} debug records seen)")


def extra_checks(rng):
    {"a": extra_checks_a, "b": extra_checks_b, "c": extra_checks_c}[CHANGE](rng)


def main():
    rng = np.random.default_rng(1818)
    n_cases = 0
    # random cases
    for rep in range(40):
        na = int(rng.choice([1, 2, 3, 7, 20, 50, 120, 200]))
        nn = int(rng.choice([1, 2, 4, 9, 33, 64, 150, 200]))
        n_t = int(rng.integers(1, 5))
        tomos_a = list(rng.choice(np.arange(1, 9), size=n_t, replace=False))
        if rep % 3 == 0:
            tomos_nn = tomos_a
        else:
            # partially disjoint tomogram sets (at least one shared, some only in one of the lists)
            extra = [t for t in range(1, 9) if t not in tomos_a]
            tomos_nn = [tomos_a[0]] + list(rng.choice(extra, size=min(len(extra), int(rng.integers(0, 3))), replace=False))
            if rep % 3 == 2 and len(tomos_a) > 1:
                tomos_nn.append(tomos_a[1])
        k = int(rng.integers(1, 6))
        px = float(rng.choice([1.0, 0.5, 1.35, 2.0, 7.81, 1e-3, 13.3]))
        idx = ["default", "shuffled", "offset", "duplicate"][rep % 4]
        df_a = make_df(rng, na, tomos_a, index=idx, poles=(rep % 5 == 0), id_start=1)
        df_nn = make_df(rng, nn, tomos_nn, index=["offset", "default", "shuffled"][rep % 3], poles=(rep % 7 == 0), id_start=1000)
        # make sure that at least one tomogram is shared by the two lists
        if not (set(df_a["tomo_id"]) & set(df_nn["tomo_id"])):
            df_nn.iloc[0, df_nn.columns.get_loc("tomo_id")] = df_a["tomo_id"].iloc[0]
        one_case(rng, f"random {rep}", df_a, df_nn, k, px, motion="random" if rep % 2 else "special")
        n_cases += 1

    # coincident lists (the same object twice): the first neighbour is the particle itself at distance 0
    for rep, n in enumerate([1, 2, 6, 40, 200]):
        df = make_df(rng, n, [3, 5][: 1 + rep % 2], index=["default", "shuffled"][rep % 2], poles=bool(rep % 2))
        st = one_case(rng, f"coincident {rep}", df, df, k=min(5, rep + 1), pixel_size=[1.0, 2.5][rep % 2], coincident=True)
        first = st.iloc[: 0 + (df["tomo_id"] == sorted(df["tomo_id"].unique())[0]).sum()]
        assert (first["distance"] == 0).all() and (first["subtomo_idx"] == first["subtomo_nn_idx"]).all()
        assert (first["angular_distance"].abs() < 1e-4).all()
        n_cases += 1

    # equal lists as two separate objects
    df = make_df(rng, 30, [1, 2])
    one_case(rng, "equal copies", df, df.copy(), k=3, pixel_size=1.7)
    n_cases += 1

    # integer element types everywhere (positions, shifts, angles, ids)
    for rep in range(4):
        df_a = make_df(rng, [1, 5, 17, 60][rep], [1, 2], int_types=True, index=["default", "offset"][rep % 2], poles=True)
        df_nn = make_df(rng, [3, 1, 22, 45][rep], [1, 2, 4], int_types=True, id_start=500)
        if not (set(df_a["tomo_id"]) & set(df_nn["tomo_id"])):
            df_nn.iloc[0, df_nn.columns.get_loc("tomo_id")] = df_a["tomo_id"].iloc[0]
        one_case(rng, f"integer {rep}", df_a, df_nn, k=[1, 5, 2, 4][rep], pixel_size=[1.0, 3.0, 0.25, 10.0][rep])
        n_cases += 1

    # single rows, k larger than the second list, exact thresholds k == size of the second list
    for na, nn, k in [(1, 1, 1), (1, 1, 5), (1, 3, 3), (4, 3, 3), (4, 3, 4), (5, 2, 5), (3, 5, 5), (2, 6, 5)]:
        df_a = make_df(rng, na, [2], index="offset")
        df_nn = make_df(rng, nn, [2], index="shuffled", id_start=77)
        st = one_case(rng, f"small {na} {nn} {k}", df_a, df_nn, k, 1.0)
        assert st.shape[0] == na * min(k, nn)
        n_cases += 1

    # all orientations at the poles / zero
    df_a = make_df(rng, 12, [1])
    df_nn = make_df(rng, 15, [1], id_start=40)
    for d in (df_a, df_nn):
        d["theta"] = np.where(np.arange(len(d)) % 2 == 0, 0.0, 180.0)
    df_a.loc[df_a.index[:3], ["phi", "theta", "psi"]] = 0.0
    one_case(rng, "poles", df_a, df_nn, 4, 1.0)
    n_cases += 1

    extra_checks(rng)
    print(f"{n_cases} cases checked against brute force, the original function texts and under rigid motion")
    print("PASS")


if __name__ == "__main__":
    main()
