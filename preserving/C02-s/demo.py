"""Property C02 - STAR files read back to the same blocks, columns, rows and values.
change c: debug logging in Starfile.read / Starfile.write, Token.__repr__, an always-true assert

Run as:  cd /tmp/wt11/C02 && /venv/bin/python /tmp/seedsU/C02/c/demo.py
1. hand-built STAR texts (comments, blank lines, tabs, CRLF, no final newline, empty last block) are read into exactly the
   blocks / labels / row tokens that an independent line based tokenizer finds, numeric columns as numbers, others as text;
2. random lists of 1..4 tables (int / float / text columns, odd row indices, 1..200 rows, 1..30 columns, empty last block,
   numbered and un-numbered headers, stopgap blocks) are written, the text is checked with the independent tokenizer, and
   read back: same names, columns, rows, numbers equal after rounding to 6 decimals, text unchanged;
3. every output of the functions in the work tree (patched or not) is compared with the output of the ORIGINAL functions,
   whose text is kept below (ORIG_SRC) - file bytes, tables, dtypes, the caller's list after write, exceptions.
Prints PASS and exits 0 when all of this holds.
"""
import sys, os

sys.path.insert(0, os.getcwd())
import re, types, tempfile
import numpy as np
import pandas as pd
from cryocat import starfileio as cur

assert os.path.abspath(cur.__file__).startswith(os.getcwd()), cur.__file__

# the unmodified cryocat/starfileio.py (HEAD of the work tree)
ORIG_SRC = r'''from enum import Enum
import pandas as pd
from os import path
import warnings


class TokenType(Enum):
    LITERAL = 0
    NEWLINE = 1
    COMMENT = 2
    LOOP = 3
    PROPERTY = 4


class Token:
    def __init__(self, token_type: TokenType, value, location):
        self.token_type = token_type
        self.value = value
        self.location = (location[0] + 1, location[1] + 1)

    @staticmethod
    def tokenize(text):
        """This function tokenizes a text into several tokens.

        Parameters
        ----------
        text :
            a given text

        Returns
        -------
        type
            list of tokens

        """
        tokens = list()

        # Split the text into several lines
        lines = text.split("\n")
        for line_number, line in enumerate(lines):
            # The first index of a non-space-or-hash sequence of characters. None means there is no sequence found
            first = None
            for index, char in enumerate(line):
                if not char.isspace() and char != "#":
                    # Set the first index of the sequence if it is None
                    if first is None:
                        first = index
                    continue
                elif first is not None:
                    # If a space or # and the sequence are found, classifies the sequence as
                    #   LOOP if it is 'loop_'
                    #   PROPERTY if it starts with '_'
                    #   LITERAL otherwise

                    if line[first] == "_":
                        tokens.append(Token(TokenType.PROPERTY, line[first:index], (line_number, first)))
                    elif line[first:index] == "loop_":
                        tokens.append(Token(TokenType.LOOP, line[first:index], (line_number, first)))
                    else:
                        tokens.append(Token(TokenType.LITERAL, line[first:index], (line_number, first)))

                    # Set that there is no sequence found
                    first = None
                if char == "#":
                    # Anything after the # character is a comment

                    tokens.append(Token(TokenType.COMMENT, line[index + 1 :].strip(), (line_number, index)))
                    break
                elif not char.isspace():
                    raise IOError(f"Got unexpected {char} at (Line {line_number}, Column {index}).")
            if first is not None:
                # Classifies the sequence if there is an end of line

                if line[first] == "_":
                    tokens.append(Token(TokenType.PROPERTY, line[first:], (line_number, first)))
                elif line[first:] == "loop_":
                    tokens.append(Token(TokenType.LOOP, line[first:], (line_number, first)))
                else:
                    tokens.append(Token(TokenType.LITERAL, line[first:], (line_number, first)))

            # Add a NEWLINE token
            tokens.append(Token(TokenType.NEWLINE, None, (line_number, 0)))

        return tokens[::-1]

    @staticmethod
    def parse_newline_or_comments(tokens):
        """This function takes a token queue and dequeues any NEWLINE token and COMMENT token while storing the comments from
        the COMMENT tokens.

        Parameters
        ----------
        tokens :
            a queue of tokens

        Returns
        -------
        type
            list of comments retrieves from the dequeued COMMENT tokens

        """
        comments = []
        while True:
            comment_token = Token.check_then_consume(tokens, TokenType.COMMENT)
            if comment_token is not None:
                comments.append(comment_token.value)
            elif not Token.check_then_consume(tokens, TokenType.NEWLINE):
                break
        return comments

    @staticmethod
    def parse_specifier(tokens):
        """This function takes a token queue, gets comments, and consumes (matches) a specifier as a LITERAL token.

        Parameters
        ----------
        tokens :
            a queue of tokens

        Returns
        -------
        type
            a tuple of comments and the parsed specifier

        """
        comments = Token.parse_newline_or_comments(tokens)
        specifier = Token.consume(tokens, TokenType.LITERAL)
        return comments, specifier.value

    @staticmethod
    def parse_columns(tokens):
        """This function takes a token queue, gets comments, consumes (matches) the `loop_` keyword as a LOOP token
        following by a NEWLINE token, and parses the column names

        Parameters
        ----------
        tokens :
            a queue of tokens

        Returns
        -------
        type
            a tuple of comments and column names

        """
        comments = Token.parse_newline_or_comments(tokens)
        columns = []
        Token.consume(tokens, TokenType.LOOP)
        Token.consume(tokens, TokenType.NEWLINE)
        while Token.check(tokens, TokenType.PROPERTY):
            column = Token.parse_column(tokens)
            columns.append(column)
        return comments, columns

    @staticmethod
    def parse_column(tokens):
        """This function takes a token queue, consumes a column name token as a PROPERTY token, and tries to consume
        a COMMENT token to retrieve the comment if existed.

        The PROPERTY token captures anything starting with "_", therefore the column name be the value of the token
        without the "_".

        Parameters
        ----------
        tokens :
            a token queue

        Returns
        -------
        type
            a tuple of comments and the column name

        """
        column = Token.consume(tokens, TokenType.PROPERTY)
        Token.check_then_consume(tokens, TokenType.COMMENT)
        Token.consume(tokens, TokenType.NEWLINE)
        return column.value[1:]

    @staticmethod
    def parse_rows(tokens, columns):
        """This function takes a token queue, gets comments, tries to consume LITERAL tokens as a rows which matches
        the number of columns before getting a new line, and converts the rows to a Pandas DataFrame.

        Parameters
        ----------
        tokens :
            a queue of tokens
        columns :
            a list of column names

        Returns
        -------
        type
            a tuple of comments and Pandas DataFrames

        """
        comments = Token.parse_newline_or_comments(tokens)
        end = False
        rows = []
        while not end:
            data = []
            for i in range(len(columns)):
                token = Token.check_then_consume(tokens, TokenType.LITERAL)
                if token is None:
                    end = True
                    break
                else:
                    data.append(token.value)
            else:
                Token.consume(tokens, TokenType.NEWLINE)
                rows.append(data)
        return comments, pd.DataFrame(rows, columns=columns)

    @staticmethod
    def check(tokens, token_type):
        """This function checks if the first token from the given token queue matches a given token type.

        Parameters
        ----------
        tokens :
            a queue of tokens
        token_type :
            a token type to be matched

        Returns
        -------
        type
            a boolean value indicating the match

        """

        if len(tokens) == 0:
            # end of the text: nothing is left that could match (e.g. the labels of an empty last block without final newline)
            return False
        if tokens[-1].token_type == token_type:
            return True
        return False

    @staticmethod
    def consume(tokens, token_type):
        """This function consumes the first token from the given token queue. If the token type of the first
        token does not match the token type to be matched, this function will raise a parsing error.

        Parameters
        ----------
        tokens :
            a queue of tokens
        token_type :
            a token type to be matched

        Returns
        -------
        type
            the first token

        """
        if len(tokens) == 0:
            raise IOError(f"Expected {token_type} but there are enough token.")
        if tokens[-1].token_type == token_type:
            return tokens.pop()
        else:
            raise IOError(f"Expected {token_type} but got {tokens[0].token_type} at {tokens[0].location}.")

    @staticmethod
    def check_then_consume(tokens, token_type):
        """This function checks the first token from the given token queue and consumes it if matched. Otherwise,
        it returns a None

        Parameters
        ----------
        tokens :
            a queue of tokens
        token_type :
            a token type to be matched

        Returns
        -------
        type
            the first token or None

        """
        if len(tokens) > 0 and tokens[-1].token_type == token_type:
            return Token.consume(tokens, token_type)
        return None

    @staticmethod
    def lookahead(tokens, token_type_target, ignores):
        """This function looks for a token type while ignoring token types from the ignores list

        Parameters
        ----------
        tokens :
            a queue of tokens
        token_type_target :
            a token type to be found
        ignores :
            a list of token types to be ignored

        Returns
        -------
        type
            a boolean value indicating a found token

        """
        ignores = set(ignores)
        for i in range(len(tokens) - 1, -1, -1):
            if tokens[i].token_type == token_type_target:
                return True
            elif tokens[i].token_type in ignores:
                continue
            else:
                break
        return False


class Starfile:
    def __init__(self, file_path=None, frames=None, specifiers=None, comments=None):
        """
        This function reads a starfile with a *.star extension into a tuple of a list of Pandas DataFrame, a list of Data
            Specifier, and a list of comments

            It reads the file and extracts the lists from the parsing function.

        Parameters
        ----------
        path :
            the path to the starfile to be read

        Returns
        -------
        type
            a tuples of a list of Pandas DataFrames, list of specifiers, and list of comments

        """

        if file_path and path.isfile(file_path):
            self.frames, self.specifiers, self.comments = self.read(file_path)
        else:
            self.frames = frames
            self.specifiers = specifiers
            self.comments = comments

    @staticmethod
    def remove_lines(file_path, lines_to_remove, output_file=None, data_specifier=None, number_columns=True):

        frames, specifiers, comments = Starfile.read(file_path)

        if data_specifier is None:
            spec_id = 0
        else:
            spec_id = Starfile.get_specifier_id(specifiers, data_specifier)
            if spec_id is None:
                warnings.warn(f"The data specifier {data_specifier} was not found in the file. No lines were removed.")
                return

        # Convert row numbers to index labels
        rows_to_remove_labels = frames[spec_id].index[lines_to_remove]
        frames[spec_id] = frames[spec_id].drop(rows_to_remove_labels)
        frames[spec_id].reset_index(drop=True, inplace=True)

        if output_file is not None:
            Starfile.write(frames, output_file, specifiers=specifiers, comments=comments, number_columns=number_columns)
        else:
            return frames, specifiers, comments

    @staticmethod
    def read(file_path, data_id=None):
        """This function parses a starfile into a tuple of a list of Pandas DataFrame, a list of Data Specifier, and a list of
        comments.

        It tokenizes the file and if it finds a specifier, it starts parsing in the following order:
            1. Specifier
            2. Columns      (as column names)
            3. Rows         (as a Pandas Dataframe together with the Columns)

        Parameters
        ----------
        raw_starfile :
            the starfile to be parsed
        file_path :


        Returns
        -------
        type
            a tuples of a list of Pandas DataFrames, list of specifiers, and list of comments

        """

        with open(file_path, mode="r") as file:
            raw_starfile = file.read()

        tokens = Token.tokenize(raw_starfile)
        frames = []
        comments = []
        specifiers = []
        while Token.lookahead(tokens, TokenType.LITERAL, [TokenType.NEWLINE, TokenType.COMMENT]):
            specifier_comments, specifier = Token.parse_specifier(tokens)
            column_comments, columns = Token.parse_columns(tokens)
            rows_comments, data = Token.parse_rows(tokens, columns)
            comments.append(specifier_comments + column_comments + rows_comments)
            specifiers.append(specifier)
            frames.append(data)
        Token.parse_newline_or_comments(tokens)
        if len(tokens) > 0:
            raise IOError(f"Expected a specifier or an end of token but got {tokens[0].token_type}")

        def to_numeric_if_possible(column):
            try:
                return pd.to_numeric(column)
            except (ValueError, TypeError):
                return column

        for i, f in enumerate(frames):
            frames[i] = f.apply(to_numeric_if_possible)

        if data_id is not None:
            return frames[data_id], specifiers[data_id], comments[data_id]
        else:
            return frames, specifiers, comments

    @staticmethod
    def get_specifier_id(speficiers, specifier_id):
        if specifier_id in speficiers:
            return speficiers.index(specifier_id)
        else:
            return None

    @staticmethod
    def get_frame_and_comments(file_path, specifier):
        frames, specifiers, comments = Starfile.read(file_path)

        spec_id = Starfile.get_specifier_id(specifiers, specifier)

        if spec_id is None:
            raise ValueError(f"There is no entry with specifier {specifier}.")

        return frames[spec_id], comments[spec_id]

    @staticmethod
    def write(frames, path, specifiers=None, comments=None, number_columns=True, float_precision=6):
        if specifiers is None:
            specifiers = ["data"] * len(frames)
        if comments is None:
            comments = (None,) * len(frames)

        if len(frames) != len(specifiers) or len(frames) != len(comments) or len(specifiers) != len(comments):
            raise ValueError(
                f"Invalid size of the lists found. "
                f"The sizes are (frames: {len(frames)}), "
                f"(specifiers: {len(specifiers)}), "
                f"and (comments: {len(comments)})."
            )

        for i, f in enumerate(frames):
            frames[i] = f.round(float_precision)

        with open(path, "w") as file:

            def write_with_number(name, number):
                file.write(f"_{name} #{number}\n")

            def write_without_number(name, _):
                file.write(f"_{name}\n")

            def format_value(value):
                return "{:<10}".format(str(value))

            for frame, specifier, comment in zip(frames, specifiers, comments):
                # DataFrame.applymap was renamed to DataFrame.map in pandas 2.1 and removed in pandas 3
                frame = frame.map(format_value) if hasattr(frame, "map") else frame.applymap(format_value)
                stopgap = "stopgap" in specifier
                write_function = write_without_number if not number_columns or stopgap else write_with_number
                if comment is not None:
                    for c in comment:
                        file.write(f"\n# {c}")
                    file.write("\n")
                file.write(f"\n{specifier}\n\n")
                file.write("loop_\n")
                for index, column in enumerate(frame.columns, 1):
                    write_function(column, index)
                if stopgap:
                    file.write("\n")

                for row in frame.itertuples(index=False):
                    file.write("\t".join(map(str, row)) + "\n")
                # formatted_row = "\t".join("{:<10}".format(str(value)) for value in row)
                # file.write(formatted_row + "\n")
                file.write("\n")
'''

# --------------------------------------------------------------------------------------------------------------
# the original module, executed from the text above, to compare the (possibly patched) functions with
# --------------------------------------------------------------------------------------------------------------
orig = types.ModuleType("orig_starfileio")
exec(compile(ORIG_SRC, "orig_starfileio", "exec"), orig.__dict__)

CHECKS = {"n": 0}


def ok(cond, msg):
    CHECKS["n"] += 1
    if not cond:
        print("FAIL:", msg)
        sys.exit(1)


# --------------------------------------------------------------------------------------------------------------
# independent, line based reading of a STAR text (str.split instead of the character state machine)
# --------------------------------------------------------------------------------------------------------------
NUMERIC = re.compile(r"^[+-]?(\d+\.?\d*|\.\d+)([eE][+-]?\d+)?$")


def indep_parse(text):
    """-> list of (specifier, labels, label_comments, rows) ; rows are lists of tokens"""
    text = text.replace("\r\n", "\n")
    blocks = []
    state = "spec"
    cur_block = None
    for line in text.split("\n"):
        body, _, comment = line.partition("#")
        words = body.split()
        if state == "spec":
            if not words:
                continue
            assert len(words) == 1, line
            cur_block = [words[0], [], [], []]
            blocks.append(cur_block)
            state = "loop"
        elif state == "loop":
            if not words:
                continue
            assert words == ["loop_"], line
            state = "labels"
        elif state == "labels":
            if len(words) == 1 and words[0].startswith("_"):
                cur_block[1].append(words[0][1:])
                cur_block[2].append(comment.strip() if "#" in line else None)
            elif not words:
                state = "prerows"
            else:
                cur_block[3].append(words)
                state = "rows"
        elif state == "prerows":
            if not words:
                continue
            cur_block[3].append(words)
            state = "rows"
        elif state == "rows":
            if not words:
                state = "spec"
            else:
                cur_block[3].append(words)
    return [tuple(b) for b in blocks]


def column_is_numeric(tokens):
    return len(tokens) > 0 and all(NUMERIC.match(t) for t in tokens)


def check_read_against_tokens(read_result, blocks, what):
    """Starfile.read output == what the independent tokenizer found"""
    frames, specifiers, comments = read_result
    ok(isinstance(frames, list) and isinstance(specifiers, list), f"{what}: list results")
    ok(specifiers == [b[0] for b in blocks], f"{what}: block names {specifiers} vs {[b[0] for b in blocks]}")
    ok(len(frames) == len(blocks) == len(comments), f"{what}: number of blocks")
    for frame, (spec, labels, _, rows) in zip(frames, blocks):
        ok(list(frame.columns) == labels, f"{what}/{spec}: labels {list(frame.columns)} vs {labels}")
        ok(len(frame) == len(rows), f"{what}/{spec}: {len(frame)} rows read, {len(rows)} in the text")
        ok(list(frame.index) == list(range(len(rows))), f"{what}/{spec}: row index")
        for j, label in enumerate(labels):
            tokens = [r[j] for r in rows]
            ok(all(len(r) == len(labels) for r in rows), f"{what}/{spec}: tokenizer row width")
            col = frame.iloc[:, j]
            if not tokens:
                continue
            if column_is_numeric(tokens):
                ok(pd.api.types.is_numeric_dtype(col.dtype) and not pd.api.types.is_bool_dtype(col.dtype),
                   f"{what}/{spec}/{label}: numeric column read as {col.dtype}")
                want = np.array([float(t) for t in tokens])
                got = col.to_numpy().astype(float)
                ok(np.allclose(got, want, rtol=1e-14, atol=0), f"{what}/{spec}/{label}: values {got} vs {want}")
                if all(re.match(r"^[+-]?\d+$", t) for t in tokens):
                    ok(pd.api.types.is_integer_dtype(col.dtype), f"{what}/{spec}/{label}: integer tokens read as {col.dtype}")
                    ok([int(v) for v in col] == [int(t) for t in tokens], f"{what}/{spec}/{label}: integer values")
            else:
                ok(not pd.api.types.is_numeric_dtype(col.dtype), f"{what}/{spec}/{label}: text column read as {col.dtype}")
                ok(all(isinstance(v, str) for v in col), f"{what}/{spec}/{label}: text cells are str")
                ok(list(col) == tokens, f"{what}/{spec}/{label}: text {list(col)[:5]} vs {tokens[:5]}")


# --------------------------------------------------------------------------------------------------------------
# comparison of two read results / two frames bit by bit
# --------------------------------------------------------------------------------------------------------------
def same_frame(a, b):
    if type(a) is not type(b) or list(a.columns) != list(b.columns) or a.shape != b.shape:
        return False
    if list(a.dtypes.astype(str)) != list(b.dtypes.astype(str)):
        return False
    if not a.index.equals(b.index) or type(a.index) is not type(b.index):
        return False
    for j in range(a.shape[1]):
        x, y = a.iloc[:, j], b.iloc[:, j]
        if pd.api.types.is_float_dtype(x.dtype):
            if x.to_numpy().tobytes() != y.to_numpy().tobytes():
                return False
        elif [(type(v), v) for v in x] != [(type(v), v) for v in y]:
            return False
    return True


def same_read(r1, r2):
    f1, s1, c1 = r1
    f2, s2, c2 = r2
    if isinstance(f1, pd.DataFrame) or isinstance(f2, pd.DataFrame):
        return same_frame(f1, f2) and s1 == s2 and c1 == c2
    return len(f1) == len(f2) and all(same_frame(a, b) for a, b in zip(f1, f2)) and s1 == s2 and c1 == c2


def call(fn, *args, **kwargs):
    """('ok', result) or ('exc', type name) - to compare behaviour outside the happy path as well"""
    try:
        return ("ok", fn(*args, **kwargs))
    except Exception as e:  # noqa
        return ("exc", type(e).__name__)


# --------------------------------------------------------------------------------------------------------------
# random tables inside the quantifier
# --------------------------------------------------------------------------------------------------------------
LETTERS = "abcdefghijklmnopqrstuvwxyzABCDEFGHIJKLMNOPQRSTUVWXYZ"
TEXTCHARS = LETTERS + "0123456789" + "/._-:@+*[]()=,;!%&$~^|<>?'\"\\"
NUMLIKE = ["12", "1.50", "1e5", "007", "-3", "+4.", ".5", "0", "-0.0", "1E-3"]


def rand_label(rng, used):
    while True:
        n = int(rng.integers(1, 14))
        name = rng.choice(["rln", "", "tomo_", "subtomo_", "x"]) + "".join(rng.choice(list(LETTERS + "0123456789_"), n))
        if name not in used:
            used.add(name)
            return name


def rand_text_token(rng):
    first = str(rng.choice(list(LETTERS)))
    n = int(rng.integers(0, 24))
    tail = "".join(rng.choice(list(TEXTCHARS), n))
    tok = first + tail
    if tok.lower() in ("nan", "inf", "infinity", "na", "none", "null", "true", "false", "loop_") or tok.startswith("data_"):
        tok = "q" + tok
    return tok


def rand_column(rng, n_rows):
    kind = rng.choice(["int", "float", "text"], p=[0.3, 0.45, 0.25])
    if kind == "int":
        dt = rng.choice(["int64", "int32", "int16", "uint8", "int64"])
        info = np.iinfo(dt)
        style = rng.integers(0, 4)
        if style == 0:
            v = rng.integers(max(info.min, -1000), min(info.max, 1000), n_rows)
        elif style == 1:
            v = rng.integers(info.min, info.max, n_rows, dtype=np.int64, endpoint=True)
        elif style == 2:
            v = np.zeros(n_rows, dtype=np.int64)
        else:
            v = np.arange(1, n_rows + 1) % min(int(info.max) + 1, 10**9)
        return kind, np.asarray(v).astype(dt)
    if kind == "float":
        style = rng.integers(0, 7)
        if style == 0:
            v = rng.normal(0, 1, n_rows) * 10.0 ** rng.integers(-9, 12, n_rows)
        elif style == 1:
            v = rng.uniform(-180, 180, n_rows)
        elif style == 2:
            v = np.round(rng.uniform(-5000, 5000, n_rows))  # whole numbers in a float column stay float
        elif style == 3:
            v = rng.choice([0.0, -0.0, 5e-7, -5e-7, 1.5e-6, 2.5e-6, 4.9999999e-7, 5.0000001e-7, 1e-7, -1e-7, 0.1234565,
                            0.1234575, 1e15, -1e15, 1e22, 1e-300, 123456.7890125, 90.0, -90.0, 180.0, 360.0, 1e-5, 1.5e-5,
                            0.1 + 0.2, 1 / 3, 2 / 3, 1e16, 123456789.123456], n_rows)
        elif style == 4:
            v = np.round(rng.uniform(-100, 100, n_rows), int(rng.integers(0, 6)))
        elif style == 5:
            v = rng.uniform(-1, 1, n_rows) * 1e-6  # around the rounding threshold
        else:
            v = rng.uniform(0, 4000, n_rows).astype(np.float32)
            return kind, v
        return kind, v.astype(float)
    # text: never purely numeric per column -> the first token of the column surely is no number
    style = rng.integers(0, 4)
    if style == 0:
        v = [rand_text_token(rng) for _ in range(n_rows)]
    elif style == 1:
        v = [f"tomo_{int(rng.integers(0, 999)):03d}/sub_{i:06d}.mrc" for i in range(n_rows)]
    elif style == 2:
        v = [rand_text_token(rng)] + [str(rng.choice(NUMLIKE)) if rng.random() < 0.6 else rand_text_token(rng) for _ in range(n_rows - 1)]
        tail = v[1:]
        rng.shuffle(tail)
        v = [v[0]] + list(tail)
        k = int(rng.integers(0, n_rows))
        v[0], v[k] = v[k], v[0]
    else:
        v = [str(rng.choice(["A", "B", "opticsGroup1", "NA", "None", "nan"]))] * n_rows
        v[int(rng.integers(0, n_rows))] = rand_text_token(rng)
    return kind, np.array(v, dtype=object)


def rand_index(rng, n_rows):
    style = rng.integers(0, 5)
    if style == 0:
        return None
    if style == 1:
        return np.arange(n_rows)[::-1] + 7
    if style == 2:
        return rng.permutation(n_rows) * 3
    if style == 3:
        return np.zeros(n_rows, dtype=int)  # duplicated labels
    return [f"r{i}" for i in range(n_rows)]


def rand_table(rng, n_rows=None, n_cols=None):
    n_rows = int(rng.choice([1, 1, 2, 3, 5, 10, 37, 200, int(rng.integers(1, 201))])) if n_rows is None else n_rows
    n_cols = int(rng.choice([1, 1, 2, 3, 8, 30, int(rng.integers(1, 31))])) if n_cols is None else n_cols
    used, data, kinds = set(), {}, []
    for _ in range(n_cols):
        label = rand_label(rng, used)
        if n_rows == 0:
            kinds.append("empty")
            data[label] = np.array([], dtype=rng.choice(["float64", "int64", "object"]))
            continue
        kind, values = rand_column(rng, n_rows)
        if kind == "text" and rng.random() < 0.5:
            values = pd.array(list(values), dtype="str")
        kinds.append(kind)
        data[label] = values
    df = pd.DataFrame(data)
    if n_rows > 0:
        idx = rand_index(rng, n_rows)
        if idx is not None:
            df.index = idx
    return df, kinds


SPECS = ["data_", "data_particles", "data_optics", "data_stopgap_motivelist", "data_stopgap_wedgelist", "data_stopgap_x"]


def rand_case(rng):
    n_blocks = int(rng.choice([1, 1, 2, 3, 4]))
    frames, kinds, specs = [], [], []
    for b in range(n_blocks):
        empty = b == n_blocks - 1 and rng.random() < 0.2
        df, k = rand_table(rng, n_rows=0 if empty else None)
        frames.append(df)
        kinds.append(k)
        specs.append(str(rng.choice(SPECS)))
    if rng.random() < 0.4:
        comments = [None if rng.random() < 0.5 else [f"version {int(rng.integers(0, 99))}", "written by demo"][: int(rng.integers(0, 3))]
                    for _ in range(n_blocks)]
    else:
        comments = None
    return frames, kinds, specs, comments, bool(rng.random() < 0.5)


def check_text_of_written_file(text, frames, kinds, specs, number_columns, what):
    """the text of the file, read with the independent tokenizer, has the blocks / labels / rows of the tables"""
    blocks = indep_parse(text)
    ok([b[0] for b in blocks] == specs, f"{what}: block names in the text {[b[0] for b in blocks]} vs {specs}")
    for (spec, labels, label_comments, rows), df, kind in zip(blocks, frames, kinds):
        ok(labels == [str(c) for c in df.columns], f"{what}/{spec}: labels in the text")
        if number_columns and "stopgap" not in spec:
            ok(label_comments == [str(i) for i in range(1, len(labels) + 1)], f"{what}/{spec}: numbered labels {label_comments}")
        else:
            ok(label_comments == [None] * len(labels), f"{what}/{spec}: un-numbered labels {label_comments}")
        ok(len(rows) == len(df), f"{what}/{spec}: {len(rows)} row lines for {len(df)} rows")
        for j, k in enumerate(kind):
            want = df.iloc[:, j].to_numpy()
            for i, r in enumerate(rows):
                ok(len(r) == len(labels), f"{what}/{spec}: row {i} has {len(r)} tokens")
                if k == "text":
                    ok(r[j] == want[i], f"{what}/{spec}: text cell {r[j]!r} vs {want[i]!r}")
                elif k == "int":
                    ok(re.match(r"^-?\d+$", r[j]) and int(r[j]) == int(want[i]), f"{what}/{spec}: int cell {r[j]!r} vs {want[i]!r}")
                else:
                    w = float(want[i])
                    ok(abs(float(r[j]) - w) <= 0.5e-6 * (1 + 1e-6) + 1e-6 * abs(w) * (want.dtype == np.float32) + 1e-15 * abs(w),
                       f"{what}/{spec}: float cell {r[j]!r} vs {want[i]!r}")
    return blocks


def check_roundtrip(read_result, frames, kinds, specs, what):
    got_frames, got_specs, _ = read_result
    ok(got_specs == specs, f"{what}: block names read back {got_specs} vs {specs}")
    ok(len(got_frames) == len(frames), f"{what}: number of blocks read back")
    for g, df, kind, spec in zip(got_frames, frames, kinds, specs):
        ok(list(g.columns) == [str(c) for c in df.columns], f"{what}/{spec}: column names read back")
        ok(len(g) == len(df), f"{what}/{spec}: {len(g)} rows read back, {len(df)} written")
        for j, k in enumerate(kind):
            got, want = g.iloc[:, j], df.iloc[:, j].to_numpy()
            if k == "empty":
                continue
            if k == "text":
                ok(all(isinstance(v, str) for v in got) and list(got) == list(want), f"{what}/{spec}: text column {j} read back")
            elif k == "int":
                ok(pd.api.types.is_integer_dtype(got.dtype), f"{what}/{spec}: int column {j} read back as {got.dtype}")
                ok([int(v) for v in got] == [int(v) for v in want], f"{what}/{spec}: int column {j} values")
            else:
                ok(pd.api.types.is_float_dtype(got.dtype), f"{what}/{spec}: float column {j} read back as {got.dtype}")
                w = want.astype(float)
                tol = 0.5e-6 * (1 + 1e-6) + 1e-15 * np.abs(w) + (1e-6 * np.abs(w) if want.dtype == np.float32 else 0)
                ok(bool(np.all(np.abs(got.to_numpy() - w) <= tol)), f"{what}/{spec}: float column {j} values")
                r = np.round(w, 6)
                if want.dtype != np.float32:
                    ok(bool(np.allclose(got.to_numpy(), r, rtol=1e-15, atol=0)), f"{what}/{spec}: float column {j} == round(6)")


# --------------------------------------------------------------------------------------------------------------
# hand-built STAR texts
# --------------------------------------------------------------------------------------------------------------
def rand_sep(rng):
    return "".join(rng.choice([" ", "\t"], int(rng.integers(1, 6))))


def rand_blank_or_comment_lines(rng, n_min, n_max, allow_comment=True):
    out = []
    for _ in range(int(rng.integers(n_min, n_max + 1))):
        c = rng.integers(0, 5)
        if c == 0 or not allow_comment and c in (3, 4):
            out.append("")
        elif c == 1:
            out.append("   ")
        elif c == 2:
            out.append("\t \t")
        elif c == 3:
            out.append("# " + str(rng.choice(["version 30001", "a comment with _labels and data_x and loop_ inside", "", "## x # y"])))
        else:
            out.append("  \t#indented comment 1 2 3")
    return out


def rand_star_text(rng):
    n_blocks = int(rng.choice([1, 1, 2, 3, 4]))
    lines = []
    expected = []
    for b in range(n_blocks):
        lines += rand_blank_or_comment_lines(rng, 0, 3)
        spec = str(rng.choice(SPECS + ["data_general", "data"]))
        lines.append(rng.choice(["", " ", "\t"]) + spec + rng.choice(["", "  ", "\t"]))
        lines += rand_blank_or_comment_lines(rng, 0, 2, allow_comment=False)
        lines.append(rng.choice(["", " "]) + "loop_" + rng.choice(["", " ", "\t\t"]))
        n_cols = int(rng.choice([1, 2, 3, 7, 30]))
        empty = b == n_blocks - 1 and rng.random() < 0.25
        n_rows = 0 if empty else int(rng.choice([1, 1, 2, 5, 40]))
        used, labels = set(), []
        numbered = rng.integers(0, 3)
        for j in range(n_cols):
            label = rand_label(rng, used)
            labels.append(label)
            tail = ["", " #%d" % (j + 1), "#%d" % (j + 1), "\t#  %d  " % (j + 1), "   "][int(rng.integers(0, 5)) if numbered else int(rng.choice([0, 4]))]
            lines.append(rng.choice(["", " "]) + "_" + label + tail)
        cols = []
        for j in range(n_cols):
            kind = rng.choice(["int", "float", "mixednum", "text", "textnum"])
            if kind == "int":
                cols.append([str(rng.choice(["", "-", "+"])) + str(int(rng.integers(0, 10**int(rng.integers(1, 10))))) for _ in range(n_rows)])
            elif kind == "float":
                cols.append([repr(float(np.round(rng.normal(0, 100), int(rng.integers(0, 8))))) for _ in range(n_rows)])
            elif kind == "mixednum":
                cols.append([str(rng.choice(NUMLIKE + ["3.141593", "-1.5e-05", "2E+3", "10", "000"])) for _ in range(n_rows)])
            elif kind == "text":
                cols.append([rand_text_token(rng) for _ in range(n_rows)])
            else:
                c = [str(rng.choice(NUMLIKE)) for _ in range(n_rows)]
                if n_rows:
                    c[int(rng.integers(0, n_rows))] = rand_text_token(rng)
                cols.append(c)
        rows = [[cols[j][i] for j in range(n_cols)] for i in range(n_rows)]
        if n_rows:
            lines += rand_blank_or_comment_lines(rng, 0, 3)  # after the labels
        for r in rows:
            line = rng.choice(["", "", " ", "\t"])
            for j, t in enumerate(r):
                line += t + (rand_sep(rng) if j < n_cols - 1 else rng.choice(["", "", "  ", "\t", " \t "]))
            lines.append(line)
        expected.append((spec, labels, rows))
        if b < n_blocks - 1:
            lines += rand_blank_or_comment_lines(rng, 1, 3)  # blocks are separated by at least one such line
    trailing = rand_blank_or_comment_lines(rng, 0, 2)
    lines += trailing
    eol = str(rng.choice(["\n", "\r\n"]))
    text = eol.join(lines)
    if rng.random() < 0.6:
        text += eol
    return text, expected


FIXED_TEXTS = [
    # RELION 3.1 style, two blocks, numbered labels
    "\n# version 30001\n\ndata_optics\n\nloop_\n_rlnOpticsGroup #1\n_rlnOpticsGroupName #2\n_rlnVoltage #3\n"
    "1 opticsGroup1 300.000000\n\n\n# version 30001\n\ndata_particles\n\nloop_\n_rlnCoordinateX #1\n_rlnImageName #2\n"
    "_rlnOpticsGroup #3\n  10.5\t000001@a/b.mrcs   1\n -3.25\t000002@a/b.mrcs   1\n",
    # STOPGAP style: un-numbered labels, blank line after the labels, no final newline
    "\ndata_stopgap_motivelist\n\nloop_\n_motl_idx\n_tomo_num\n_halfset\n\n1\t7\tA\n2\t7\tB",
    # empty last block without / with final newline (fix 6462733)
    "data_\nloop_\n_a #1\n_b #2\n1 2\n\ndata_optics\nloop_\n_c #1\n_d #2",
    "data_\nloop_\n_a #1\n_b #2\n1 2\n\ndata_optics\nloop_\n_c #1\n_d #2\n",
    "data_\r\nloop_\r\n_a\r\n",
    "data_\nloop_\n_a",
    # single cell, CRLF
    "data_\r\n\r\nloop_\r\n_x #1\r\n5\r\n",
    "data_\nloop_\n_x\nabc",
    # comment lines separate the blocks, tabs everywhere
    "#c\ndata_a\nloop_\n_x#1\n_y\t#2\n#after labels\n\n1\t\tu\n2 \t v\t\n# between\ndata_b\nloop_\n_z\n-0.0\n1e3\n",
]


# --------------------------------------------------------------------------------------------------------------
# the run
# --------------------------------------------------------------------------------------------------------------
def token_dump(tokens):
    return [(t.token_type.name, t.value, t.location) for t in tokens]


def run_all(tmp, n_random=140, n_texts=260, seed=20260928):
    rng = np.random.default_rng(seed)

    # ---- 1. hand-built texts: read == independent tokenizer ; patched == original ----
    texts = [(t, None) for t in FIXED_TEXTS] + [rand_star_text(rng) for _ in range(n_texts)]
    for n, (text, expected) in enumerate(texts):
        p = os.path.join(tmp, f"t{n}.star")
        with open(p, "wb") as fh:
            fh.write(text.encode())
        blocks = indep_parse(text)
        if expected is not None:  # the tokenizer of this demo against the generator's own bookkeeping
            ok([(b[0], b[1], b[3]) for b in blocks] == [(s, l, r) for s, l, r in expected], f"text {n}: independent tokenizer")
        res = cur.Starfile.read(p)
        check_read_against_tokens(res, blocks, f"text {n}")
        ok(same_read(res, orig.Starfile.read(p)), f"text {n}: patched read == original read")
        ok(same_read(cur.Starfile.read(p), res), f"text {n}: second read of the same file")
        ok(token_dump(cur.Token.tokenize(text)) == token_dump(orig.Token.tokenize(text)), f"text {n}: tokenize == original")
        for d in range(-1, len(blocks)):
            a, b = call(cur.Starfile.read, p, data_id=d), call(orig.Starfile.read, p, data_id=d)
            ok(a[0] == b[0] == "ok" and same_read(a[1], b[1]), f"text {n}: read(data_id={d}) == original")
        sf = cur.Starfile(p)
        ok(same_read((sf.frames, sf.specifiers, sf.comments), res), f"text {n}: Starfile(path)")

    # ---- 2. tables: write -> text -> read ; patched == original ----
    for n in range(n_random):
        frames, kinds, specs, comments, number_columns = rand_case(rng)
        if n == 0:  # one block, one row, one column of each kind
            frames, kinds, specs = [pd.DataFrame({"rlnA": [1], "rlnB": [0.5], "rlnC": ["x"]}, index=[5])], [["int", "float", "text"]], ["data_"]
            comments = None
        keep = [f.copy(deep=True) for f in frames]
        kw = dict(specifiers=specs, number_columns=number_columns)
        if comments is not None:
            kw["comments"] = comments
        if n % 7 == 3:  # the default block name
            specs = ["data"] * len(frames)
            kw.pop("specifiers")
        l_cur, l_orig = list(frames), list(frames)
        p_cur, p_orig = os.path.join(tmp, f"w{n}_cur.star"), os.path.join(tmp, f"w{n}_orig.star")
        r1 = cur.Starfile.write(l_cur, p_cur, **kw)
        r2 = orig.Starfile.write(l_orig, p_orig, **kw)
        ok(r1 is None and r2 is None, f"case {n}: write returns None")
        t_cur, t_orig = open(p_cur, "rb").read(), open(p_orig, "rb").read()
        ok(t_cur == t_orig, f"case {n}: patched write gives the same bytes as the original write")
        ok(all(same_frame(a, b) for a, b in zip(frames, keep)), f"case {n}: the caller's tables are left as they were")
        ok(len(l_cur) == len(l_orig) and all(same_frame(a, b) for a, b in zip(l_cur, l_orig)), f"case {n}: caller's list after write == original")
        ok(kw.get("specifiers", specs) == specs, f"case {n}: specifiers list untouched")
        text = t_cur.decode()
        check_text_of_written_file(text, frames, kinds, specs, number_columns, f"case {n}")
        res = cur.Starfile.read(p_cur)
        check_roundtrip(res, frames, kinds, specs, f"case {n}")
        check_read_against_tokens(res, indep_parse(text), f"case {n} (text)")
        ok(same_read(res, orig.Starfile.read(p_cur)), f"case {n}: patched read == original read")
        if comments is not None:
            ok([c[: len(w or [])] for c, w in zip(res[2], comments)] == [list(w or []) for w in comments], f"case {n}: comments read back")
        # repeated calls on the same objects: the list now holds the rounded tables; write again, and write what was read
        p_again = os.path.join(tmp, f"w{n}_again.star")
        cur.Starfile.write(l_cur, p_again, **kw)
        ok(open(p_again, "rb").read() == t_cur, f"case {n}: second write of the same list gives the same text")
        p_rt = os.path.join(tmp, f"w{n}_rt.star")
        cur.Starfile.write(list(res[0]), p_rt, specifiers=res[1], comments=res[2], number_columns=number_columns)
        res2 = cur.Starfile.read(p_rt)
        ok(res2[1] == res[1] and all(list(a.dtypes.astype(str)) == list(b.dtypes.astype(str)) for a, b in zip(res[0], res2[0])),
           f"case {n}: second generation has the same names and column types")
        check_roundtrip(res2, frames, kinds, specs, f"case {n} (second generation)")

    # ---- 3. the queue helpers the reader rests on ----
    for text in ["", "data_", "data_\nloop_\n_a #1\n1", "# c\n\n", "_x", "loop_", "a b\tc #d"]:
        for tt in orig.TokenType:
            for fn in ("check", "check_then_consume", "consume"):
                q1, q2 = cur.Token.tokenize(text), orig.Token.tokenize(text)
                for _ in range(len(q1) + 2):
                    a = call(getattr(cur.Token, fn), q1, cur.TokenType[tt.name])
                    b = call(getattr(orig.Token, fn), q2, tt)
                    a = (a[0], token_dump([a[1]])[0]) if a[0] == "ok" and isinstance(a[1], cur.Token) else a
                    b = (b[0], token_dump([b[1]])[0]) if b[0] == "ok" and isinstance(b[1], orig.Token) else b
                    ok(a == b and type(a[1]) is type(b[1]), f"Token.{fn}({text!r}, {tt.name}): {a} vs {b}")
                    ok(token_dump(q1) == token_dump(q2), f"Token.{fn}: queues after the call")
                    if q1 and not (a[0] == "ok" and isinstance(a[1], tuple)):
                        q1.pop(), q2.pop()
        for targ in orig.TokenType:
            q1, q2 = cur.Token.tokenize(text), orig.Token.tokenize(text)
            ok(cur.Token.lookahead(q1, cur.TokenType[targ.name], [cur.TokenType.NEWLINE, cur.TokenType.COMMENT])
               == orig.Token.lookahead(q2, targ, [orig.TokenType.NEWLINE, orig.TokenType.COMMENT]), "lookahead")


def extra(tmp):
    """change c: everything once more with the diagnostics switched on (DEBUG level, a collecting handler)"""
    import logging

    records = []

    class Collect(logging.Handler):
        def emit(self, record):
            records.append(record.getMessage())  # formats the message, i.e. evaluates every argument

    lg = logging.getLogger("cryocat.starfileio")
    handler = Collect()
    old = (lg.level, lg.propagate)
    lg.addHandler(handler)
    lg.setLevel(logging.DEBUG)
    lg.propagate = False
    try:
        sub = os.path.join(tmp, "debug")
        os.mkdir(sub)
        run_all(sub, n_random=60, n_texts=100, seed=7)
    finally:
        lg.removeHandler(handler)
        lg.setLevel(old[0])
        lg.propagate = old[1]
    patched = hasattr(cur, "logger")
    print("diagnostics present:", patched, "- log records collected:", len(records))
    ok((len(records) > 0) == patched, "log records iff the diagnostics are there")
    # the random state of the caller is not used by reader / writer / diagnostics
    p = os.path.join(tmp, "rs.star")
    np.random.seed(5)
    import random
    random.seed(5)
    s0, r0 = np.random.get_state()[1].copy(), random.getstate()
    cur.Starfile.write([pd.DataFrame({"a": [1.0, 2.0], "b": ["x", "y"]})], p, specifiers=["data_"])
    cur.Starfile.read(p)
    ok(bool((np.random.get_state()[1] == s0).all()) and random.getstate() == r0, "random state untouched")
    # Token objects print without touching their fields
    for t in cur.Token.tokenize("data_\nloop_\n_a #1\n1 # c"):
        before = (t.token_type, t.value, t.location)
        ok(isinstance(repr(t), str) and isinstance(str(t), str) and (t.token_type, t.value, t.location) == before, "repr(Token)")


def main():
    with tempfile.TemporaryDirectory() as tmp:
        run_all(tmp)
        extra(tmp)
    print(CHECKS["n"], "checks")
    print("PASS")


if __name__ == "__main__":
    main()
