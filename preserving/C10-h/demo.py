import sys, os

sys.path.insert(0, os.getcwd())
import copy
import decimal
import tempfile
import warnings

warnings.filterwarnings("ignore")
import numpy as np
import pandas as pd
from scipy.spatial.transform import Rotation as R

from cryocat import cryomotl
from cryocat.cryomotl import Motl, EmMotl

COLS = list(Motl.motl_columns)
OTHER = ["score", "geom1", "tomo_id", "object_id", "subtomo_mean", "geom3", "geom4", "class"]
FAILS = []


def fail(msg):
    FAILS.append(msg)
    if len(FAILS) <= 20:
        print("FAIL:", msg)


# ----------------------------------------------------------------------------------------------------------
# independent statement of the property
# ----------------------------------------------------------------------------------------------------------
def rz(deg):
    a = np.deg2rad(deg)
    return np.array([[np.cos(a), -np.sin(a), 0.0], [np.sin(a), np.cos(a), 0.0], [0.0, 0.0, 1.0]])


def rx(deg):
    a = np.deg2rad(deg)
    return np.array([[1.0, 0.0, 0.0], [0.0, np.cos(a), -np.sin(a)], [0.0, np.sin(a), np.cos(a)]])


def zxz(phi, theta, psi):
    # extrinsic zxz(phi, theta, psi): rotate about z by phi first, then x by theta, then z by psi
    return rz(psi) @ rx(theta) @ rz(phi)


def check_property(tag, in_df, n, sym, s, out, atol=1e-6):
    """in_df: table of the input Motl as it was before the call; out: returned Motl"""
    s = np.asarray(s, dtype=float)
    N = len(in_df)
    o = out.df
    if type(out) is not Motl:
        fail(f"{tag}: result is {type(out)}")
    if len(o) != N * n:
        fail(f"{tag}: {len(o)} rows, expected {N * n}")
        return
    if list(o.index) != list(range(N * n)):
        fail(f"{tag}: index is not 0..N*n-1")
    if sorted(o.columns) != sorted(COLS):
        fail(f"{tag}: columns changed")
    if not all(o.dtypes == np.float64):
        fail(f"{tag}: dtypes changed {set(o.dtypes)}")
    ids = o["subtomo_id"].to_numpy()
    if len(np.unique(ids)) != N * n:
        fail(f"{tag}: subtomo_id not unique")
    parents = in_df.set_index("subtomo_id", drop=False)
    # n per parent, subunit indices 1..n
    cnt = o.groupby("geom5")["geom2"].apply(lambda g: sorted(g.tolist()))
    if sorted(cnt.index.tolist()) != sorted(in_df["subtomo_id"].tolist()):
        fail(f"{tag}: geom5 does not enumerate the parents")
    for pid, g in cnt.items():
        if g != list(range(1, n + 1)):
            fail(f"{tag}: parent {pid} has subunit indices {g}")
            break
    for i in range(len(o)):
        row = o.iloc[i]
        p = parents.loc[row["geom5"]]
        k = int(row["geom2"]) - 1
        Rp = zxz(p["phi"], p["theta"], p["psi"])
        Rk = Rp @ rz(360.0 * k / n)
        Ro = zxz(row["phi"], row["theta"], row["psi"])
        if not np.allclose(Ro, Rk, atol=atol):
            fail(f"{tag}: row {i} orientation is not R*Rz(360*{k}/{n})")
            break
        centre = np.array([p["x"] + p["shift_x"], p["y"] + p["shift_y"], p["z"] + p["shift_z"]])
        pos = np.array([row["x"] + row["shift_x"], row["y"] + row["shift_y"], row["z"] + row["shift_z"]])
        scale = max(1.0, np.abs(centre).max(), np.abs(s).max())
        if not np.allclose(pos, centre + Rk @ s, atol=atol * scale, rtol=0):
            fail(f"{tag}: row {i} position {pos} != centre + R_k s {centre + Rk @ s}")
            break
        # maps back to the parent's centre
        if not np.allclose(pos - Ro @ s, centre, atol=10 * atol * scale, rtol=0):
            fail(f"{tag}: row {i} does not map back to the centre")
            break
        xyz = row[["x", "y", "z"]].to_numpy(dtype=float)
        if not np.all(xyz == np.round(xyz)):
            fail(f"{tag}: row {i} x,y,z not integer {xyz}")
            break
        sh = row[["shift_x", "shift_y", "shift_z"]].to_numpy(dtype=float)
        if not np.all(np.abs(sh) <= 0.5):
            fail(f"{tag}: row {i} |shift| > 0.5 {sh}")
            break
        # half-up: the integer part is the rounding of the complete position with ties away from zero
        for a in range(3):
            d = decimal.Decimal(float(pos[a]))
            if (abs(sh[a]) < 0.5 - 1e-9 or abs(sh[a]) == 0.5) and float(d.to_integral_value(rounding=decimal.ROUND_HALF_UP)) != xyz[a]:
                fail(f"{tag}: row {i} integer part {xyz[a]} is not round-half-up of {pos[a]}")
        for c in OTHER:
            if not (row[c] == p[c] or (np.isnan(row[c]) and np.isnan(p[c]))):
                fail(f"{tag}: row {i} field {c} differs from the parent's")
                break


# ----------------------------------------------------------------------------------------------------------
# inputs
# ----------------------------------------------------------------------------------------------------------
def random_table(rng, N, kind="plain"):
    df = pd.DataFrame(0.0, index=range(N), columns=COLS)
    df["score"] = rng.random(N)
    df["geom1"] = rng.integers(-5, 5, N).astype(float)
    df["geom2"] = rng.integers(0, 5, N).astype(float)
    df["subtomo_id"] = (rng.permutation(N) + 1 + int(rng.integers(0, 50))).astype(float)
    df["tomo_id"] = rng.integers(1, 5, N).astype(float)
    df["object_id"] = rng.integers(1, 9, N).astype(float)
    df["subtomo_mean"] = rng.normal(size=N)
    df[["x", "y", "z"]] = rng.integers(-300, 900, (N, 3)).astype(float)
    df[["shift_x", "shift_y", "shift_z"]] = rng.uniform(-3, 3, (N, 3))
    df["geom3"] = rng.normal(size=N)
    df["geom4"] = rng.normal(size=N)
    df["geom5"] = rng.integers(0, 5, N).astype(float)
    df["phi"] = rng.uniform(-180, 180, N)
    df["theta"] = rng.uniform(0, 180, N)
    df["psi"] = rng.uniform(-180, 180, N)
    df["class"] = rng.integers(1, 4, N).astype(float)
    if kind == "poles":
        df["theta"] = rng.choice([0.0, 180.0, 1e-9, 180 - 1e-9, 90.0], N)
        df["phi"] = rng.choice([0.0, 90.0, -180.0, 180.0, 45.0, 359.0], N)
    elif kind == "halves":
        # complete positions that are exact ties after the (zero) offset
        df[["shift_x", "shift_y", "shift_z"]] = rng.choice([0.5, -0.5, 1.5, -1.5, 2.5, -2.5, 0.0], (N, 3))
    elif kind == "nan_holes":
        df.loc[rng.random(N) < 0.4, "geom3"] = np.nan
        df.loc[rng.random(N) < 0.4, "score"] = np.nan
    elif kind == "zero_shift":
        df[["shift_x", "shift_y", "shift_z"]] = 0.0
    elif kind == "fractional_xyz":
        df[["x", "y", "z"]] = rng.uniform(-100, 100, (N, 3))
    return df


OFFSETS = [
    [0.0, 0.0, 0.0],
    [0.0, 0.0, 7.5],  # on the axis
    [0.0, 0.0, -3.0],  # on the axis
    [10.0, 0.0, 0.0],
    [0.0, -4.25, 2.0],
    [-3.3, 8.1, -5.7],
    [1e-12, 0.0, 1.0],
]


def make_motl(route, df, rng, tmpdir):
    """Build the input list through the different constructors / factories."""
    if route == "Motl":
        return Motl(df.copy())
    if route == "Motl_index":
        d = df.copy()
        d.index = rng.permutation(len(d)) * 3 + 11  # non-default row labels
        return Motl(d)
    if route == "EmMotl":
        d = df.copy()
        d.index = rng.permutation(len(d)) + 5
        return EmMotl(d)  # check_df_type: copy, reset index, fillna
    if route == "load_df":
        return Motl.load(df.copy())
    if route == "load_motl":
        return Motl.load(Motl(df.copy()))
    if route == "emfile":
        path = os.path.join(tmpdir, f"m_{rng.integers(1 << 30)}.em")
        EmMotl(df.copy()).write_out(path)
        return Motl.load(path)  # single precision on disk
    if route == "fill":
        m = Motl()
        m.fill({"subtomo_id": df["subtomo_id"].to_numpy()})
        m.fill(
            {
                "coord": df[["x", "y", "z"]].to_numpy(),
                "angles": df[["phi", "theta", "psi"]].to_numpy(),
                "shifts": df[["shift_x", "shift_y", "shift_z"]].to_numpy(),
            }
        )
        for c in OTHER + ["geom2", "geom5"]:
            m.fill({c: df[c].to_numpy()})
        return m
    raise ValueError(route)


ROUTES = ["Motl", "Motl_index", "EmMotl", "load_df", "load_motl", "emfile", "fill"]
KINDS = ["plain", "poles", "halves", "nan_holes", "zero_shift", "fractional_xyz"]


def sym_of(n, j):
    return [n, f"C{n}", f"c{n}"][j % 3]


def run_property(seed=0, thorough_n=range(1, 65)):
    rng = np.random.default_rng(seed)
    count = 0
    with tempfile.TemporaryDirectory() as tmpdir:
        # every n in 1..64, a small list each, rotating constructors / kinds / offsets
        for n in thorough_n:
            for j in range(3):
                N = int(rng.choice([1, 2, 3, 5]))
                kind = KINDS[(n + j) % len(KINDS)]
                route = ROUTES[(n * 3 + j) % len(ROUTES)]
                s = OFFSETS[(n + 2 * j) % len(OFFSETS)]
                if kind == "halves":
                    s = [0.0, 0.0, 0.0] if j % 2 else [0.0, 0.0, 1.0]
                df = random_table(rng, N, kind)
                m = make_motl(route, df, rng, tmpdir)
                before = m.df.copy(deep=True)
                sym = sym_of(n, j)
                out = m.split_in_asymmetric_subunits(sym, s if j % 2 else np.array(s))
                tol = 2e-3 if route == "emfile" else 1e-6
                check_property(f"n={n} {sym!r} N={N} {kind} {route} s={s}", before, n, sym, s, out, atol=tol)
                # the input list is not changed
                try:
                    pd.testing.assert_frame_equal(m.df, before, check_exact=True)
                except AssertionError:
                    fail(f"n={n} {route}: input list modified")
                # repeated call on the same object gives the same answer
                if j == 0:
                    out2 = m.split_in_asymmetric_subunits(sym, s)
                    try:
                        pd.testing.assert_frame_equal(out.df, out2.df, check_exact=True)
                    except AssertionError:
                        fail(f"n={n} {route}: repeated call differs")
                count += 1
        # larger lists (up to 100 particles), a selection of n including non-divisors of 360
        for n, N in [(7, 100), (11, 37), (13, 64), (16, 50), (1, 100), (64, 10), (3, 99), (14, 21)]:
            for kind in ("plain", "poles"):
                df = random_table(rng, N, kind)
                route = ROUTES[(n + N) % len(ROUTES)]
                if route == "emfile":
                    route = "EmMotl"
                m = make_motl(route, df, rng, tmpdir)
                before = m.df.copy(deep=True)
                s = OFFSETS[(n + N) % len(OFFSETS)]
                out = m.split_in_asymmetric_subunits(f"C{n}", s)
                check_property(f"big n={n} N={N} {kind} {route}", before, n, f"C{n}", s, out)
                count += 1
        # chained: split the result again (outputs are valid inputs: unique ids, default index)
        df = random_table(rng, 4, "plain")
        m1 = Motl(df).split_in_asymmetric_subunits(5, [2.0, 1.0, -1.0])
        before = m1.df.copy(deep=True)
        m2 = m1.split_in_asymmetric_subunits("c9", [0.0, 3.0, 0.5])
        check_property("chained 5 then 9", before, 9, "c9", [0.0, 3.0, 0.5], m2)
        count += 1
    return count


# ----------------------------------------------------------------------------------------------------------
# change a: update_coordinates -- text of the original helper, compared with the one in the tree
# ----------------------------------------------------------------------------------------------------------
def orig_update_coordinates(self):
    def round_and_recenter(row):
        new_row = row.copy()
        shifted_x = row["x"] + row["shift_x"]
        shifted_y = row["y"] + row["shift_y"]
        shifted_z = row["z"] + row["shift_z"]
        new_row["x"] = float(decimal.Decimal(shifted_x).to_integral_value(rounding=decimal.ROUND_HALF_UP))
        new_row["y"] = float(decimal.Decimal(shifted_y).to_integral_value(rounding=decimal.ROUND_HALF_UP))
        new_row["z"] = float(decimal.Decimal(shifted_z).to_integral_value(rounding=decimal.ROUND_HALF_UP))
        new_row["shift_x"] = shifted_x - new_row["x"]
        new_row["shift_y"] = shifted_y - new_row["y"]
        new_row["shift_z"] = shifted_z - new_row["z"]
        return new_row

    self.df = self.df.apply(round_and_recenter, axis=1)
    warnings.warn("The coordinates for subtomogram extraction were changed, new extraction is necessary!")


def same_frames(tag, a, b):
    try:
        pd.testing.assert_frame_equal(a, b, check_exact=True, check_dtype=True, check_index_type=True)
    except AssertionError as e:
        fail(f"{tag}: frames differ: {str(e)[:300]}")
        return
    # also the sign of zeros
    av = a.to_numpy(dtype=float)
    bv = b.to_numpy(dtype=float)
    if not np.array_equal(np.signbit(av), np.signbit(bv)):
        fail(f"{tag}: sign bits differ")


def compare_update_coordinates(seed=1):
    rng = np.random.default_rng(seed)
    special = np.array(
        [0.0, -0.0, 0.5, -0.5, 1.5, -1.5, 2.5, -2.5, 0.49999999999999994, -0.49999999999999994, 0.5000000000000001,
         1e15 + 0.5, -1e15 - 0.5, 4503599627370495.5, -4503599627370495.5, 4503599627370496.0, 9007199254740993.0,
         1e300, -1e300, 5e-324, -5e-324, 123456.5, -123456.5, 0.3, -0.3, 0.7, -0.7, 1 - 2**-53, -(1 - 2**-53)]
    )
    cases = 0
    for trial in range(60):
        N = int(rng.choice([1, 2, 3, 10, 40]))
        df = random_table(rng, N, KINDS[trial % len(KINDS)])
        if trial % 3 == 0:
            df[["x", "y", "z"]] = rng.choice(special, (N, 3))
            df[["shift_x", "shift_y", "shift_z"]] = rng.choice([0.0, -0.0, 0.5, -0.5, 0.25, 1e-17], (N, 3))
        if trial % 3 == 1:
            df[["x", "y", "z"]] = rng.integers(-50, 50, (N, 3)).astype(float)
            df[["shift_x", "shift_y", "shift_z"]] = rng.choice(special[:11], (N, 3))
        if trial % 4 == 0:
            df.index = rng.integers(0, 3, N)  # duplicated labels, as inside split_in_asymmetric_subunits
        if trial % 5 == 0:
            df = df[list(rng.permutation(COLS))]  # other column order
        if trial % 7 == 0:
            df = df.astype({"subtomo_id": int, "tomo_id": int})  # outside the fast path
        if trial % 11 == 0:
            df = df.astype({"x": int, "y": int, "z": int})
        a, b = Motl(df.copy()), Motl(df.copy())
        held = b.df
        held_before = held.copy(deep=True)
        orig_update_coordinates(a)
        b.update_coordinates()
        same_frames(f"update_coordinates trial {trial}", a.df, b.df)
        same_frames(f"update_coordinates trial {trial}: caller's frame", held, held_before)
        # second application (idempotent up to the arithmetic; still the same in both versions)
        orig_update_coordinates(a)
        b.update_coordinates()
        same_frames(f"update_coordinates trial {trial} twice", a.df, b.df)
        cases += 1
    # non-finite values (outside the property, still the same)
    df = random_table(rng, 6, "plain")
    df.loc[0, "x"] = np.nan
    df.loc[1, "shift_y"] = np.nan
    df.loc[2, "z"] = np.inf
    df.loc[3, "shift_x"] = -np.inf
    a, b = Motl(df.copy()), Motl(df.copy())
    orig_update_coordinates(a)
    b.update_coordinates()
    same_frames("update_coordinates non-finite", a.df, b.df)
    # empty list
    a, b = Motl(), Motl()
    orig_update_coordinates(a)
    b.update_coordinates()
    same_frames("update_coordinates empty", a.df, b.df)
    # whole pipeline with the original helper swapped in
    new = Motl.update_coordinates
    for trial in range(40):
        n = int(rng.integers(1, 65))
        df = random_table(rng, int(rng.integers(1, 12)), KINDS[trial % len(KINDS)])
        s = OFFSETS[trial % len(OFFSETS)]
        r_new = Motl(df.copy()).split_in_asymmetric_subunits(n, s)
        Motl.update_coordinates = orig_update_coordinates
        try:
            r_old = Motl(df.copy()).split_in_asymmetric_subunits(n, s)
        finally:
            Motl.update_coordinates = new
        same_frames(f"split with original update_coordinates, n={n}", r_old.df, r_new.df)
        cases += 1
    return cases


if __name__ == "__main__":
    c1 = run_property()
    c2 = compare_update_coordinates()
    if FAILS:
        print(f"{len(FAILS)} failures")
        sys.exit(1)
    print(f"PASS ({c1} property cases, {c2} helper comparisons)")
