"""C19 / change a -- trace_chains partitions the particles into simple, distance-respecting chains.

Run as:  cd /tmp/wt11/C19 && /venv/bin/python /tmp/seedsV/C19/a/demo.py

What is checked, for many paired entry / exit lists (2..60 particles, 1..3 tomograms, dense clusters, several
max_distance / min_distance, repeated calls on the same objects, tracing summary switched off AND on):
  1. the property itself against an independent computation (plain numpy on the input tables),
  2. the result of cryocat.ribana.trace_chains equals, bit for bit, the result of the ORIGINAL functions
     (text kept below, executed in a namespace of their own),
  3. the caller's entry / exit motls are left untouched, the numpy error state and the global random state too.
Prints PASS and exits 0 when everything holds.
"""
import os
import sys

sys.path.insert(0, os.getcwd())

import copy
import logging
import warnings

import numpy as np
import pandas as pd

warnings.filterwarnings("ignore")

from cryocat import cryomotl  # noqa: E402
from cryocat import ribana  # noqa: E402

# --------------------------------------------------------------------------------------------------------------
# the original functions (cryocat/ribana.py at HEAD d4d8304), verbatim
# --------------------------------------------------------------------------------------------------------------
ORIGINAL = r'''
def get_nn_dist(kdt, query_point, dist_max, dist_min, active_points, test_value):
    id_max, dist = kdt.query_radius(query_point, dist_max, return_distance=True, sort_results=True)
    # id_max, dist = [a[0] for a in kdt.query_radius(query_point, dist_max, return_distance=True, sort_results=True)]
    id_max = id_max[0]
    dist = dist[0]
    if id_max.size == 0:
        return -1, []

    rp_idx = id_max[active_points[id_max] == test_value]
    rp_dist = dist[active_points[id_max] == test_value]

    if rp_idx.size == 0:
        return -1, []
    elif dist_min > 0:
        rp_idx = rp_idx[rp_dist > dist_min]
        rp_dist = rp_dist[rp_dist > dist_min]

    if rp_idx.size == 0:
        return -1, []
    else:
        return rp_idx[0], rp_dist[0]


def add_chain_suffix(
    chain_df,
    motl,
    traced_df,
    subtomo_id,
    current_dist,
    store_idx1="object_id",
    store_idx2="geom2",
    store_dist="geom4",
):
    particle_id = motl.df.loc[motl.df.index[subtomo_id], "subtomo_id"]

    temp_cl_id, order_id, previous_dist = traced_df.loc[
        traced_df["subtomo_id"] == particle_id, [store_idx1, store_idx2, store_dist]
    ].values[0]
    chain_max_order = np.max(traced_df.loc[traced_df[store_idx1] == temp_cl_id, [store_idx2]].values)

    if chain_max_order != order_id:  # the closest particle is not the last one
        if previous_dist <= current_dist:  # the original chain holds, do nothing
            return False
        else:  # the new chain is better, cut of the tail of the existing one
            current_class = chain_df[store_idx1].values[0]
            traced_df.loc[
                (traced_df[store_idx1] == temp_cl_id) & (traced_df[store_idx2] > order_id),
                store_idx1,
            ] = current_class
            # the tail keeps its order: the order numbers order_id + 1, order_id + 2, ... become 1, 2, ...
            traced_df.loc[(traced_df[store_idx1] == current_class), store_idx2] -= order_id
            chain_max_order = np.max(
                traced_df.loc[traced_df[store_idx1] == temp_cl_id, [store_idx2]].values
            )  # max changed in the meantime so has to be fetched again

    traced_df.loc[traced_df["subtomo_id"] == particle_id, store_dist] = (
        current_dist  # add distance to the last traced element from the chain (should be 0 before)
    )
    chain_df[store_idx1] = temp_cl_id
    chain_df[store_idx2] += chain_max_order

    return True  # chain was changed


def add_chain_prefix(
    chain_df,
    motl,
    traced_df,
    subtomo_id,
    current_dist,
    store_idx1="object_id",
    store_idx2="geom2",
    store_dist="geom4",
    class_max=None,
):
    # finding out class of the chain that should be appended to the current chain
    particle_id = motl.df.loc[motl.df.index[subtomo_id], "subtomo_id"]
    class_to_change = traced_df.loc[traced_df["subtomo_id"] == particle_id, store_idx1].values[0]

    order_id = traced_df.loc[traced_df["subtomo_id"] == particle_id, store_idx2].values[0]

    current_class = chain_df[store_idx1].values[0]
    cut_off_size = 0

    if order_id != 1:  # the closest particle is NOT the first one in the chain!
        # take the previous particle distance
        previous_dist = traced_df.loc[
            (traced_df[store_idx1] == class_to_change) & (traced_df[store_idx2] == order_id - 1),
            store_dist,
        ].values[0]

        if previous_dist <= current_dist:  # original particle closer -> do not append
            return -1
        else:  # the new particle is closer - change the class/object_id to the one from the current particle
            cut_off_size = traced_df.loc[
                (traced_df[store_idx1] == class_to_change) & (traced_df[store_idx2] < order_id)
            ].shape[0]
            if (
                class_max is None
            ):  # Only appending, the chain object_id value is not used and can be assing to the cut chain
                traced_df.loc[
                    (traced_df[store_idx1] == class_to_change) & (traced_df[store_idx2] < order_id),
                    store_idx1,
                ] = current_class
            else:  # Connectiong from both sides, the chain object_id was changed in the previoius append and cannot be used -> the input from current is used
                traced_df.loc[
                    (traced_df[store_idx1] == class_to_change) & (traced_df[store_idx2] < order_id),
                    store_idx1,
                ] = -1  # class_max[1]

    if class_max is None:
        chain_df[store_idx1] = class_to_change
        class_max = np.max(chain_df[store_idx2].values)
        traced_df.loc[traced_df[store_idx1] == class_to_change, [store_idx2]] += class_max - cut_off_size
    else:
        temp_cl_id = chain_df[store_idx1][0]
        traced_df.loc[traced_df[store_idx1] == class_to_change, [store_idx2]] += class_max[0] - cut_off_size
        traced_df.loc[traced_df[store_idx1] == class_to_change, [store_idx1]] = temp_cl_id
        if order_id != 1:
            traced_df.loc[traced_df[store_idx1] == -1, [store_idx1]] = class_max[1]  # class_to_change

    chain_df.loc[chain_df.index[-1], store_dist] = current_dist


def trace_chains(
    motl_entry,
    motl_exit,
    max_distance,
    min_distance=0,
    feature="tomo_id",
    output_motl=None,
    store_idx1="object_id",
    store_idx2="geom2",
    store_dist="geom4",
):
    motl_entry = cryomotl.Motl.load(motl_entry)
    motl_exit = cryomotl.Motl.load(motl_exit)

    features1 = np.unique(motl_entry.df.loc[:, feature])
    features2 = np.unique(motl_exit.df.loc[:, feature])

    if ~np.all(np.equal(features1, features2)):
        ValueError("Provided motls have different features sets!!!")

    traced_motl = cryomotl.Motl.create_empty_motl_df()

    for f in features1:
        # for f in np.array([2,274,405,423]):
        # for f in np.array([423]):
        # print(f)
        fm_entry = motl_entry.get_motl_subset(f, feature, reset_index=False)
        fm_exit = motl_exit.get_motl_subset(f, feature, reset_index=False)

        nfm_df = cryomotl.Motl.create_empty_motl_df()

        fm_size = fm_entry.df.shape[0]
        remain_entry = np.full((fm_size,), True)
        remain_exit = np.full((fm_size,), True)

        class_c = 1

        coord_entry = fm_entry.get_coordinates()
        coord_exit = fm_exit.get_coordinates()

        kdt_entry = sn.KDTree(coord_entry)
        kdt_exit = sn.KDTree(coord_exit)

        for i, current_point in enumerate(coord_exit):
            if ~remain_exit[i]:
                continue
            else:
                ch_m = cryomotl.Motl.create_empty_motl_df()  # create new chain motl df
                chain_id = 1  # assign chain id
                trace_chain = True
                p_idx = i
                used_idx = []
                # print(i)
                while trace_chain:
                    # take the particle from the exit list
                    # part_process = fm_exit.df.iloc[p_idx]

                    # add the same processed particle from entry list to the chain
                    ch_m = pd.concat([ch_m, fm_entry.df.iloc[[p_idx]]], ignore_index=True)

                    ch_m.loc[ch_m.index[-1], [store_idx2]] = chain_id
                    chain_id += 1

                    # remove currently processed point from both entry and exit
                    remain_entry[p_idx] = False
                    remain_exit[p_idx] = False
                    used_idx.append(p_idx)

                    # prepare coordinates
                    p_coord = coord_exit[p_idx, None, :]

                    if np.all(remain_entry == False):  # no remaining particles, end the chain
                        # np_idx = p_idx
                        np_idx = -1
                    else:
                        # search for the nearest active point
                        np_idx, np_dist = get_nn_dist(
                            kdt_entry,
                            p_coord,
                            max_distance,
                            min_distance,
                            remain_entry,
                            True,
                        )

                    if np_idx != -1:  # continue tracing
                        p_idx = np_idx
                        ch_m.loc[ch_m.index[-1], [store_dist]] = np_dist
                    else:  # end chain
                        ch_m.loc[:, store_idx1] = class_c
                        class_c += 1

                        if nfm_df.size != 0:  # check existing chains for connections
                            first_coord = (
                                ch_m.loc[ch_m.index[0], ["x", "y", "z"]].values
                                + ch_m.loc[ch_m.index[0], ["shift_x", "shift_y", "shift_z"]].values
                            )  # entry point
                            first_coord = first_coord.reshape(1, 3)
                            remain_entry[used_idx] = True
                            remain_exit[used_idx] = True
                            # check if this chain cannot be connected to already an existing one
                            # This can happen if the chain is started "in the middle"
                            nm_idx, nm_dist = get_nn_dist(
                                kdt_entry,
                                p_coord,
                                max_distance,
                                min_distance,
                                remain_entry,
                                False,
                            )
                            first_idx, first_dist = get_nn_dist(
                                kdt_exit,
                                first_coord,
                                max_distance,
                                min_distance,
                                remain_exit,
                                False,
                            )

                            remain_entry[used_idx] = False
                            remain_exit[used_idx] = False

                            # rather rare case where a single particle wants to connect to the same particle in a chain
                            if first_idx == nm_idx and first_idx != -1 and ch_m.shape[0] == 1:
                                if first_dist <= nm_dist:
                                    nm_idx = -1  # add only suffix
                                else:
                                    first_idx = -1  # add only prefix
                            elif first_idx != -1 and nm_idx != -1:
                                part1 = fm_exit.df.loc[fm_exit.df.index[first_idx], "subtomo_id"]
                                part2 = fm_entry.df.loc[fm_entry.df.index[nm_idx], "subtomo_id"]
                                cl1 = nfm_df.loc[nfm_df["subtomo_id"] == part1, store_idx1].values[0]
                                cl2 = nfm_df.loc[nfm_df["subtomo_id"] == part2, store_idx1].values[0]
                                if cl1 == cl2:
                                    if first_dist <= nm_dist:
                                        nm_idx = -1  # add only suffix
                                    else:
                                        first_idx = -1  # add only prefix

                            ch_changed = False  # default is no chain change

                            if first_idx != -1:  # appneding the chain after an existing one
                                ch_changed = add_chain_suffix(
                                    ch_m,
                                    fm_exit,
                                    nfm_df,
                                    first_idx,
                                    first_dist,
                                    store_idx1,
                                    store_idx2,
                                )

                            if nm_idx != -1:  # connecting the chain before an existing one

                                class_max = None

                                # they connect from both sides
                                if ch_changed:
                                    current_class = class_c - 1
                                    cl_max = np.max(ch_m[store_idx2].values)
                                    if cl_max > 1:
                                        if (nfm_df[store_idx1] == current_class).any():
                                            # the number went to a tail cut off by add_chain_suffix, a cut-off head needs its own
                                            current_class = class_c
                                            class_c += 1
                                        class_max = (cl_max, current_class)

                                add_chain_prefix(
                                    ch_m,
                                    fm_entry,
                                    nfm_df,
                                    nm_idx,
                                    nm_dist,
                                    store_idx1,
                                    store_idx2,
                                    class_max=class_max,
                                )

                        nfm_df = pd.concat([nfm_df, ch_m])
                        trace_chain = False

        traced_motl = pd.concat([traced_motl, nfm_df])

    traced_motl = cryomotl.Motl(motl_df=traced_motl)

    if output_motl is not None:
        traced_motl.write_to_emfile(output_motl)

    return traced_motl
'''

_orig_ns = {"np": np, "pd": pd, "cryomotl": cryomotl, "sn": ribana.sn}
exec(compile(ORIGINAL, "<original ribana>", "exec"), _orig_ns)
orig_trace_chains = _orig_ns["trace_chains"]
orig_get_nn_dist = _orig_ns["get_nn_dist"]


# --------------------------------------------------------------------------------------------------------------
# inputs
# --------------------------------------------------------------------------------------------------------------
def make_pair(rng, n, n_tomos, box, disp, clusters=0, shifts=True, interleave=True):
    """Paired entry / exit motls: row k of the exit list is the exit site of the particle in row k of the entry list."""
    if clusters > 0:  # dense clusters that force merging, prefixing and tail cutting
        centres = rng.uniform(0, box, size=(clusters, 3))
        entry = centres[rng.integers(0, clusters, size=n)] + rng.normal(0, disp, size=(n, 3))
    else:
        entry = rng.uniform(0, box, size=(n, 3))
    vec = rng.normal(0, 1, size=(n, 3))
    vec /= np.linalg.norm(vec, axis=1)[:, None]
    exit_ = entry + vec * rng.uniform(0.3 * disp, 1.5 * disp, size=(n, 1))

    tomo = rng.integers(0, n_tomos, size=n)
    tomo[:n_tomos] = np.arange(n_tomos)  # every tomogram occurs
    tomo_ids = np.sort(rng.choice(np.arange(1, 500), size=n_tomos, replace=False))[tomo]
    if not interleave:
        order = np.argsort(tomo_ids, kind="stable")
        entry, exit_, tomo_ids = entry[order], exit_[order], tomo_ids[order]
    subtomo = rng.permutation(np.arange(1, n + 1)) + int(rng.integers(0, 1000))

    def table(coord):
        df = cryomotl.Motl.create_empty_motl_df()
        df = df.reindex(range(n)).fillna(0.0)
        if shifts:
            whole = np.round(coord)
            df[["x", "y", "z"]] = whole
            df[["shift_x", "shift_y", "shift_z"]] = coord - whole
        else:
            df[["x", "y", "z"]] = coord
        df["tomo_id"] = tomo_ids.astype(float)
        df["subtomo_id"] = subtomo.astype(float)
        df["score"] = rng.uniform(0, 1, size=n)
        df["phi"] = rng.uniform(-180, 180, size=n)
        df["theta"] = rng.uniform(0, 180, size=n)
        df["psi"] = rng.uniform(-180, 180, size=n)
        df["class"] = 1.0
        return cryomotl.Motl(motl_df=df)

    return table(entry), table(exit_)


def searched_case(seed):
    """Arrangements found by a search over seeds: they reach the rare branches of the chain bookkeeping (suffix
    after a cut-off head, tail cutting, connection from both sides with and without a cut-off head)."""
    rng = np.random.default_rng(seed)
    n = int(rng.integers(4, 31))
    n_t = int(rng.integers(1, 3))
    disp = float(rng.uniform(1.0, 6.0))
    c = dict(
        n=n,
        n_tomos=n_t,
        box=float(rng.uniform(5, 30)),
        disp=disp,
        clusters=int(rng.integers(0, 3)),
        maxd=float(rng.choice([1.0, 2.0, 3.5, 6.0]) * disp),
        mind=float(rng.choice([0, 0, 0.2 * disp, 0.7 * disp])),
        seed=seed,
    )
    m_entry, m_exit = make_pair(rng, c["n"], c["n_tomos"], c["box"], c["disp"], c["clusters"])
    return c, m_entry, m_exit


SEARCHED = (232, 250, 369, 582, 872, 2052, 2133, 2875, 4281)

# --------------------------------------------------------------------------------------------------------------
# the property, computed independently from the input tables
# --------------------------------------------------------------------------------------------------------------
def check_property(res, m_entry, m_exit, max_distance, min_distance, label):
    e = m_entry.df
    x = m_exit.df
    ids = e["subtomo_id"].to_numpy()
    pos_entry = {s: (e.loc[i, ["x", "y", "z"]].to_numpy(float) + e.loc[i, ["shift_x", "shift_y", "shift_z"]].to_numpy(float))
                 for i, s in zip(e.index, ids)}
    pos_exit = {s: (x.loc[i, ["x", "y", "z"]].to_numpy(float) + x.loc[i, ["shift_x", "shift_y", "shift_z"]].to_numpy(float))
                for i, s in zip(x.index, x["subtomo_id"].to_numpy())}
    tomo_of = dict(zip(ids, e["tomo_id"].to_numpy()))

    r = res.df
    # every particle exactly once
    got = r["subtomo_id"].to_numpy()
    assert len(got) == len(ids), f"{label}: {len(got)} rows for {len(ids)} particles"
    assert sorted(got.tolist()) == sorted(ids.tolist()), f"{label}: particles lost / duplicated"
    # chains never span tomograms: every particle keeps its tomogram, chains are looked at per tomogram
    for s, t in zip(got, r["tomo_id"].to_numpy()):
        assert tomo_of[s] == t, f"{label}: particle {s} moved to tomogram {t}"
    n_links = 0
    for (t, obj), g in r.groupby(["tomo_id", "object_id"], sort=True):
        order = g["geom2"].to_numpy()
        k = len(order)
        assert sorted(order.tolist()) == list(range(1, k + 1)), f"{label}: tomo {t} chain {obj} orders {sorted(order.tolist())}"
        g = g.iloc[np.argsort(order)]
        members = g["subtomo_id"].to_numpy()
        recorded = g["geom4"].to_numpy()
        for a in range(k - 1):
            d = float(np.linalg.norm(pos_exit[members[a]] - pos_entry[members[a + 1]]))
            assert min_distance < d <= max_distance * (1 + 1e-12), (
                f"{label}: tomo {t} chain {obj} link {a + 1}->{a + 2} distance {d} outside ({min_distance}, {max_distance}]"
            )
            assert abs(recorded[a] - d) <= 1e-9 * max(1.0, d), (
                f"{label}: tomo {t} chain {obj} link {a + 1}: recorded {recorded[a]} but distance is {d}"
            )
            n_links += 1
    return n_links


def same_frames(a, b):
    return (
        list(a.columns) == list(b.columns)
        and a.index.equals(b.index)
        and (a.dtypes == b.dtypes).all()
        and np.array_equal(a.to_numpy(), b.to_numpy(), equal_nan=True)
    )


# --------------------------------------------------------------------------------------------------------------
def main():
    rng = np.random.default_rng(190719)
    cases = []
    # edge cases
    for n in (2, 3, 4):
        for n_t in (1, 2):
            if n_t <= n:
                cases.append(dict(n=n, n_tomos=n_t, box=10.0, disp=3.0, clusters=0, maxd=8.0, mind=0))
                cases.append(dict(n=n, n_tomos=n_t, box=10.0, disp=3.0, clusters=0, maxd=0.5, mind=0))  # nothing links
                cases.append(dict(n=n, n_tomos=n_t, box=4.0, disp=3.0, clusters=1, maxd=1e6, mind=0.0))  # all link
    # random ones
    for _ in range(70):
        n = int(rng.integers(2, 61))
        n_t = int(rng.integers(1, min(3, n) + 1))
        dense = rng.random() < 0.6
        disp = float(rng.uniform(1.0, 6.0))
        cases.append(
            dict(
                n=n,
                n_tomos=n_t,
                box=float(rng.uniform(15, 60)),
                disp=disp,
                clusters=int(rng.integers(1, 4)) if dense else 0,
                maxd=float(rng.choice([0.5, 1.0, 2.0, 3.5]) * disp),
                mind=float(rng.choice([0, 0, 0.0, 0.2 * disp, 0.7 * disp, 5 * disp])),
            )
        )
    cases.append(dict(n=60, n_tomos=1, box=12.0, disp=4.0, clusters=0, maxd=7, mind=0))  # integer distances
    cases.append(dict(n=60, n_tomos=3, box=12.0, disp=4.0, clusters=2, maxd=9, mind=2))
    cases.extend(dict(seed=s) for s in SEARCHED)

    logger = logging.getLogger("cryocat.ribana")
    records = []

    class _Collect(logging.Handler):
        def emit(self, record):
            records.append(record.getMessage())

    logger.addHandler(_Collect())
    logger.propagate = False

    n_links = n_runs = n_multi = 0
    for ci, c in enumerate(cases):
        if "n" not in c:
            c, m_entry, m_exit = searched_case(c["seed"])
        else:
            m_entry, m_exit = make_pair(
                rng, c["n"], c["n_tomos"], c["box"], c["disp"], c["clusters"],
                shifts=bool(ci % 3), interleave=bool(ci % 2),
            )
        keep_entry, keep_exit = copy.deepcopy(m_entry.df), copy.deepcopy(m_exit.df)
        label = f"case {ci} {c}"

        expected = orig_trace_chains(m_entry, m_exit, c["maxd"], c["mind"])

        err_before = np.geterr()
        state_before = np.random.get_state()
        # summary off, summary on, and once more on the same objects
        for level in (logging.WARNING, logging.DEBUG, logging.DEBUG, logging.WARNING):
            logger.setLevel(level)
            if ci % 2:
                res = ribana.trace_chains(m_entry, m_exit, c["maxd"], c["mind"])
            else:
                res = ribana.trace_chains(m_entry, m_exit, max_distance=c["maxd"], min_distance=c["mind"], feature="tomo_id")
            n_runs += 1
            n_links += check_property(res, m_entry, m_exit, c["maxd"], c["mind"], label)
            assert same_frames(res.df, expected.df), f"{label}: result differs from the original function's"
            assert same_frames(m_entry.df, keep_entry), f"{label}: entry motl of the caller was changed"
            assert same_frames(m_exit.df, keep_exit), f"{label}: exit motl of the caller was changed"
        assert np.geterr() == err_before, "numpy error state changed"
        s_after = np.random.get_state()
        assert state_before[0] == s_after[0] and np.array_equal(state_before[1], s_after[1]) and state_before[2:] == s_after[2:]
        n_multi += int((expected.df.groupby(["tomo_id", "object_id"]).size() > 1).sum())

        # other storage columns are part of the signature
        if ci % 10 == 0:
            logger.setLevel(logging.DEBUG)
            r2 = ribana.trace_chains(m_entry, m_exit, c["maxd"], c["mind"], store_idx1="geom1", store_idx2="geom3", store_dist="geom5")
            e2 = orig_trace_chains(m_entry, m_exit, c["maxd"], c["mind"], store_idx1="geom1", store_idx2="geom3", store_dist="geom5")
            assert same_frames(r2.df, e2.df), f"{label}: result differs from the original (other storage columns)"

    # get_nn_dist, directly: same answer as the original, mask of the caller untouched
    for _ in range(300):
        n = int(rng.integers(1, 40))
        pts = rng.uniform(0, 10, size=(n, 3))
        kdt = ribana.sn.KDTree(pts)
        q = rng.uniform(0, 10, size=(1, 3))
        active = rng.random(n) < rng.random()
        act0 = active.copy()
        dmax = float(rng.uniform(0.1, 12))
        dmin = float(rng.choice([0, 0.0, rng.uniform(0, 6)]))
        for tv in (True, False):
            a = ribana.get_nn_dist(kdt, q, dmax, dmin, active, tv)
            b = orig_get_nn_dist(kdt, q, dmax, dmin, active, tv)
            assert type(a[1]) is type(b[1]) and a[0] == b[0] and (a[1] == b[1] if a[0] != -1 else a[1] == [] == b[1])
            assert np.array_equal(active, act0)

    print(f"{len(cases)} input pairs, {n_runs} traced runs, {n_links} links checked, {n_multi} chains longer than one, "
          f"{len(records)} summary lines seen")
    assert n_links > 500 and n_multi > 50
    print("PASS")


if __name__ == "__main__":
    main()
