"""C15 demo -- tilt-stack operations are lossless selections / permutations of the tilt images.

Run as:  cd /tmp/wt11/C15 && /venv/bin/python /tmp/seedsV/C15/<a|b>/demo.py

For many random stacks inside the quantifier (2..25 tilts, independent image sizes 4..40, float32 / int16, tilt angles
in any order without ties, any index subset, input_order x output_order in {xyz, zyx}^2, array vs. MRC file input,
output file on / off) every operation is compared with
  (1) an independent computation done with plain python loops / numpy slicing on the canonical (n, y, x) stack,
  (2) the ORIGINAL text of the function(s) touched by the patch (kept below and exec'd in the module namespace),
and the written files are re-read with mrcfile directly.  The caller's arrays / lists / files must stay untouched, and
repeated calls on the same objects must give the same answer.
"""
import sys, os

sys.path.insert(0, os.getcwd())

import contextlib, io, tempfile, hashlib, itertools, copy
import numpy as np
import mrcfile

from cryocat import tiltstack

TARGET = "sort_tilts_by_angle"  # the function changed by this patch (both originals are compared anyway)

# --------------------------------------------------------------------------------------------------------------------
# original function texts (tree at HEAD d4d8304), exec'd inside a copy of the namespace of cryocat.tiltstack
ORIG_SRC = '''
def sort_tilts_by_angle(tilt_stack, input_tilts, output_file=None, input_order="xyz", output_order="xyz"):
    print(f"Reordering of the tilt stack started...")

    ts = TiltStack(tilt_stack=tilt_stack, input_order=input_order, output_order=output_order)

    tilt_angles = ioutils.tlt_load(input_tilts, sort_angles=False)
    sorted_indices = np.argsort(tilt_angles)

    ts.data = ts.data[sorted_indices, :, :]
    ts.write_out(output_file)

    print("...reordering of the tilt stack successfully finished.\\n")

    return ts.correct_order()


def split_stack_even_odd(tilt_stack, output_file_prefix=None, input_order="xyz", output_order="xyz"):
    ts = TiltStack(tilt_stack=tilt_stack, input_order=input_order, output_order=output_order)

    even_stack = []
    odd_stack = []

    if not ts.n_tilts == 1:
        # For each tilt image in the stack
        for i in range(ts.n_tilts):

            # Split to even and odd by using modulo 2
            if i % 2 == 0:
                even_stack.append(ts.data[i, :, :])
            else:
                odd_stack.append(ts.data[i, :, :])

        even_stack = np.stack(even_stack, axis=0)
        odd_stack = np.stack(odd_stack, axis=0)

        if output_file_prefix:
            ts.write_out(output_file_prefix + "_even.mrc", new_data=even_stack)
            ts.write_out(output_file_prefix + "_odd.mrc", new_data=odd_stack)

        return ts.correct_order(even_stack), ts.correct_order(odd_stack)
    else:
        raise ValueError(f"Stack contains only 1 tilt.")
'''
_ns = dict(vars(tiltstack))
exec(compile(ORIG_SRC, "<original>", "exec"), _ns)
orig_sort = _ns["sort_tilts_by_angle"]
orig_split = _ns["split_stack_even_odd"]

# --------------------------------------------------------------------------------------------------------------------
failures = []
n_checks = 0


def check(cond, msg):
    global n_checks
    n_checks += 1
    if not cond:
        failures.append(msg)
        if len(failures) <= 20:
            print("FAIL:", msg)


def same(a, b):
    """identical arrays: shape, dtype and every value"""
    a = np.asarray(a)
    b = np.asarray(b)
    return a.shape == b.shape and a.dtype == b.dtype and np.array_equal(a, b)


def quiet(fn, *args, **kwargs):
    buf = io.StringIO()
    with contextlib.redirect_stdout(buf):
        return fn(*args, **kwargs)


def file_digest(path):
    with open(path, "rb") as f:
        return hashlib.sha256(f.read()).hexdigest()


def read_mrc(path):
    with mrcfile.open(path, permissive=True) as m:
        return np.array(m.data, copy=True)


def out_view(canon, output_order):
    """expected returned array for a canonical (n, y, x) result"""
    return canon.transpose(2, 1, 0) if output_order == "xyz" else canon


# ---- independent reference computations on the canonical (n, y, x) stack, python level --------------------------------
def ref_sort(S, angles):
    order = sorted(range(len(angles)), key=lambda i: float(angles[i]))
    return np.stack([S[i] for i in order], axis=0)


def ref_remove(S, idx0):
    gone = set(int(i) for i in idx0)
    return np.stack([S[i] for i in range(S.shape[0]) if i not in gone], axis=0)


def ref_crop(S, nw, nh):
    n, h, w = S.shape
    nw = w if nw is None else nw
    nh = h if nh is None else nh
    sw = w // 2 - nw // 2
    sh = h // 2 - nh // 2
    return S[:, sh : sh + nh, sw : sw + nw]


def ref_bin(S, b):
    n, h, w = S.shape
    H = -(-h // b)
    W = -(-w // b)
    pad = np.zeros((n, H * b, W * b), dtype=np.float64)
    pad[:, :h, :w] = S
    out = np.zeros((n, H, W), dtype=np.float64)
    for i in range(H):
        for j in range(W):
            out[:, i, j] = pad[:, i * b : (i + 1) * b, j * b : (j + 1) * b].reshape(n, -1).sum(axis=1) / (b * b)
    return out


FLIP_AXIS = {"z": 0, "x": 1, "y": 2}  # behaviour of the tree: 'x' reverses the rows (IMOD flipx), 'y' the columns


# ---- inputs ----------------------------------------------------------------------------------------------------------
def make_stack(rng, n, h, w, dtype):
    if dtype == np.float32:
        S = rng.normal(0, 50, size=(n, h, w)).astype(np.float32)
    else:
        S = rng.integers(-3000, 3000, size=(n, h, w)).astype(np.int16)
    return S


def make_angles(rng, n, kind):
    if kind == "int":
        a = rng.permutation(np.arange(-60, 61, 3))[:n].astype(np.int64)  # no ties
    else:
        a = rng.permutation(np.linspace(-66.0, 66.0, 45))[:n] + rng.uniform(-0.4, 0.4, size=n)
        a = a.astype(np.float32 if kind == "f32" else np.float64)
    assert len(set(a.tolist())) == n
    return a


class Inputs:
    """one canonical stack presented as array (both orders) and as MRC file; remembers fingerprints"""

    def __init__(self, S, tmpdir, tag):
        self.S = S
        self.S_master = S.copy()
        self.arr = {"zyx": S.copy(), "xyz": np.ascontiguousarray(S.transpose(2, 1, 0))}
        self.arr_master = {k: v.copy() for k, v in self.arr.items()}
        self.path = os.path.join(tmpdir, f"in_{tag}.mrc")
        mrcfile.write(self.path, S, overwrite=True)
        self.digest = file_digest(self.path)

    def variants(self):
        # (label, tilt_stack argument, input_order)
        yield "arr-zyx", self.arr["zyx"], "zyx"
        yield "arr-xyz", self.arr["xyz"], "xyz"
        # for a file the stack is always read n,y,x; input_order must be irrelevant
        yield "file/zyx", self.path, "zyx"
        yield "file/xyz", self.path, "xyz"

    def untouched(self):
        return (
            all(same(self.arr[k], self.arr_master[k]) for k in self.arr)
            and same(self.S, self.S_master)
            and file_digest(self.path) == self.digest
        )


def run_case(rng, tmpdir, case_no, n, h, w, dtype):
    S = make_stack(rng, n, h, w, dtype)
    inp = Inputs(S, tmpdir, case_no)
    tag = f"case {case_no} (n={n}, h={h}, w={w}, {np.dtype(dtype).name})"
    out_counter = itertools.count()

    def out_path(use):
        return os.path.join(tmpdir, f"out_{case_no}_{next(out_counter)}.mrc") if use else None

    # ------------------------------------------------------------------ sort by angle
    kind = ["f64", "f32", "int"][case_no % 3]
    angles = make_angles(rng, n, kind)
    angles_master = angles.copy()
    angles_ro = angles.copy()
    angles_ro.setflags(write=False)
    angles_list = [x for x in angles.tolist()]
    angles_list_master = list(angles_list)
    tlt_path = os.path.join(tmpdir, f"angles_{case_no}.tlt")
    with open(tlt_path, "w") as f:
        for x in angles.astype(np.float32):
            f.write(f"{float(x)!r}\n")
    tlt_digest = file_digest(tlt_path)
    exp = ref_sort(S, angles)
    # also ascending angles <=> images in ascending-angle order
    check(np.all(np.diff(np.sort(angles.astype(np.float64))) > 0), f"{tag}: test angles have ties")
    angle_inputs = [("ndarray", angles), ("readonly", angles_ro), ("list", angles_list), ("tltfile", tlt_path)]
    for (lab, tsarg, in_o), out_o, use_out in itertools.product(inp.variants(), ("xyz", "zyx"), (False, True)):
        for alab, aarg in angle_inputs if (use_out or lab.startswith("arr")) else angle_inputs[:1]:
            of = out_path(use_out)
            what = f"{tag}: sort {lab} out={out_o} file={use_out} angles={alab}"
            r = quiet(tiltstack.sort_tilts_by_angle, tsarg, aarg, output_file=of, input_order=in_o, output_order=out_o)
            check(same(r, out_view(exp, out_o)), what + " != independent reordering")
            if of:
                check(same(read_mrc(of), exp), what + ": written file differs from the result")
            of2 = out_path(use_out)
            r0 = quiet(orig_sort, tsarg, aarg, output_file=of2, input_order=in_o, output_order=out_o)
            check(same(r, r0), what + " != original function")
            if of:
                check(same(read_mrc(of), read_mrc(of2)), what + ": file != file of original function")
            # repeated call on the same objects
            r2 = quiet(tiltstack.sort_tilts_by_angle, tsarg, aarg, input_order=in_o, output_order=out_o)
            check(same(r, r2), what + ": second call differs")
            check(same(angles, angles_master), what + ": caller's tilt angles modified")
            check(same(angles_ro, angles_master), what + ": caller's read-only tilt angles modified")
            check(angles_list == angles_list_master, what + ": caller's list of tilt angles modified")
            check(file_digest(tlt_path) == tlt_digest, what + ": tlt file modified")
            check(inp.untouched(), what + ": caller's stack modified")
    # sorting the sorted stack with sorted angles is the identity; sorting with reversed order reverses
    r = quiet(tiltstack.sort_tilts_by_angle, exp, np.sort(angles), input_order="zyx", output_order="zyx")
    check(same(r, exp), f"{tag}: sort of sorted stack is not the identity")

    # ------------------------------------------------------------------ remove tilts
    k = int(rng.integers(1, n))  # 1 .. n-1 removed -> at least one image left
    idx0 = rng.permutation(n)[:k]
    if case_no % 4 == 0:
        idx0 = np.sort(idx0)
    exp = ref_remove(S, idx0)
    for from1 in (True, False):
        idx = idx0 + 1 if from1 else idx0.copy()
        idx_master = idx.copy()
        idx_list = [int(i) for i in idx]
        idx_list_master = list(idx_list)
        for (lab, tsarg, in_o), out_o, use_out in itertools.product(inp.variants(), ("xyz", "zyx"), (False, True)):
            for ilab, iarg in (("ndarray", idx), ("list", idx_list)):
                of = out_path(use_out)
                what = f"{tag}: remove {lab} out={out_o} file={use_out} from1={from1} idx={ilab}"
                r = quiet(
                    tiltstack.remove_tilts, tsarg, iarg, numbered_from_1=from1, output_file=of, input_order=in_o,
                    output_order=out_o,
                )
                check(same(r, out_view(exp, out_o)), what + " != independent selection")
                if of:
                    check(same(read_mrc(of), exp), what + ": written file differs from the result")
                check(same(idx, idx_master) and idx_list == idx_list_master, what + ": caller's indices modified")
                check(inp.untouched(), what + ": caller's stack modified")

    # ------------------------------------------------------------------ even / odd
    for (lab, tsarg, in_o), out_o, use_out in itertools.product(inp.variants(), ("xyz", "zyx"), (False, True)):
        pref = os.path.join(tmpdir, f"eo_{case_no}_{next(out_counter)}") if use_out else None
        what = f"{tag}: even/odd {lab} out={out_o} file={use_out}"
        ev, od = quiet(tiltstack.split_stack_even_odd, tsarg, output_file_prefix=pref, input_order=in_o, output_order=out_o)
        ev_c = ev.transpose(2, 1, 0) if out_o == "xyz" else ev
        od_c = od.transpose(2, 1, 0) if out_o == "xyz" else od
        check(ev_c.shape[0] == (n + 1) // 2 and od_c.shape[0] == n // 2, what + ": wrong number of tilts")
        back = np.empty_like(S)
        ok = ev_c.dtype == S.dtype and od_c.dtype == S.dtype and ev_c.shape[1:] == S.shape[1:] == od_c.shape[1:]
        if ok:
            for i in range(n):
                back[i] = ev_c[i // 2] if i % 2 == 0 else od_c[i // 2]
        check(ok and same(back, S), what + ": halves do not interleave back to the input")
        if pref:
            check(same(read_mrc(pref + "_even.mrc"), ev_c), what + ": even file differs from the result")
            check(same(read_mrc(pref + "_odd.mrc"), od_c), what + ": odd file differs from the result")
        pref2 = os.path.join(tmpdir, f"eo_{case_no}_{next(out_counter)}") if use_out else None
        ev0, od0 = quiet(orig_split, tsarg, output_file_prefix=pref2, input_order=in_o, output_order=out_o)
        check(same(ev, ev0) and same(od, od0), what + " != original function")
        check(
            ev.flags["C_CONTIGUOUS"] == ev0.flags["C_CONTIGUOUS"] and ev.flags["F_CONTIGUOUS"] == ev0.flags["F_CONTIGUOUS"]
            and ev.flags["WRITEABLE"] == ev0.flags["WRITEABLE"] and od.strides == od0.strides and ev.strides == ev0.strides,
            what + ": memory layout differs from the original function",
        )
        if pref:
            check(
                same(read_mrc(pref + "_even.mrc"), read_mrc(pref2 + "_even.mrc"))
                and same(read_mrc(pref + "_odd.mrc"), read_mrc(pref2 + "_odd.mrc")),
                what + ": files != files of original function",
            )
        # the halves are the caller's: writing into them must not reach the input or a later call
        ev[...] = 0
        od[...] = 0
        ev2, od2 = quiet(tiltstack.split_stack_even_odd, tsarg, input_order=in_o, output_order=out_o)
        check(same(ev2, ev0) and same(od2, od0), what + ": second call differs")
        check(inp.untouched(), what + ": caller's stack modified")

    # ------------------------------------------------------------------ flips
    for (lab, tsarg, in_o), out_o, use_out in itertools.product(inp.variants(), ("xyz", "zyx"), (False, True)):
        for ax in ("x", "y", "z"):
            of = out_path(use_out)
            what = f"{tag}: flip {ax} {lab} out={out_o} file={use_out}"
            r1 = quiet(tiltstack.flip_along_axes, tsarg, ax, output_file=of, input_order=in_o, output_order=out_o)
            exp1 = np.flip(S, axis=FLIP_AXIS[ax])
            check(same(r1, out_view(exp1, out_o)), what + " != reversed axis")
            if of:
                check(same(read_mrc(of), exp1), what + ": written file differs from the result")
            # second flip: feed the result back (array in the order it was returned in)
            r2 = quiet(tiltstack.flip_along_axes, np.array(r1), [ax], input_order=out_o, output_order=out_o)
            check(same(r2, out_view(S, out_o)), what + ": flipping twice is not the identity")
            r3 = quiet(tiltstack.flip_along_axes, tsarg, [ax, ax], input_order=in_o, output_order=out_o)
            check(same(r3, out_view(S, out_o)), what + ": axes=[a, a] is not the identity")
            check(inp.untouched(), what + ": caller's stack modified")

    # ------------------------------------------------------------------ centred crop
    nw = int(rng.integers(1, w + 1))
    nh = int(rng.integers(1, h + 1))
    for cw, ch in ((nw, nh), (nw, None), (None, nh), (w, h)):
        exp = ref_crop(S, cw, ch)
        for (lab, tsarg, in_o), out_o, use_out in itertools.product(inp.variants(), ("xyz", "zyx"), (False, True)):
            of = out_path(use_out)
            what = f"{tag}: crop {cw}x{ch} {lab} out={out_o} file={use_out}"
            r = quiet(tiltstack.crop, tsarg, new_width=cw, new_height=ch, output_file=of, input_order=in_o, output_order=out_o)
            check(same(r, out_view(exp, out_o)), what + " != central window")
            if of:
                check(same(read_mrc(of), exp), what + ": written file differs from the result")
            check(inp.untouched(), what + ": caller's stack modified")

    # ------------------------------------------------------------------ binning
    b = int(rng.integers(1, 5))
    ref = ref_bin(S, b)
    for (lab, tsarg, in_o), out_o, use_out in itertools.product(inp.variants(), ("xyz", "zyx"), (False, True)):
        of = out_path(use_out)
        what = f"{tag}: bin {b} {lab} out={out_o} file={use_out}"
        r = quiet(tiltstack.bin, tsarg, b, output_file=of, input_order=in_o, output_order=out_o)
        r_c = r.transpose(2, 1, 0) if out_o == "xyz" else r
        if dtype == np.float32:
            okb = r_c.dtype == np.float32 and r_c.shape == ref.shape and np.allclose(r_c, ref, rtol=1e-4, atol=1e-3)
        else:
            okb = r_c.dtype == np.int16 and r_c.shape == ref.shape and np.max(np.abs(r_c - ref)) < 1.0 + 1e-9
        check(okb, what + " != block means")
        if of:
            check(same(read_mrc(of), r_c), what + ": written file differs from the result")
        check(inp.untouched(), what + ": caller's stack modified")

    for f in os.listdir(tmpdir):  # keep the scratch directory small
        os.unlink(os.path.join(tmpdir, f))


def extras(rng):
    """patched vs. original functions on inputs at and beyond the edge of the quantifier (other element types, byte
    order, non-contiguous views, 1 tilt); results or the raised exception must be the same"""

    def outcome(fn, *a, **k):
        try:
            r = quiet(fn, *a, **k)
        except Exception as e:  # noqa
            return ("raised", type(e).__name__, str(e))
        return r

    def equal_outcome(a, b):
        if isinstance(a, tuple) and a and isinstance(a[0], str):
            return a == b
        if isinstance(a, tuple):
            return isinstance(b, tuple) and len(a) == len(b) and all(same(x, y) and x.strides == y.strides for x, y in zip(a, b))
        return isinstance(b, np.ndarray) and same(a, b) and a.strides == b.strides

    for dt in (">f4", "<f8", "u1", "i4", ">i2", "f2", "c8", "?"):
        for n, h, w in ((1, 5, 4), (2, 4, 7), (7, 6, 5), (8, 5, 9)):
            S = (rng.normal(0, 40, size=(n, h, w)) * 3).astype(dt)
            big = (rng.normal(0, 40, size=(2 * n, 2 * h, 2 * w)) * 3).astype(dt)
            views = [("plain", S, "zyx"), ("xyz", np.asfortranarray(S.transpose(2, 1, 0)), "xyz"), ("strided", big[::2, 1::2, ::2], "zyx")]
            angles = rng.permutation(np.arange(n) * 2.5 - 7.0)
            for (vl, arr, in_o), out_o in itertools.product(views, ("xyz", "zyx")):
                master = arr.copy()
                what = f"extras {dt} n={n} {vl} out={out_o}"
                check(
                    equal_outcome(
                        outcome(tiltstack.split_stack_even_odd, arr, input_order=in_o, output_order=out_o),
                        outcome(orig_split, arr, input_order=in_o, output_order=out_o),
                    ),
                    what + ": split != original function",
                )
                if dt != "c8":
                    check(
                        equal_outcome(
                            outcome(tiltstack.sort_tilts_by_angle, arr, angles, input_order=in_o, output_order=out_o),
                            outcome(orig_sort, arr, angles, input_order=in_o, output_order=out_o),
                        ),
                        what + ": sort != original function",
                    )
                check(same(arr, master), what + ": caller's stack modified")
    # tilt angles given in other containers / element types, sizes 1 and mismatching the stack
    S = rng.normal(0, 1, size=(6, 5, 4)).astype(np.float32)
    for ang in (
        np.array([3.0, -1.0, 2.0, 10.0, -20.0, 0.0]),
        np.array([3, -1, 2, 10, -20, 0], dtype=np.int8),
        [3, -1.5, 2, 10, -20, 0],
        np.array([3.0, -1.0, 2.0, 10.0, -20.0, 0.0])[::-1],
        np.array([[3.0, -1.0, 2.0, 10.0, -20.0, 0.0]]).T[:, 0],
        np.array([2.0, 1.0, 0.0]),
        np.array([4.0]),
        np.array([np.nan, 1.0, 0.0, -1.0, 5.0, 2.0]),
    ):
        keep = copy.deepcopy(ang)
        a = outcome(tiltstack.sort_tilts_by_angle, S, ang, input_order="zyx", output_order="zyx")
        b = outcome(orig_sort, S, ang, input_order="zyx", output_order="zyx")
        check(equal_outcome(a, b), f"extras angles {ang!r}: sort != original function")
        check(np.array_equal(np.asarray(ang), np.asarray(keep), equal_nan=True), f"extras angles {ang!r}: modified")


def main():
    rng = np.random.default_rng(20260928)
    sizes = [(2, 4, 5), (2, 40, 4), (3, 5, 4), (25, 4, 40), (25, 7, 6), (24, 9, 13), (5, 40, 39), (4, 6, 11)]
    while len(sizes) < 36:
        n = int(rng.integers(2, 26))
        h = int(rng.integers(4, 41))
        w = int(rng.integers(4, 41))
        if h == w:
            w = w + 1 if w < 40 else w - 1
        sizes.append((n, h, w))
    np_state = np.random.get_state()[1].copy()
    err_state = np.geterr()
    with tempfile.TemporaryDirectory() as tmpdir:
        for case_no, (n, h, w) in enumerate(sizes):
            dtype = np.float32 if case_no % 2 == 0 else np.int16
            run_case(rng, tmpdir, case_no, n, h, w, dtype)
    check(np.array_equal(np.random.get_state()[1], np_state), "global numpy random state changed")
    check(np.geterr() == err_state, "numpy error state changed")

    extras(rng)

    print(f"target: {TARGET}; {n_checks} checks, {len(failures)} failures")
    if failures:
        print("FAIL")
        sys.exit(1)
    print("PASS")


if __name__ == "__main__":
    main()
