"""C14 demo: map rotation / placement / windowing / symmetrisation share one active convention.

Run as:  cd /tmp/wt6/C14 && /venv/bin/python /tmp/seedsR/C14/<x>/demo.py
Checks the property against independent computations and compares the helpers of the tree
(get_start_end_indices, read, Motl.get_angles / get_coordinates / get_rotations) with copies of
their original text on the same inputs.  Prints PASS and exits 0 when everything holds.
"""
import os
import sys

sys.path.insert(0, os.getcwd())

import re
import tempfile
import warnings

import numpy as np
import pandas as pd
import mrcfile
import emfile
from scipy.ndimage import map_coordinates
from scipy.spatial.transform import Rotation as srot

warnings.filterwarnings("ignore")

from cryocat import cryomap, cryomotl

rng = np.random.default_rng(1414)
FAILS = []


def check(cond, msg):
    if not cond:
        FAILS.append(msg)
        if len(FAILS) <= 30:
            print("FAIL:", msg)


# --------------------------------------------------------------------------------------------
# original texts of the helpers (copies of the unmodified tree)
# --------------------------------------------------------------------------------------------
def orig_get_start_end_indices(coord, volume_shape, subvolume_shape):
    subvolume_shape = np.asarray(subvolume_shape)
    subvolume_half = subvolume_shape / 2

    volume_start = np.floor(coord - subvolume_half).astype(int)
    volume_end = (volume_start + subvolume_shape).astype(int)

    volume_start_clip = np.minimum(np.maximum([0, 0, 0], volume_start), np.asarray(volume_shape))
    volume_end_clip = np.maximum(np.minimum(np.asarray(volume_shape), volume_end), [0, 0, 0])

    subvolume_start = volume_start_clip - volume_start
    subvolume_end = volume_end - volume_start
    subvolume_end = volume_end_clip - volume_end + subvolume_end

    subvolume_start = np.minimum(np.maximum([0, 0, 0], subvolume_start), subvolume_shape)
    subvolume_end = np.maximum(np.minimum(subvolume_shape, subvolume_end), [0, 0, 0])

    return volume_start_clip, volume_end_clip, subvolume_start, subvolume_end


def orig_read(input_map, transpose=True, data_type=None):
    if isinstance(input_map, str):

        def valid_mrc(filename):
            pattern = r"\.(mrc|ali|rec|st)(\.\d+)?$"
            return bool(re.search(pattern, filename))

        if valid_mrc(input_map):
            data = mrcfile.open(input_map).data
        elif input_map.endswith(".em"):
            data = emfile.read(input_map)[1]
        else:
            raise ValueError("The input map file name", input_map, "is neither em or mrc file!")

        if transpose:
            data = data.transpose(2, 1, 0)
    elif isinstance(input_map, np.ndarray):
        data = np.array(input_map)
    else:
        raise ValueError(f"Input map must be path to valid file or nparray")

    data = np.array(data, copy=True)
    if data_type is not None:
        data = data.astype(data_type)

    return data


def orig_get_angles(self, tomo_number=None):
    if tomo_number is None:
        angles = self.df.loc[:, ["phi", "theta", "psi"]].values
    else:
        angles = self.df.loc[self.df.loc[:, "tomo_id"] == tomo_number, ["phi", "theta", "psi"]].values

    return np.atleast_2d(angles)


def orig_get_coordinates(self, tomo_number=None):
    if tomo_number is None:
        coord = self.df.loc[:, ["x", "y", "z"]].values + self.df.loc[:, ["shift_x", "shift_y", "shift_z"]].values
    else:
        coord = (
            self.df.loc[self.df.loc[:, "tomo_id"] == tomo_number, ["x", "y", "z"]].values
            + self.df.loc[
                self.df.loc[:, "tomo_id"] == tomo_number,
                ["shift_x", "shift_y", "shift_z"],
            ].values
        )

    return coord


def same_array(a, b):
    a = np.asarray(a)
    b = np.asarray(b)
    return a.shape == b.shape and a.dtype == b.dtype and np.array_equal(a, b, equal_nan=(a.dtype.kind == "f"))


# --------------------------------------------------------------------------------------------
# independent computations
# --------------------------------------------------------------------------------------------
def ref_rotate(vol, R, with_safe=False):
    """Active rotation about floor(N/2): out[c + R v] = in[c + v], cubic spline, zero outside.
    'safe' marks output voxels whose source is not within rounding of the border of the
    interpolation domain (there the result legitimately depends on rounding)."""
    shape = np.array(vol.shape)
    c = shape // 2
    grid = np.stack(np.meshgrid(*[np.arange(s) for s in shape], indexing="ij"), axis=0).reshape(3, -1)
    w = grid - c[:, None]
    src = R.T @ w + c[:, None]
    out = map_coordinates(vol, src, order=3, mode="constant", cval=0.0).reshape(vol.shape)
    if with_safe:
        hi = (shape - 1)[:, None]
        safe = np.all((np.abs(src) > 1e-6) & (np.abs(src - hi) > 1e-6), axis=0).reshape(vol.shape)
        return out, safe
    return out


def blob(shape, centres, sigma=1.6, weights=None):
    g = np.stack(np.meshgrid(*[np.arange(s, dtype=float) for s in shape], indexing="ij"), axis=-1)
    out = np.zeros(shape)
    for i, c in enumerate(centres):
        wgt = 1.0 if weights is None else weights[i]
        out += wgt * np.exp(-np.sum((g - np.asarray(c, dtype=float)) ** 2, axis=-1) / (2 * sigma**2))
    return out


def centre_of_mass(vol):
    g = np.stack(np.meshgrid(*[np.arange(s, dtype=float) for s in vol.shape], indexing="ij"), axis=-1)
    return (g * vol[..., None]).sum(axis=(0, 1, 2)) / vol.sum()


def make_motl(n, vol_shape, index=None, int_columns=False, nan_geom=False):
    df = pd.DataFrame(np.zeros((n, 20)), columns=cryomotl.Motl.motl_columns)
    vs = np.asarray(vol_shape)
    pos = rng.uniform(-4, vs + 4, size=(n, 3))
    if int_columns:
        pos = np.round(pos)
    else:
        pos = np.round(pos * 4) / 4  # quarters: exact in floating point
    df[["x", "y", "z"]] = np.round(pos)
    df[["shift_x", "shift_y", "shift_z"]] = pos - np.round(pos)
    ang = rng.uniform(-180, 180, size=(n, 3))
    ang[:, 1] = rng.uniform(0, 180, size=n)
    # poles of the Euler angles and right angles
    for i in range(n):
        r = rng.integers(0, 6)
        if r == 0:
            ang[i, 1] = 0.0
        elif r == 1:
            ang[i, 1] = 180.0
        elif r == 2:
            ang[i] = rng.choice([0.0, 90.0, 180.0, -90.0], size=3)
    df[["phi", "theta", "psi"]] = ang
    df["tomo_id"] = rng.integers(1, 4, size=n).astype(float)
    df["object_id"] = rng.integers(1, 6, size=n).astype(float)
    df["class"] = rng.integers(-3, 4, size=n).astype(float)
    df["geom1"] = np.round(rng.normal(size=n) * 10, 1)
    df["subtomo_id"] = np.arange(1, n + 1, dtype=float)
    if nan_geom and n > 0:
        df.loc[rng.integers(0, n), "geom1"] = np.nan
    if int_columns:
        df = df.astype({"x": int, "y": int, "z": int, "object_id": int, "tomo_id": int})
    if index is not None:
        df.index = index
    return cryomotl.Motl(df)


def ref_place(template, motl_df, container, colour_col):
    """Independent stamping: returns expected container and a 'do not care' mask for voxels whose
    interpolated value is within rounding of the threshold."""
    exp = container.copy()
    dontcare = np.zeros(container.shape, dtype=bool)
    n = motl_df.shape[0]
    for i in range(n):
        row = motl_df.iloc[i]
        tmpl = template[i] if isinstance(template, list) else template
        R = srot.from_euler("zxz", [row["phi"], row["theta"], row["psi"]], degrees=True).as_matrix()
        rotated, safe = ref_rotate(np.asarray(tmpl, dtype=float), R, with_safe=True)
        on = rotated > 0.1 + 1e-7
        amb = (np.abs(rotated - 0.1) <= 1e-7) | (~safe & (rotated > 0.09))
        on = on & ~amb
        p0 = np.array([row["x"] + row["shift_x"], row["y"] + row["shift_y"], row["z"] + row["shift_z"]]) - 1.0
        start = np.floor(p0 - np.array(tmpl.shape) / 2).astype(int)
        for t in np.ndindex(*tmpl.shape):
            q = start + np.array(t)
            if np.any(q < 0) or np.any(q >= np.array(container.shape)):
                continue
            q = tuple(q)
            if on[t]:
                exp[q] = row[colour_col]
                dontcare[q] = False
            elif amb[t]:
                dontcare[q] = True
    return exp, dontcare


def ref_window(vol, coord, sub_shape):
    out = np.full(sub_shape, vol.mean())
    start = np.floor(np.asarray(coord, dtype=float) - np.asarray(sub_shape) / 2).astype(int)
    for t in np.ndindex(*sub_shape):
        q = start + np.array(t)
        if np.all(q >= 0) and np.all(q < np.array(vol.shape)):
            out[t] = vol[tuple(q)]
    return out


# --------------------------------------------------------------------------------------------
# 1. the 24 cube rotations permute interior voxels exactly (odd and even boxes)
# --------------------------------------------------------------------------------------------
cube_group = srot.create_group("O")
assert len(cube_group) == 24
for N in (5, 6, 7, 8):
    vol = rng.normal(size=(N, N, N))
    vol_before = vol.copy()
    c = N // 2
    for gi in range(24):
        g = cube_group[gi]
        R = np.round(g.as_matrix()).astype(int)
        ang = g.as_euler("zxz", degrees=True)
        outs = [
            cryomap.rotate(vol, rotation_angles=ang),
            cryomap.rotate(vol, rotation=g, transpose_rotation=True),
            cryomap.rotate(vol, rotation=g.inv()),
            cryomap.rotate(vol, rotation_angles=np.deg2rad(ang), degrees=False),
        ]
        worst = 0.0
        for p in np.ndindex(N - 2, N - 2, N - 2):
            p = np.array(p) + 1
            q = c + R @ (p - c)
            if np.any(q < 1) or np.any(q > N - 2):
                continue
            for o in outs:
                worst = max(worst, abs(o[tuple(q)] - vol[tuple(p)]))
        check(worst < 1e-8, f"cube rotation {gi} N={N}: interior voxels not permuted (err {worst:.2e})")
    check(np.array_equal(vol, vol_before), "rotate modified its input")

# --------------------------------------------------------------------------------------------
# 2. random rotations on smooth blobs: density at v goes to R v; inverse restores
# --------------------------------------------------------------------------------------------
for shape in ((24, 24, 24), (25, 25, 25), (22, 25, 24)):
    c = np.array(shape) // 2
    for trial in range(6):
        if trial == 0:
            ang = np.array([37.0, 0.0, -112.0])  # pole
        elif trial == 1:
            ang = np.array([-63.0, 180.0, 15.0])  # pole
        else:
            ang = np.array([rng.uniform(-180, 180), rng.uniform(0, 180), rng.uniform(-180, 180)])
        r = srot.from_euler("zxz", ang, degrees=True)
        v = rng.uniform(-1, 1, size=3)
        v = v / np.linalg.norm(v) * rng.uniform(1.0, 4.5)
        vol = blob(shape, [c + v], sigma=1.8)
        out = cryomap.rotate(vol, rotation_angles=ang)
        com = centre_of_mass(out) - c
        check(np.linalg.norm(com - r.apply(v)) < 0.05, f"blob at v not carried to R v (shape {shape}, ang {ang})")
        check(np.linalg.norm(com - r.inv().apply(v)) > 0.2 or np.linalg.norm(r.apply(v) - r.inv().apply(v)) < 0.3,
              "blob carried to R^-1 v")
        # same as independent interpolation
        ref, safe = ref_rotate(vol, r.as_matrix(), with_safe=True)
        check(np.max(np.abs(out - ref)[safe]) < 1e-9 and np.max(np.abs(out - ref)) < 1e-3, f"rotate differs from independent interpolation ({shape}, {ang})")
        # the particle convention: Motl.get_rotations + transpose_rotation=True is the same map
        m = make_motl(1, shape)
        m.df[["phi", "theta", "psi"]] = ang
        out2 = cryomap.rotate(vol, rotation=m.get_rotations()[0], transpose_rotation=True)
        check(np.max(np.abs(out2 - out)) < 1e-9, "rotation= with transpose differs from rotation_angles=")
        # inverse restores
        back = cryomap.rotate(out, rotation=r)  # matrix R used directly = inverse of the active R
        check(np.max(np.abs(back - vol)) < 2e-2, f"inverse rotation does not restore the blob ({np.max(np.abs(back - vol)):.3f})")
        back2 = cryomap.rotate(out, rotation_angles=-ang[::-1])
        check(np.max(np.abs(back2 - back)) < 1e-9, "inverse by reversed negated angles differs")
        # link with shift_positions: the particle's reference offset v lands at R v
        m2 = m.shift_positions(v, inplace=False)
        d = m2.get_coordinates() - m.get_coordinates()
        check(np.allclose(d[0], r.apply(v), atol=1e-9), "shift_positions does not move by R v")
        check(np.linalg.norm(d[0] - com) < 0.05, "map rotation and particle orientation disagree")

# --------------------------------------------------------------------------------------------
# 3. place_object
# --------------------------------------------------------------------------------------------
def run_place(template, motl, vol_shape=None, volume=None, col="object_id"):
    df_before = motl.df.copy()
    vol_before = None if volume is None or isinstance(volume, str) else volume.copy()
    kw = {} if col == "object_id" else {"feature_to_color": col}
    got = cryomap.place_object(template, motl, volume_shape=vol_shape, volume=volume, **kw)
    got_again = cryomap.place_object(template, motl, volume_shape=vol_shape, volume=volume, **kw)
    check(np.array_equal(got, got_again, equal_nan=True), "place_object: repeated call differs")
    check(df_before.equals(motl.df) and df_before.index.equals(motl.df.index), "place_object changed the particle list")
    if vol_before is not None:
        check(np.array_equal(vol_before, volume), "place_object changed the caller's volume")
    return got


tmpdir = tempfile.mkdtemp(prefix="c14demo_")
case = 0
for tsize in (8, 9, 10):
    ct = np.array([tsize // 2] * 3)
    template = blob((tsize,) * 3, [ct + [1.0, 0.0, 0.0], ct + [-1.0, 0.5, 0.0], ct + [0, 0, 1.0]], sigma=0.8)
    faces = np.ones(template.shape, dtype=bool)
    faces[1:-1, 1:-1, 1:-1] = False
    assert template[faces].max() * 1.2 < 0.09 and (template > 0.1).sum() > 20
    for n in (1, 2, 5, 20):
        for variant in range(4):
            case += 1
            vshape = [(20, 20, 20), (18, 21, 16), (15, 15, 15), (12, 30, 17)][variant]
            index = None
            if variant == 1:
                index = np.arange(n)[::-1] * 3 + 7
            elif variant == 2:
                index = rng.permutation(n) + 100
            motl = make_motl(n, vshape, index=index, int_columns=(variant == 3), nan_geom=(variant == 2))
            col = ["object_id", "class", "geom1", "object_id"][variant]
            if variant == 0:
                got = run_place(template, motl, vol_shape=vshape, col=col)
                base = np.zeros(vshape)
            elif variant == 1:
                base = rng.integers(0, 3, size=vshape).astype(float) * 100
                got = run_place(template, motl, volume=base, col=col)
            elif variant == 2:
                tl = [template * rng.uniform(0.6, 1.2) for _ in range(n)]
                base = np.zeros(vshape)
                got = run_place(tl, motl, vol_shape=tuple(vshape), col=col)
                exp, dc = ref_place(tl, motl.df, base, col)
            else:
                # template and volume given as files
                tname = os.path.join(tmpdir, f"t{case}.em")
                vname = os.path.join(tmpdir, f"v{case}.mrc")
                base = rng.integers(0, 2, size=vshape).astype(np.float32) * 50
                emfile.write(tname, np.ascontiguousarray(template.astype(np.float32).transpose(2, 1, 0)), overwrite=True)
                mrcfile.write(vname, np.ascontiguousarray(base.transpose(2, 1, 0)), overwrite=True)
                got = run_place(tname, motl, volume=vname, col=col)
                template32 = template.astype(np.float32)
                exp, dc = ref_place(template32, motl.df, base.astype(np.float32), col)
            if variant in (0, 1):
                exp, dc = ref_place(template, motl.df, base, col)
            check(got.shape == tuple(vshape), f"place_object shape (case {case})")
            ok = np.isclose(got, exp, equal_nan=True) | dc
            check(ok.all(), f"place_object differs from independent stamping (tsize {tsize}, n {n}, variant {variant}): {np.sum(~ok)} voxels")
            check(dc.sum() <= 3, "too many ambiguous voxels")

# empty particle list: nothing is placed
empty = cryomotl.Motl(pd.DataFrame(np.zeros((0, 20)), columns=cryomotl.Motl.motl_columns))
got = cryomap.place_object(np.ones((4, 4, 4)), empty, volume_shape=(6, 6, 6))
check(got.shape == (6, 6, 6) and not got.any(), "place_object with an empty list")

# --------------------------------------------------------------------------------------------
# 4. windows: extract_subvolume / crop / get_start_end_indices
# --------------------------------------------------------------------------------------------
for vshape in ((10, 12, 14), (9, 9, 9), (8, 11, 6)):
    vol = rng.normal(size=vshape) + 3.0
    vol_before = vol.copy()
    for sub in ((4, 4, 4), (6, 2, 4), (2, 8, 6), (12, 12, 16)):
        coords = [np.array(vshape) / 2.0, np.array(vshape) // 2, np.zeros(3), np.array(vshape, dtype=float),
                  np.array(vshape) + 40.0, -np.array(sub) - 5.0, np.array([-30.0, 4, 4])]
        coords += [rng.uniform(-8, np.array(vshape) + 8) for _ in range(12)]
        coords += [np.round(rng.uniform(-8, np.array(vshape) + 8)) for _ in range(12)]
        coords += [np.round(rng.uniform(-8, np.array(vshape) + 8)) + 0.5 for _ in range(6)]
        for coord in coords:
            got = cryomap.extract_subvolume(vol, coord, sub)
            exp = ref_window(vol, coord, sub)
            check(got.shape == tuple(sub) and np.array_equal(got, exp), f"extract_subvolume vol {vshape} sub {sub} at {coord}")
            got2 = cryomap.extract_subvolume(vol, coord, np.array(sub))
            check(np.array_equal(got2, exp), "extract_subvolume with array shape")
            # helper against its original text (values and dtypes), several input types
            for cc in (coord, np.asarray(coord, dtype=float)):
                for vs_in, sub_in in ((vshape, sub), (np.array(vshape), np.array(sub)), (list(vshape), list(sub))):
                    a = cryomap.get_start_end_indices(cc, vs_in, sub_in)
                    b = orig_get_start_end_indices(cc, vs_in, sub_in)
                    check(len(a) == 4 and all(same_array(x, y) for x, y in zip(a, b)),
                          f"get_start_end_indices differs from original ({cc}, {vs_in}, {sub_in})")
            # independent statement of the four index vectors
            start = np.floor(np.asarray(coord, dtype=float) - np.array(sub) / 2).astype(int)
            end = start + np.array(sub)
            a = cryomap.get_start_end_indices(coord, vshape, sub)
            vs_ = np.clip(start, 0, vshape)
            ve_ = np.clip(end, 0, vshape)
            check(np.array_equal(a[0], vs_) and np.array_equal(a[1], ve_), "volume clip indices")
            if np.all(ve_ > vs_):
                check(np.array_equal(a[2], vs_ - start) and np.array_equal(a[3], ve_ - start), "subvolume indices")
    check(np.array_equal(vol, vol_before), "extract_subvolume modified the volume")
    # centre crop and crop at a coordinate (windows inside the volume)
    for new in ((4, 4, 4), (6, 4, 2), 4):
        got = cryomap.crop(vol, new)
        ns = np.full(3, new) if np.isscalar(new) else np.array(new)
        st = np.floor(np.array(vshape) // 2 - ns / 2).astype(int)
        check(np.array_equal(got, vol[st[0]:st[0] + ns[0], st[1]:st[1] + ns[1], st[2]:st[2] + ns[2]]), f"crop {new}")

# float shapes / coordinates given as lists behave as in the original helper
for _ in range(50):
    coord = list(rng.uniform(-5, 20, size=3))
    try:
        b = orig_get_start_end_indices(coord, (12, 12, 12), np.array([4.0, 6.0, 8.0]))
        a = cryomap.get_start_end_indices(coord, (12, 12, 12), np.array([4.0, 6.0, 8.0]))
        check(all(same_array(x, y) for x, y in zip(a, b)), "get_start_end_indices float shape")
    except Exception as e:  # original raises -> patched must raise as well
        try:
            cryomap.get_start_end_indices(coord, (12, 12, 12), np.array([4.0, 6.0, 8.0]))
            check(False, "get_start_end_indices: original raised, tree did not")
        except Exception as e2:
            check(type(e) is type(e2), "get_start_end_indices: other exception type")

# --------------------------------------------------------------------------------------------
# 5. C_n symmetrisation
# --------------------------------------------------------------------------------------------
for shape in ((24, 24, 12), (25, 25, 11)):
    c = np.array(shape) // 2
    centres = [c + np.array([rng.uniform(-5, 5), rng.uniform(-5, 5), rng.uniform(-2, 2)]) for _ in range(3)]
    vol = blob(shape, centres, sigma=1.7, weights=[1.0, 0.7, 1.3])
    vol_before = vol.copy()
    for n in range(2, 13):
        sym = cryomap.symmetrize_volume(vol, n)
        sym_s = cryomap.symmetrize_volume(vol, f"C{n}")
        check(np.array_equal(sym, sym_s), f"symmetry given as string differs (n={n})")
        ref = np.zeros(shape)
        safe = np.ones(shape, dtype=bool)
        for k in range(n):
            rk, sk = ref_rotate(vol, srot.from_euler("z", 360.0 * k / n, degrees=True).as_matrix(), with_safe=True)
            ref += rk
            safe &= sk
        ref /= n
        check(safe.mean() > 0.5, "too few comparable voxels")
        check(np.max(np.abs(sym - ref)[safe]) < 1e-9 and np.max(np.abs(sym - ref)) < 1e-3, f"symmetrize_volume is not the mean of the n rotated copies (n={n}): {np.max(np.abs(sym - ref)):.2e}")
        turned = cryomap.rotate(sym, rotation_angles=[0, 0, 360.0 / n])
        check(np.max(np.abs(turned - sym)) < 2e-2 * vol.max(), f"symmetrised map not invariant (n={n}): {np.max(np.abs(turned - sym)):.3e}")
        check(abs(sym.sum() - vol.sum()) < 2e-3 * vol.sum(), f"total density changed (n={n})")
    check(np.array_equal(vol, vol_before), "symmetrize_volume modified its input")

# --------------------------------------------------------------------------------------------
# 6. helpers against the original texts: read, get_angles / get_coordinates / get_rotations
# --------------------------------------------------------------------------------------------
def same_read(a, b):
    return (same_array(a, b) and a.strides == b.strides and a.flags.writeable == b.flags.writeable
            and a.flags.owndata == b.flags.owndata and type(a) is type(b))


for shape in ((4, 5, 6), (7, 7, 7), (1, 2, 3)):
    for dt in (np.float32, np.int16, np.int8, np.uint16):
        arr = (rng.normal(size=shape) * 20).astype(dt)  # file order (z, y, x)
        for ext in (".mrc", ".rec", ".st", ".ali", ".em", ".mrc.3"):
            name = os.path.join(tmpdir, f"r_{shape[0]}_{np.dtype(dt).name}{ext}")
            try:
                if ext == ".em":
                    emfile.write(name, arr, overwrite=True)
                else:
                    mrcfile.write(name, arr, overwrite=True)
            except Exception:
                continue
            for tr in (True, False):
                for dtype in (None, np.float64, np.float32):
                    a = cryomap.read(name, transpose=tr, data_type=dtype)
                    b = orig_read(name, transpose=tr, data_type=dtype)
                    check(same_read(a, b), f"read differs from original on {name} transpose={tr} dtype={dtype}")
                    exp = arr.transpose(2, 1, 0) if tr else arr
                    if dtype is not None:
                        exp = exp.astype(dtype)
                    check(same_array(a, exp), f"read does not return the file's voxels ({name})")
                    a[...] = 0  # result is an own, writeable array
            check(same_array(cryomap.read(name), arr.transpose(2, 1, 0)), "read: second read after writing into the first result")
    # arrays: a copy of the caller's values, never the caller's array
    for src in (rng.normal(size=shape), np.asfortranarray(rng.normal(size=shape)), rng.normal(size=shape).transpose(2, 0, 1),
                rng.integers(0, 5, size=shape), rng.normal(size=(8, 8, 8))[::2, 1:5, ::-1], rng.normal(size=shape[:2]),
                rng.normal(size=shape).view(np.ndarray)[..., 0]):
        keep = src.copy()
        for dtype in (None, np.float32, int):
            a = cryomap.read(src, data_type=dtype)
            b = orig_read(src, data_type=dtype)
            check(same_read(a, b), "read(array) differs from original")
            check(not np.shares_memory(a, src), "read(array) shares memory with the input")
            a[...] = 7
            check(np.array_equal(src, keep), "read(array) result aliases the input")
for bad in ("x.txt", "x.mrcs", 5, None, [1, 2, 3]):
    for f in (cryomap.read, orig_read):
        try:
            f(bad)
            check(False, f"read({bad!r}) did not raise")
        except ValueError:
            pass

for n in (0, 1, 2, 7, 20):
    for variant in range(4):
        index = None
        if variant == 1:
            index = np.arange(n)[::-1] * 2 + 5
        elif variant == 2:
            index = rng.permutation(n) + 10
        motl = make_motl(n, (20, 20, 20), index=index, int_columns=(variant == 3), nan_geom=(variant == 2 and n > 0))
        if variant == 2 and n > 1:
            motl.df.iloc[0, motl.df.columns.get_loc("shift_y")] = np.nan
        df_before = motl.df.copy()
        for tomo in (None, 1, 2, 3, 2.0, 99, -1):
            a = motl.get_angles(tomo)
            b = orig_get_angles(motl, tomo)
            check(same_array(a, b), f"get_angles differs from original (n={n}, variant={variant}, tomo={tomo})")
            a = motl.get_coordinates(tomo)
            b = orig_get_coordinates(motl, tomo)
            check(same_array(a, b), f"get_coordinates differs from original (n={n}, variant={variant}, tomo={tomo})")
            sel = df_before if tomo is None else df_before[df_before["tomo_id"].to_numpy() == tomo]
            exp = np.array([[r.x + r.shift_x, r.y + r.shift_y, r.z + r.shift_z] for r in sel.itertuples()]).reshape(-1, 3)
            check(np.array_equal(np.asarray(a, dtype=float).reshape(-1, 3), exp, equal_nan=True), "get_coordinates is not position + shift in row order")
            rots = motl.get_rotations(tomo)
            if sel.shape[0] == 0:
                check(isinstance(rots, list) and rots == [], "get_rotations of an empty selection")
            else:
                exp_r = srot.from_euler("zxz", sel[["phi", "theta", "psi"]].to_numpy(), degrees=True)
                check(len(rots) == sel.shape[0] and np.array_equal(rots.as_matrix(), exp_r.as_matrix()), "get_rotations")
            # results do not alias the table
            if a.size:
                a[...] = -1
        check(df_before.equals(motl.df) and df_before.index.equals(motl.df.index), "accessors changed the particle list")

if FAILS:
    print(f"{len(FAILS)} check(s) failed")
    sys.exit(1)
print("PASS")
