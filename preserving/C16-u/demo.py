"""C16 / change b: dose_filter prints a dose summary (min / median / max / distinct) computed on its own sorted copy.

Checks, on the clean tree and with the patch:
  1. property: DFT(out_i)(k) == DFT(in_i)(k) * exp(-dose_i / (2*(0.245*f^-1.665 + 2.81))), DC unchanged, against an
     independent computation (np.fft.fftfreq based, no fftshift, no centre arithmetic),
     + zero dose identity, linearity, power never increases, monotone in dose, d1 then d2 == d1+d2;
  2. outputs are bitwise equal to those of the original functions (text kept below);
  3. image i is filtered with dose i (doses in any order: ascending, descending, dose-symmetric, shuffled, ties),
     the dose object of the caller (array, read-only array, strided view and its base, list, file) keeps order,
     values and dtype; the stack is untouched; repeated calls on the same objects give the same answer;
  4. the frequency array is unchanged.
"""

import os
import sys

sys.path.insert(0, os.getcwd())

import contextlib
import io
import tempfile
import warnings

import numpy as np

warnings.filterwarnings("ignore", category=RuntimeWarning)  # 0**-1.665 at the zero frequency

from cryocat import tiltstack
from cryocat import ioutils
from cryocat.tiltstack import TiltStack

A, B, C = 0.245, -1.665, 2.81


# ----------------------------------------------------------------------------------------------------------------
# original function texts (HEAD d4d8304), only the prints removed
# ----------------------------------------------------------------------------------------------------------------
def orig_frequency_array(height, width, pixel_size):
    frequency_array = np.zeros((height, width))
    cen_x = width // 2
    cen_y = height // 2
    rstep_x = 1 / (width * pixel_size)
    rstep_y = 1 / (height * pixel_size)
    for x in range(width):
        for y in range(height):
            d = np.sqrt(((x - cen_x) ** 2 * rstep_x**2) + ((y - cen_y) ** 2 * rstep_y**2))
            frequency_array[y, x] = d
    return frequency_array


def orig_dose_filter_single_image(image, dose, freq_array):
    a = 0.245
    b = -1.665
    c = 2.81
    ft = np.fft.fftshift(np.fft.fft2(image))
    q = np.exp((-dose) / (2 * ((a * (freq_array**b)) + c)))
    filtered_image = np.fft.ifft2(np.fft.ifftshift(ft * q))
    return filtered_image.real


def orig_dose_filter(tilt_stack, pixel_size, total_dose, output_file=None, input_order="xyz", output_order="xyz"):
    ts = TiltStack(tilt_stack=tilt_stack, input_order=input_order, output_order=output_order)
    pixel_size = float(pixel_size)
    total_dose = ioutils.total_dose_load(total_dose)
    frequency_array = orig_frequency_array(ts.height, ts.width, pixel_size)
    ts.data = np.array(ts.data, copy=True)
    for z in range(ts.n_tilts):
        image = ts.data[z, :, :]
        ts.data[z, :, :] = orig_dose_filter_single_image(image, total_dose[z], frequency_array)
    ts.write_out(output_file)
    return ts.correct_order()


# ----------------------------------------------------------------------------------------------------------------
def quiet(fn, *args, **kwargs):
    with contextlib.redirect_stdout(io.StringIO()):
        return fn(*args, **kwargs)


def expected_gain(height, width, pixel_size, dose):
    """Independent: unshifted DFT layout, frequencies in cycles per Angstrom from fftfreq."""
    fy = np.fft.fftfreq(height, d=pixel_size)[:, None]
    fx = np.fft.fftfreq(width, d=pixel_size)[None, :]
    f = np.hypot(fx, fy)
    g = np.ones((height, width))
    nz = f > 0
    g[nz] = np.exp(-dose / (2.0 * (A * f[nz] ** B + C)))
    return g


def check(cond, msg):
    if not cond:
        print("FAIL:", msg)
        sys.exit(1)


def make_stack(rng, n, height, width, kind):
    """zyx stack"""
    if kind == "random":
        return rng.normal(rng.uniform(-5, 5), rng.uniform(0.1, 20), size=(n, height, width))
    st = np.empty((n, height, width))
    yy, xx = np.mgrid[0:height, 0:width]
    for i in range(n):
        ky = int(rng.integers(0, height))
        kx = int(rng.integers(0, width))
        st[i] = rng.uniform(0.5, 3) * np.cos(2 * np.pi * (ky * yy / height + kx * xx / width) + rng.uniform(0, 6)) + rng.uniform(-2, 2)
    return st


def run_case(rng, n, height, width, pixel_size, doses, kind, order, dose_as):
    zyx = make_stack(rng, n, height, width, kind)
    stack = np.ascontiguousarray(zyx.transpose(2, 1, 0)) if order == "xyz" else zyx
    stack_before = stack.copy()
    doses = np.asarray(doses, dtype=float)
    tmpname = None
    if dose_as == "array":
        dose_arg = doses.copy()
    elif dose_as == "list":
        dose_arg = [float(d) for d in doses]
    else:
        fd, tmpname = tempfile.mkstemp(suffix=".txt")
        os.close(fd)
        np.savetxt(tmpname, doses, fmt="%.17g")
        dose_arg = tmpname
        doses = doses.astype(np.float32).astype(float)  # the one-value-per-line reader loads single precision
    dose_arg_before = dose_arg.copy() if isinstance(dose_arg, np.ndarray) else (list(dose_arg) if isinstance(dose_arg, list) else dose_arg)

    # record what dose_filter hands to the single-image routine
    seen = []
    real_single = tiltstack.dose_filter_single_image

    def recording(image, dose, freq_array):
        seen.append((float(dose), freq_array.copy()))
        return real_single(image, dose, freq_array)

    tiltstack.dose_filter_single_image = recording
    try:
        out = quiet(tiltstack.dose_filter, stack, pixel_size, dose_arg, input_order=order, output_order=order)
    finally:
        tiltstack.dose_filter_single_image = real_single
    out2 = quiet(tiltstack.dose_filter, stack, pixel_size, dose_arg, input_order=order, output_order=order)
    ref = orig_dose_filter(stack, pixel_size, dose_arg, input_order=order, output_order=order)

    tag = f"n={n} h={height} w={width} px={pixel_size} kind={kind} order={order} dose_as={dose_as}"

    # inputs untouched
    check(np.array_equal(stack, stack_before), "stack modified " + tag)
    if isinstance(dose_arg, np.ndarray):
        check(np.array_equal(dose_arg, dose_arg_before) and dose_arg.dtype == dose_arg_before.dtype, "dose array modified " + tag)
    elif isinstance(dose_arg, list):
        check(dose_arg == dose_arg_before, "dose list modified " + tag)

    # same as original, repeated call the same
    check(out.shape == ref.shape and out.dtype == ref.dtype, "shape/dtype differs from original " + tag)
    check(np.array_equal(out, ref), "output differs from the original function " + tag)
    check(np.array_equal(out, out2), "second call differs " + tag)
    check(not np.shares_memory(out, stack), "result aliases the input " + tag)

    # per-image pairing and frequency array
    check(len(seen) == n, "number of single-image calls " + tag)
    fa = orig_frequency_array(height, width, float(pixel_size))
    for i, (d, f) in enumerate(seen):
        check(d == doses[i], f"image {i} paired with dose {d} instead of {doses[i]} " + tag)
        check(f.shape == fa.shape and f.dtype == fa.dtype and np.array_equal(f, fa), "frequency array differs from the loop " + tag)

    # the property itself
    out_zyx = out.transpose(2, 1, 0) if order == "xyz" else out
    for i in range(n):
        fin = np.fft.fft2(zyx[i])
        fout = np.fft.fft2(out_zyx[i])
        g = expected_gain(height, width, float(pixel_size), doses[i])
        scale = np.abs(fin).max() + 1e-300
        err = np.abs(fout - fin * g).max() / scale
        check(err < 1e-10, f"formula violated, image {i}, rel err {err:.3e} " + tag)
        check(abs(fout[0, 0] - fin[0, 0]) <= 1e-10 * scale, "DC changed " + tag)
        check(abs(out_zyx[i].mean() - zyx[i].mean()) <= 1e-10 * (np.abs(zyx[i]).max() + 1e-300), "mean changed " + tag)
        check(np.all(np.abs(fout) <= np.abs(fin) * (1 + 1e-9) + 1e-10 * scale), "power increased " + tag)
    if tmpname:
        os.unlink(tmpname)
    return stack, doses, out


def consequences(rng, n, height, width, pixel_size):
    zyx1 = make_stack(rng, n, height, width, "random")
    zyx2 = make_stack(rng, n, height, width, "wave")
    d1 = rng.uniform(0, 150, n)
    d2 = rng.uniform(0, 150, n)
    f = lambda s, d: quiet(tiltstack.dose_filter, s, pixel_size, d, input_order="zyx", output_order="zyx")
    tag = f"n={n} h={height} w={width} px={pixel_size}"
    tol = 1e-9 * (np.abs(zyx1).max() + np.abs(zyx2).max())
    # zero dose: identity
    check(np.abs(f(zyx1, np.zeros(n)) - zyx1).max() <= tol, "zero dose not identity " + tag)
    # linear
    al, be = rng.uniform(-3, 3, 2)
    check(np.abs(f(al * zyx1 + be * zyx2, d1) - (al * f(zyx1, d1) + be * f(zyx2, d1))).max() <= 10 * tol, "not linear " + tag)
    # composition
    check(np.abs(f(f(zyx1, d1), d2) - f(zyx1, d1 + d2)).max() <= tol, "d1 then d2 != d1+d2 " + tag)
    # more dose attenuates more
    p1 = np.abs(np.fft.fft2(f(zyx1, d1), axes=(1, 2)))
    p2 = np.abs(np.fft.fft2(f(zyx1, d1 + d2), axes=(1, 2)))
    check(np.all(p2 <= p1 * (1 + 1e-9) + tol), "more dose attenuates less " + tag)


def main():
    rng = np.random.default_rng(20160916)

    # 4. frequency array (captured through dose_filter)
    real_single = tiltstack.dose_filter_single_image
    for px in (0.5, 2.176, 7):
        for height in range(4, 65, 3):
            for width in range(4, 65, 2):
                got = []
                tiltstack.dose_filter_single_image = lambda im, d, fa: (got.append(fa.copy()), im)[1]
                try:
                    quiet(tiltstack.dose_filter, np.zeros((1, height, width)), px, [1.0], input_order="zyx", output_order="zyx")
                finally:
                    tiltstack.dose_filter_single_image = real_single
                fa = orig_frequency_array(height, width, float(px))
                check(len(got) == 1 and got[0].shape == fa.shape and got[0].dtype == fa.dtype, f"freq array shape {height}x{width}")
                check(np.array_equal(got[0], fa), f"frequency array not bitwise the loop's: h={height} w={width} px={px}")
                check(got[0][height // 2, width // 2] == 0.0, "zero frequency not at the centre")

    # 1, 2, 4: edge cases
    edge = [
        (1, 4, 4, 0.5, [0.0]),
        (1, 4, 5, 10.0, [300.0]),
        (1, 64, 64, 1.0, [77.7]),
        (2, 5, 4, 2.5, [300.0, 0.0]),
        (3, 7, 64, 0.5, [3.0, 1.0, 2.0]),
        (10, 63, 5, 10.0, list(np.linspace(300, 0, 10))),
        (4, 16, 16, 1.35, [50.0, 50.0, 50.0, 50.0]),
        (5, 31, 32, 3, [120, 0, 240, 60, 180]),  # integer pixel size and integer doses
    ]
    count = 0
    for n, h, w, px, doses in edge:
        for kind in ("random", "wave"):
            for order in ("xyz", "zyx"):
                for dose_as in ("array", "list", "file"):
                    run_case(rng, n, h, w, px, doses, kind, order, dose_as)
                    count += 1

    # integer dose array (dtype kept, not converted)
    st = make_stack(rng, 3, 9, 12, "random")
    di = np.array([30, 10, 20])
    o = quiet(tiltstack.dose_filter, st, 2.0, di, input_order="zyx", output_order="zyx")
    check(np.array_equal(o, orig_dose_filter(st, 2.0, di, input_order="zyx", output_order="zyx")), "int doses")
    check(di.dtype.kind == "i" and di.tolist() == [30, 10, 20], "int dose array modified")

    # float32 stack: result type and values as original
    st32 = make_stack(rng, 3, 10, 7, "random").astype(np.float32)
    o = quiet(tiltstack.dose_filter, st32, 1.7, [5.0, 90.0, 33.0], input_order="zyx", output_order="zyx")
    r = orig_dose_filter(st32, 1.7, [5.0, 90.0, 33.0], input_order="zyx", output_order="zyx")
    check(o.dtype == r.dtype == np.float32 and np.array_equal(o, r), "float32 stack")

    # random cases
    for _ in range(150):
        n = int(rng.integers(1, 11))
        h = int(rng.integers(4, 65))
        w = int(rng.integers(4, 65))
        px = float(rng.uniform(0.5, 10))
        doses = rng.uniform(0, 300, n)
        if rng.random() < 0.3:
            doses = np.sort(doses)[::-1].copy()
        if rng.random() < 0.2:
            doses[int(rng.integers(0, n))] = 0.0
        run_case(rng, n, h, w, px, doses, str(rng.choice(["random", "wave"])), str(rng.choice(["xyz", "zyx"])), str(rng.choice(["array", "list", "file"])))
        count += 1


    # dose objects that a careless summary would disturb: strided views, read-only arrays, ties, (n,1) columns
    for _ in range(40):
        n = int(rng.integers(1, 11))
        h = int(rng.integers(4, 33))
        w = int(rng.integers(4, 33))
        px = float(rng.uniform(0.5, 10))
        st = make_stack(rng, n, h, w, "random")
        st0 = st.copy()
        base = rng.uniform(0, 300, 2 * n + 1)
        if rng.random() < 0.5:
            base = np.round(base, -2)  # many ties
        base0 = base.copy()
        for variant in ("view", "reversed_view", "readonly", "column", "float32", "longer"):
            if variant == "view":
                d = base[::2][:n]
            elif variant == "reversed_view":
                d = base[::-1][:n]
            elif variant == "readonly":
                d = base[:n].copy()
                d.setflags(write=False)
            elif variant == "column":
                d = base[:n].copy().reshape(n, 1)
            elif variant == "float32":
                d = base[:n].astype(np.float32)
            else:
                d = base.copy()  # more values than images: the first n are used, as before
            d0 = d.copy()
            o1 = quiet(tiltstack.dose_filter, st, px, d, input_order="zyx", output_order="zyx")
            o2 = quiet(tiltstack.dose_filter, st, px, d, input_order="zyx", output_order="zyx")
            r = orig_dose_filter(st, px, d, input_order="zyx", output_order="zyx")
            check(np.array_equal(o1, r) and np.array_equal(o1, o2) and o1.dtype == r.dtype, "differs from original, dose variant " + variant)
            check(np.array_equal(d, d0) and d.dtype == d0.dtype and d.shape == d0.shape, "dose object changed, variant " + variant)
            check(d.flags.writeable == (variant != "readonly"), "writeable flag of the dose array changed, variant " + variant)
            check(np.array_equal(base, base0), "base of the dose view changed, variant " + variant)
            check(np.array_equal(st, st0), "stack changed, variant " + variant)
            dd = np.asarray(d, dtype=float).reshape(-1)
            for i in range(n):
                g = expected_gain(h, w, px, dd[i])
                fin, fout = np.fft.fft2(st[i]), np.fft.fft2(o1[i])
                check(np.abs(fout - fin * g).max() <= 1e-10 * np.abs(fin).max(), f"formula violated (pairing), variant {variant}, image {i}")

    # the numpy random state and error settings are not touched by the call
    state0 = np.random.get_state()[1].copy()
    err0 = np.geterr()
    quiet(tiltstack.dose_filter, make_stack(rng, 3, 8, 8, "random"), 2.0, [30.0, 10.0, 20.0], input_order="zyx", output_order="zyx")
    check(np.array_equal(np.random.get_state()[1], state0) and np.geterr() == err0, "global numpy state changed")

    for _ in range(25):
        consequences(rng, int(rng.integers(1, 11)), int(rng.integers(4, 65)), int(rng.integers(4, 65)), float(rng.uniform(0.5, 10)))

    # single image routine against its original on the same inputs (inputs untouched)
    for _ in range(60):
        h = int(rng.integers(4, 65))
        w = int(rng.integers(4, 65))
        px = float(rng.uniform(0.5, 10))
        img = rng.normal(size=(h, w))
        fa = orig_frequency_array(h, w, px)
        img0, fa0 = img.copy(), fa.copy()
        d = float(rng.uniform(0, 300))
        o1 = tiltstack.dose_filter_single_image(img, d, fa)
        o2 = tiltstack.dose_filter_single_image(img, d, fa)
        check(np.array_equal(o1, orig_dose_filter_single_image(img0, d, fa0)) and np.array_equal(o1, o2), "single image differs")
        check(np.array_equal(img, img0) and np.array_equal(fa, fa0), "single image routine modified its inputs")

    # written file as before
    with tempfile.TemporaryDirectory() as td:
        st = make_stack(rng, 3, 12, 9, "random").astype(np.float32)
        p1, p2 = os.path.join(td, "n.mrc"), os.path.join(td, "o.mrc")
        quiet(tiltstack.dose_filter, st, 2.0, [10.0, 50.0, 30.0], output_file=p1, input_order="zyx", output_order="zyx")
        orig_dose_filter(st, 2.0, [10.0, 50.0, 30.0], output_file=p2, input_order="zyx", output_order="zyx")
        from cryocat import cryomap

        check(np.array_equal(cryomap.read(p1, transpose=False), cryomap.read(p2, transpose=False)), "written stack differs")

    print(f"PASS ({count} stack cases, dose-object variants, frequency arrays, consequences, single-image, file output)")


if __name__ == "__main__":
    main()
