"""C18 demo: nearest-neighbour analysis (nnana.get_nn_stats) equals brute force and is invariant under rigid
motion of a whole tomogram; the functions of the worktree are also compared, output by output, with the copies
of the original functions kept below.  Run as: cd /tmp/wt7/C18 && /venv/bin/python <this file>"""
import os
import sys

sys.path.insert(0, os.getcwd())

import types
import warnings

warnings.filterwarnings("ignore")

import numpy as np
import pandas as pd
from scipy.spatial.transform import Rotation as R

from cryocat import cryomotl, geom, nnana
from cryocat.exceptions import UserInputError

assert os.path.abspath(nnana.__file__).startswith(os.getcwd()), nnana.__file__

# ----------------------------------------------------------------------------------------------------------------
# original function texts (HEAD of the worktree), executed in copies of the module namespaces
# ----------------------------------------------------------------------------------------------------------------
ORIG_GEOM_SRC = r'''
def compare_rotations(angles1, angles2, c_symmetry=1, rotation_type="all"):
    """Compare the rotations between two sets of angles.

    Parameters
    ----------
    angles1 : list
        The first set of angles.
    angles2 : list
        The second set of angles.
    c_symmetry : int
        The degree of rotational symmetry. Defaults to 1.

    Returns
    -------
    tuple
        A tuple containing the following distances:
        - dist_degrees (float): The overall angular distance between the two sets of angles.
        - dist_degrees_normals (float): The angular distance between the normal vectors of the two sets of angles.
        - dist_degrees_inplane (float): The angular distance within the plane of rotation between the two sets of angles.

    """

    dist_degrees = angular_distance(angles1, angles2, c_symmetry=c_symmetry)[0]
    dist_degrees_normals, dist_degrees_inplane = cone_inplane_distance(angles1, angles2, c_symmetry=c_symmetry)

    if rotation_type == "all":
        return dist_degrees, dist_degrees_normals, dist_degrees_inplane
    elif rotation_type == "angular_distance":
        return dist_degrees
    elif rotation_type == "cone_distance":
        return dist_degrees_normals
    elif rotation_type == "in_plane_distance":
        return dist_degrees_inplane
    else:
        raise UserInputError(f"The rotation type {rotation_type} is not supported.")
'''

ORIG_NNANA_SRC = r'''
def get_feature_nn_indices(fm_a, fm_nn, nn_number=1):
    """Get the indices and distances of nearest neighbors for given feature coordinates.

    Parameters
    ----------
    fm_a : cryomotl.Motl
        A motl for which nearest neighbors are to be found.
    fm_nn : cryomotl.Motl
        A motl in which the nearest neighbors will be searched for.
    nn_number : int, default=1
        The number of nearest neighbors to retrieve for each feature. Default is 1.

    Returns
    -------
    ordered_idx : ndarray
        An array of indices corresponding to the ordered features in `fm_a`.
    nn_idx : ndarray
        A 2D array of shape (n_features, nn_count) containing the indices of the nearest neighbors for each feature
        in `fm_a`.
    nn_dist : ndarray
        A 2D array of shape (n_features, nn_count) containing the distances to the nearest neighbors for each feature
        in `fm_a`.
    nn_count : int
        The actual number of nearest neighbors retrieved, which is the minimum of `nn_number` and the number of
        available neighbors.

    Notes
    -----
    This function uses a KDTree for efficient nearest neighbor search.
    """

    coord_a = fm_a.get_coordinates()
    coord_nn = fm_nn.get_coordinates()

    nn_count = min(nn_number, coord_nn.shape[0])
    kdt_nn = sn.KDTree(coord_nn)
    nn_dist, nn_idx = kdt_nn.query(coord_a, k=nn_count)
    ordered_idx = np.arange(0, nn_idx.shape[0], 1)

    return (
        ordered_idx,
        nn_idx.reshape((nn_idx.shape[0], nn_count)),
        nn_dist.reshape((nn_idx.shape[0], nn_count)),
        nn_count,
    )


def get_nn_stats(motl_a, motl_nn, pixel_size=1.0, feature_id="tomo_id", nn_number=1, rotation_type="angular_distance"):
    """For each particle in motl_a, this function computes nn_number nearest neighbors in motl_nn and returns the
    associated data: distance of neighbor to query point, coordinates of nearest neighbors, coordinates of nearest neighbors
    after being rotated with respect to the coordinate frame of the query point, angular distance between query point and
    nearest neighbor, representations of associated rotation via rotated unit vector + Euler angles, subtomogram-id of query point
    of its associated nearest neighbors.

    Parameters
    ----------
    motl_a : cryocat.cryomotl.Motl or str
        Input particle list of query points.
    motl_nn : cryocat.cryomotl.Motl or str
        Input particle list of with nearest neighbors of interest.
    pixel_size : float, default=1.0
        Pixel size. Defaults to 1.0.
    feature_id : str, default='tomo_id'
        Particle list feature to distinguish between subsets of input motls. Defaults to "tomo_id".
    nn_number : int, default=1
        Number of requested nearest neighbors in motl_nn for each particle in motl_a. Defaults to 1.
    rotation_type : str, default='angular_distance'
        For comparison of rotations. Choice between "all", "angular_distance",
        "cone_distance", and "in_plane_distance". Defaults to "angular_distance".

    Returns
    -------
    pandas dataframe
        Contains statistics of nearest neighbors analysis between input particle lists.
    """
    (
        centered_coord,
        rotated_coord,
        nn_dist,
        ang_dst,
        subtomo_idx,
        subtomo_idx_nn,
    ) = get_nn_distances(
        motl_a, motl_nn, nn_number=nn_number, pixel_size=pixel_size, feature=feature_id, rotation_type=rotation_type
    )

    coord_rot, angles = get_nn_rotations(motl_a, motl_nn, feature=feature_id, nn_number=nn_number)

    nn_stats = pd.DataFrame(
        np.hstack(
            (
                nn_dist.reshape((nn_dist.shape[0], 1)),
                centered_coord,
                rotated_coord,
                ang_dst.reshape((nn_dist.shape[0], 1)),
                coord_rot,
                angles,
                subtomo_idx.reshape((nn_dist.shape[0], 1)),
                subtomo_idx_nn.reshape((nn_dist.shape[0], 1)),
            )
        ),
        columns=[
            "distance",
            "coord_x",
            "coord_y",
            "coord_z",
            "coord_rx",
            "coord_ry",
            "coord_rz",
            "angular_distance",
            "rot_x",
            "rot_y",
            "rot_z",
            "phi",
            "theta",
            "psi",
            "subtomo_idx",
            "subtomo_nn_idx",
        ],
    )

    nn_stats["type"] = "nn"

    return nn_stats


def get_nn_distances(motl_a, motl_nn, pixel_size=1.0, nn_number=1, feature="tomo_id", rotation_type="angular_distance"):
    """Get nearest neighbor distances and related information between two sets of particles.

    Parameters
    ----------
    motl_a : str or Motl
        Path to the first motl file or a Motl object containing the first set of particles.
    motl_nn : str or Motl
        Path to the second motl file or a Motl object containing the second set of particles.
    pixel_size : float, default=1.0
        The size of a pixel in the same units as the coordinates. Default is 1.0.
    nn_number : int, default=1
        The number of nearest neighbors to consider. Default is 1.
    feature : str, default='tomo_id'
        The feature to use for splitting the particles. Default is 'tomo_id'.
    rotation_type : str, default='angular_distance'
        The type of rotation distance to compute. Default is 'angular_distance'.

    Returns
    -------
    centered_coord : np.ndarray
        The coordinates of the nearest neighbors centered around the reference particles.
    rotated_coord : np.ndarray
        The coordinates of the nearest neighbors after applying the rotation.
    nn_dist : np.ndarray
        The distances to the nearest neighbors.
    angular_distances : np.ndarray
        The angular distances between the reference particles and their nearest neighbors.
    subtomo_idx : np.ndarray
        The subtomo IDs of the reference motifs.
    subtomo_idx_nn : np.ndarray
        The subtomo IDs of the nearest neighbors.

    Notes
    -----
    This function assumes that the input motifs have angle information and that the
    motl files are compatible with the Motl class. The function will only work with
    the intersection of features present in both motls.
    """

    if isinstance(motl_a, str):
        motl_a = cryomotl.Motl(motl_path=motl_a)

    if isinstance(motl_nn, str):
        motl_nn = cryomotl.Motl(motl_path=motl_nn)

    # Get unique feature idx
    features_a = np.unique(motl_a.df.loc[:, feature].values)
    features_nn = np.unique(motl_nn.df.loc[:, feature].values)

    # Work only with intersection
    features = np.intersect1d(features_a, features_nn, assume_unique=True)

    centered_coord = []
    nn_dist = []
    angular_distances = []
    rotated_coord = []
    subtomo_idx = []
    subtomo_idx_nn = []

    for f in features:
        fm_a = motl_a.get_motl_subset(f, feature_id=feature)
        fm_nn = motl_nn.get_motl_subset(f, feature_id=feature)

        idx, nn_idx, dist, nn_count = get_feature_nn_indices(fm_a, fm_nn, nn_number)

        if len(idx) == 0:
            continue

        coord_nn = fm_nn.get_coordinates() * pixel_size
        coord_a = fm_a.get_coordinates() * pixel_size

        # get angles
        angles_a = fm_a.get_angles()
        angles_a = angles_a[idx, :]
        angles_nn = fm_nn.get_angles()
        rotations = srot.from_euler("zxz", angles=angles_a, degrees=True)

        angles = -fm_a.df[["psi", "theta", "phi"]].values
        angles = angles[idx, :]
        rot = srot.from_euler("zxz", angles=angles, degrees=True)

        subtomos_nn = fm_nn.df["subtomo_id"].to_numpy()
        subtomos_a = fm_a.df["subtomo_id"].to_numpy()

        for i in range(nn_count):
            c_coord = coord_nn[nn_idx[:, i], :] - coord_a[idx, :]
            centered_coord.append(c_coord)
            nn_dist.append(dist[:, i] * pixel_size)

            angles_nn_sel = angles_nn[nn_idx[:, i], :]

            rotations_nn = srot.from_euler("zxz", angles=angles_nn_sel, degrees=True)
            angular_distances.append(geom.compare_rotations(rotations, rotations_nn, rotation_type=rotation_type))

            rotated_coord.append(rot.apply(c_coord))

            subtomo_idx_nn.append(subtomos_nn[nn_idx[:, i]])
            subtomo_idx.append(subtomos_a[idx])

    return (
        np.vstack(centered_coord),
        np.vstack(rotated_coord),
        np.concatenate(nn_dist),
        np.concatenate(angular_distances),
        np.concatenate(subtomo_idx),
        np.concatenate(subtomo_idx_nn),
    )


def get_nn_rotations(motl_a, motl_nn, nn_number=1, feature="tomo_id", type_id="geom1"):
    """Get nearest neighbor rotations based on specified features from two motl objects.

    Parameters
    ----------
    motl_a : str or Motl
        The path to the first motl file or a Motl object containing the first set of data.
    motl_nn : str or Motl
        The path to the second motl file or a Motl object containing the nearest neighbor data.
    nn_number : int, default=1
        The number of nearest neighbors to consider for each feature. Dfault is 1.
    feature : str, default='tomo_id'
        The feature used to identify unique elements in the motl data. Default is 'tomo_id'.
    type_id : str, default='geom1'
        The type identifier for the geometry. Default is 'geom1'.

    Returns
    -------
    points_on_sphere : ndarray
        An array of points on the sphere representing the rotations.
    angles : ndarray
        An array of Euler angles corresponding to the computed rotations in degrees.

    Notes
    -----
    This function assumes that the input motl objects or paths contain the necessary data
    and that the `get_motl_subset` and `get_angles` methods are available for the Motl class.
    """

    if isinstance(motl_a, str):
        motl_a = cryomotl.Motl(motl_path=motl_a)

    if isinstance(motl_nn, str):
        motl_nn = cryomotl.Motl(motl_path=motl_nn)

    # Get unique feature idx
    features_a = np.unique(motl_a.df.loc[:, feature].values)
    features_nn = np.unique(motl_nn.df.loc[:, feature].values)

    # Work only with intersection
    features = np.intersect1d(features_a, features_nn, assume_unique=True)

    nn_rotations = []

    for f in features:
        fm_a = motl_a.get_motl_subset(f, feature_id=feature)
        fm_nn = motl_nn.get_motl_subset(f, feature_id=feature)

        idx, idx_nn, _, nn_count = get_feature_nn_indices(fm_a, fm_nn, nn_number)

        angles_nn = fm_nn.get_angles()
        angles_ref_to_zero = -fm_a.get_feature(["psi", "theta", "phi"])
        rot_to_zero = srot.from_euler("zxz", angles=angles_ref_to_zero[idx, :], degrees=True)

        for i in range(nn_count):
            rot_nn = srot.from_euler("zxz", angles=angles_nn[idx_nn[:, i], :], degrees=True)
            nn_rotations.append(rot_to_zero * rot_nn)

    nn_rotations = srot.concatenate(nn_rotations)
    points_on_sphere = geom.visualize_rotations(nn_rotations, plot_rotations=False)
    angles = nn_rotations.as_euler("zxz", degrees=True)

    return points_on_sphere, angles
'''

ORIG_GET_FEATURE_SRC = r'''
def get_feature(self, feature_id):
    """Returns the values from the column in self.df specified by feature_id.

    Parameters
    ----------
    feature_id : str
        The column name to get the values for.

    Returns
    -------
    numpy.ndarray
        Values corresponding to the feature_id.

    Raises
    ------
    UserInputError
        In case the feature_id is not existing column in self.df dataframe.

    """

    if isinstance(feature_id, str):
        feature_id = [feature_id]

    missing_columns = set(feature_id) - set(self.df.columns)

    if missing_columns:
        raise UserInputError(f"The class Motl does not contain column with name {feature_id}")

    return self.df[feature_id].values  # self.df.loc[:, feature_id].values
'''

_geom_ns = dict(vars(geom))
exec(compile(ORIG_GEOM_SRC, "<orig geom>", "exec"), _geom_ns)
orig_compare_rotations = _geom_ns["compare_rotations"]


class _GeomProxy:
    """geom module as seen by the original nnana functions: compare_rotations is the original one"""

    def __getattr__(self, name):
        if name == "compare_rotations":
            return orig_compare_rotations
        return getattr(geom, name)


_gf_ns = dict(vars(cryomotl))
exec(compile(ORIG_GET_FEATURE_SRC, "<orig get_feature>", "exec"), _gf_ns)
orig_get_feature = _gf_ns["get_feature"]


_nn_ns = dict(vars(nnana))
_nn_ns["geom"] = _GeomProxy()
exec(compile(ORIG_NNANA_SRC, "<orig nnana>", "exec"), _nn_ns)
ORIG = types.SimpleNamespace(**{k: _nn_ns[k] for k in
                                ("get_feature_nn_indices", "get_nn_stats", "get_nn_distances", "get_nn_rotations")})


def call_orig(fn, *args, **kwargs):
    """call an original nnana function with the original Motl.get_feature in place"""
    cur = cryomotl.Motl.get_feature
    cryomotl.Motl.get_feature = orig_get_feature
    try:
        return fn(*args, **kwargs)
    finally:
        cryomotl.Motl.get_feature = cur


# ----------------------------------------------------------------------------------------------------------------
# inputs
# ----------------------------------------------------------------------------------------------------------------
COLS = cryomotl.Motl.motl_columns
POLES = [0.0, 180.0, -180.0, 90.0, -90.0, 360.0]


def make_motl(rng, n, tomos, first_id=1, shifts=True, poles=False, index="default", nan_holes=False, scale=100.0,
              int_like=False):
    """particle list of n rows spread over the given tomogram numbers (every number used when n allows it)"""
    df = pd.DataFrame(0.0, index=np.arange(n), columns=COLS)
    pos = rng.uniform(-scale, scale, size=(n, 3))  # negative coordinates included
    if int_like:
        pos = np.round(pos) + rng.uniform(-1e-3, 1e-3, size=(n, 3))  # nearly on a grid, still no ties
    df[["x", "y", "z"]] = np.round(pos)
    if shifts:
        df[["shift_x", "shift_y", "shift_z"]] = pos - np.round(pos) + rng.integers(-2, 3, size=(n, 3))
    else:
        df[["x", "y", "z"]] = pos
    ang = np.column_stack((rng.uniform(-180, 180, n), rng.uniform(0, 180, n), rng.uniform(-180, 180, n)))
    if poles:
        for r in range(n):
            for c in range(3):
                if rng.random() < 0.5:
                    ang[r, c] = POLES[rng.integers(len(POLES))]
    df["phi"], df["theta"], df["psi"] = ang[:, 0], ang[:, 1], ang[:, 2]
    tomos = np.asarray(tomos, dtype=float)
    t = np.concatenate((tomos[: min(n, len(tomos))], rng.choice(tomos, size=max(0, n - len(tomos)))))
    df["tomo_id"] = rng.permutation(t)
    df["subtomo_id"] = first_id + rng.permutation(n).astype(float) * 3  # not the row number, gaps, unsorted
    df["object_id"] = rng.integers(0, 3, n).astype(float)
    df["class"] = 1.0
    df["score"] = rng.uniform(0, 1, n)
    if nan_holes:  # holes in columns the analysis does not read
        df.loc[df.index[:: 2], "score"] = np.nan
        df.loc[df.index[:: 3], "geom1"] = np.nan
        df["geom5"] = np.nan
    if index == "shuffled":
        df.index = rng.permutation(n) * 7 + 11
    elif index == "reversed":
        df.index = np.arange(n)[::-1]
    elif index == "constant":
        df.index = np.zeros(n, dtype=int) + 5
    return cryomotl.Motl(df)


def positions(m):
    d = m.df
    return d[["x", "y", "z"]].to_numpy(float) + d[["shift_x", "shift_y", "shift_z"]].to_numpy(float)


def orientations(m):
    # R = extrinsic zxz(phi, theta, psi)
    return R.from_euler("zxz", m.df[["phi", "theta", "psi"]].to_numpy(float), degrees=True)


def move_rigidly(rng, m, tomo_motions):
    """new list: every tomogram moved by its own (Q, t): p -> Q p + t, orientation -> Q * orientation"""
    d = m.df.copy()
    p = positions(m)
    o = orientations(m)
    newp = p.copy()
    newang = d[["phi", "theta", "psi"]].to_numpy(float).copy()
    tid = d["tomo_id"].to_numpy()
    for t, (Q, tr) in tomo_motions.items():
        sel = np.flatnonzero(tid == t)
        if len(sel) == 0:
            continue
        newp[sel] = Q.apply(p[sel]) + tr
        newang[sel] = np.atleast_2d((Q * o[sel]).as_euler("zxz", degrees=True))
    new_shift = rng.uniform(-1, 1, size=newp.shape)  # shifts need not be carried along, only complete positions count
    d[["shift_x", "shift_y", "shift_z"]] = new_shift
    d[["x", "y", "z"]] = newp - new_shift
    d["phi"], d["theta"], d["psi"] = newang[:, 0], newang[:, 1], newang[:, 2]
    return cryomotl.Motl(d)


# ----------------------------------------------------------------------------------------------------------------
# independent computation
# ----------------------------------------------------------------------------------------------------------------
def brute_force(ma, mb, k, pixel_size):
    """rows in the order of the table: tomograms ascending, then neighbour rank, then query particles by row"""
    pa, pb = positions(ma), positions(mb)
    oa, ob = orientations(ma), orientations(mb)
    ta, tb = ma.df["tomo_id"].to_numpy(), mb.df["tomo_id"].to_numpy()
    sa, sb = ma.df["subtomo_id"].to_numpy(), mb.df["subtomo_id"].to_numpy()
    rows = []
    min_gap = np.inf
    for t in sorted(set(ta.tolist()) & set(tb.tolist())):
        ia, ib = np.flatnonzero(ta == t), np.flatnonzero(tb == t)
        dmat = np.sqrt(((pa[ia][:, None, :] - pb[ib][None, :, :]) ** 2).sum(axis=2))
        order = np.argsort(dmat, axis=1, kind="stable")
        if len(ib) > 1:
            srt = np.sort(dmat, axis=1)
            min_gap = min(min_gap, np.min(np.diff(srt[:, : min(k + 1, len(ib))], axis=1)))
        for rank in range(min(k, len(ib))):
            for q, qa in enumerate(ia):
                nb = ib[order[q, rank]]
                off = (pb[nb] - pa[qa]) * pixel_size
                inv = oa[int(qa)].inv()
                rel = inv * ob[int(nb)]
                rows.append(dict(distance=dmat[q, order[q, rank]] * pixel_size, off=off, roff=inv.apply(off),
                                 ang=np.degrees(rel.magnitude()), rel=rel, sa=sa[qa], sb=sb[nb]))
    return rows, min_gap


def rel_from_table(tab):
    return R.from_euler("zxz", tab[["phi", "theta", "psi"]].to_numpy(float), degrees=True)


def check_against_brute_force(tab, rows, pixel_size, what):
    assert list(tab.columns) == ["distance", "coord_x", "coord_y", "coord_z", "coord_rx", "coord_ry", "coord_rz",
                                 "angular_distance", "rot_x", "rot_y", "rot_z", "phi", "theta", "psi", "subtomo_idx",
                                 "subtomo_nn_idx", "type"], (what, list(tab.columns))
    assert len(tab) == len(rows), (what, len(tab), len(rows))
    assert (tab["type"] == "nn").all(), what
    assert list(tab.index) == list(range(len(rows))), what
    tol = 1e-7 * max(1.0, pixel_size) * 400
    exp = lambda key: np.array([r[key] for r in rows])
    assert np.array_equal(tab["subtomo_idx"].to_numpy(), exp("sa")), what + ": query subtomogram numbers"
    assert np.array_equal(tab["subtomo_nn_idx"].to_numpy(), exp("sb")), what + ": neighbour subtomogram numbers"
    assert np.allclose(tab["distance"].to_numpy(), exp("distance"), rtol=1e-9, atol=tol), what + ": distance"
    assert np.allclose(tab[["coord_x", "coord_y", "coord_z"]].to_numpy(), exp("off"), rtol=1e-9, atol=tol), what
    assert np.allclose(tab[["coord_rx", "coord_ry", "coord_rz"]].to_numpy(), exp("roff"), rtol=1e-9, atol=tol), what
    assert np.allclose(tab["angular_distance"].to_numpy(), exp("ang"), atol=2e-5), what + ": angular distance"
    rel_exp = R.concatenate([r["rel"] for r in rows])
    rel_tab = rel_from_table(tab)
    assert np.all((rel_exp.inv() * rel_tab).magnitude() < 1e-6), what + ": relative orientation"
    assert np.allclose(tab[["rot_x", "rot_y", "rot_z"]].to_numpy(), rel_exp.apply([0.0, 0.0, 1.0]), atol=1e-7), what


def check_invariance(tab, tab_moved, pixel_size, what):
    tol = 1e-6 * max(1.0, pixel_size) * 400
    assert len(tab) == len(tab_moved), what
    for c in ("subtomo_idx", "subtomo_nn_idx"):
        assert np.array_equal(tab[c].to_numpy(), tab_moved[c].to_numpy()), what + ": " + c
    for c in ("distance", "coord_rx", "coord_ry", "coord_rz"):
        assert np.allclose(tab[c].to_numpy(), tab_moved[c].to_numpy(), rtol=1e-8, atol=tol), what + ": " + c
    assert np.allclose(tab["angular_distance"].to_numpy(), tab_moved["angular_distance"].to_numpy(), atol=5e-4), what
    assert np.allclose(tab[["rot_x", "rot_y", "rot_z"]].to_numpy(), tab_moved[["rot_x", "rot_y", "rot_z"]].to_numpy(),
                       atol=1e-6), what
    assert np.all((rel_from_table(tab).inv() * rel_from_table(tab_moved)).magnitude() < 1e-5), what


def same_table(t1, t2, what):
    """patched == original, value by value (no tolerance), same labels, same dtypes"""
    assert list(t1.columns) == list(t2.columns), what
    assert t1.columns.equals(t2.columns) and t1.index.equals(t2.index), what
    assert (t1.dtypes == t2.dtypes).all(), what
    for c in t1.columns:
        a, b = t1[c].to_numpy(), t2[c].to_numpy()
        if a.dtype.kind == "f":
            assert np.array_equal(a, b, equal_nan=True), what + ": " + c
        else:
            assert list(a) == list(b), what + ": " + c


def same_arrays(r1, r2, what):
    assert type(r1) is type(r2), what
    if isinstance(r1, (tuple, list)):
        assert len(r1) == len(r2), what
        for x, y in zip(r1, r2):
            same_arrays(x, y, what)
    elif isinstance(r1, np.ndarray):
        assert r1.dtype == r2.dtype and r1.shape == r2.shape and np.array_equal(r1, r2, equal_nan=True), what
    else:
        assert r1 == r2, what


def outcome(fn, *args, **kwargs):
    """('ok', value) or ('raise', exception type, message)"""
    try:
        return ("ok", fn(*args, **kwargs))
    except Exception as e:  # noqa
        return ("raise", type(e), str(e))


# ----------------------------------------------------------------------------------------------------------------
# the property, over many inputs
# ----------------------------------------------------------------------------------------------------------------
def random_motion(rng):
    kind = rng.integers(4)
    if kind == 0:
        Q = R.random(random_state=int(rng.integers(1 << 30)))
    elif kind == 1:
        Q = R.from_euler("zxz", [POLES[rng.integers(len(POLES))], POLES[rng.integers(len(POLES))], 37.0], degrees=True)
    elif kind == 2:
        Q = R.identity()
    else:
        Q = R.from_rotvec(rng.normal(size=3) * 1e-3)
    return Q, rng.uniform(-500, 500, size=3) * (0 if rng.random() < 0.15 else 1)


def one_case(rng, na, nb, tomos_a, tomos_b, k, pixel_size, coincident=False, **mk):
    ma = make_motl(rng, na, tomos_a, **mk)
    mb = ma if coincident else make_motl(rng, nb, tomos_b, first_id=1000, **mk)
    what = f"na={na} nb={nb} ta={tomos_a} tb={tomos_b} k={k} px={pixel_size} coincident={coincident} {mk}"
    rows, gap = brute_force(ma, mb, k, pixel_size)
    if gap < 1e-6:  # distance ties are outside the statement
        return 0
    before_a, before_b = ma.df.copy(), mb.df.copy()
    if not rows:  # no common tomogram: nothing to report (the functions raise, both versions alike)
        o1 = outcome(nnana.get_nn_stats, ma, mb, pixel_size=pixel_size, nn_number=k)
        o2 = outcome(call_orig, ORIG.get_nn_stats, ma, mb, pixel_size=pixel_size, nn_number=k)
        assert o1[0] == "raise" and o1 == o2, (what, o1, o2)
        return 1
    tab = nnana.get_nn_stats(ma, mb, pixel_size=pixel_size, nn_number=k)
    check_against_brute_force(tab, rows, pixel_size, what)
    # repeated call on the same objects: same table, inputs untouched
    tab2 = nnana.get_nn_stats(ma, mb, pixel_size=pixel_size, nn_number=k)
    same_table(tab, tab2, what + " (second call)")
    pd.testing.assert_frame_equal(ma.df, before_a)
    pd.testing.assert_frame_equal(mb.df, before_b)
    # original functions on the same inputs
    same_table(tab, call_orig(ORIG.get_nn_stats, ma, mb, pixel_size=pixel_size, nn_number=k), what + " (vs original)")
    for rt in ("angular_distance", "cone_distance", "in_plane_distance"):
        same_arrays(nnana.get_nn_distances(ma, mb, pixel_size, k, "tomo_id", rt),
                    call_orig(ORIG.get_nn_distances, ma, mb, pixel_size, k, "tomo_id", rt), what + " distances " + rt)
    same_arrays(nnana.get_nn_rotations(ma, mb, k), call_orig(ORIG.get_nn_rotations, ma, mb, k), what + " rotations")
    # rigid motion of every tomogram (its own Q, t), applied to both lists
    motions = {t: random_motion(rng) for t in set(tomos_a) | set(tomos_b)}
    ma2 = move_rigidly(rng, ma, motions)
    mb2 = ma2 if coincident else move_rigidly(rng, mb, motions)
    tab_m = nnana.get_nn_stats(ma2, mb2, pixel_size=pixel_size, nn_number=k)
    check_invariance(tab, tab_m, pixel_size, what + " (moved)")
    rows_m, gap_m = brute_force(ma2, mb2, k, pixel_size)
    if gap_m > 1e-6:
        check_against_brute_force(tab_m, rows_m, pixel_size, what + " (moved, brute force)")
    return 1


def run_property(seed=2024, n_random=140):
    rng = np.random.default_rng(seed)
    done = 0
    # edge cases: single rows, k larger than the candidate list, exactly as large, disjoint / partly disjoint
    # tomogram sets, coincident lists, tomogram number 0, poles of the Euler angles, odd row labels, NaN holes
    edge = [
        dict(na=1, nb=1, tomos_a=[1], tomos_b=[1], k=1, pixel_size=1.0),
        dict(na=1, nb=1, tomos_a=[1], tomos_b=[1], k=5, pixel_size=2.5),
        dict(na=1, nb=7, tomos_a=[3], tomos_b=[3], k=3, pixel_size=0.5),
        dict(na=7, nb=1, tomos_a=[3], tomos_b=[3], k=3, pixel_size=13.7),
        dict(na=6, nb=3, tomos_a=[0], tomos_b=[0], k=3, pixel_size=1.0),  # k exactly the number of candidates
        dict(na=6, nb=3, tomos_a=[0], tomos_b=[0], k=4, pixel_size=1.0),  # one more
        dict(na=6, nb=3, tomos_a=[0], tomos_b=[0], k=2, pixel_size=1.0),  # one less
        dict(na=5, nb=5, tomos_a=[1, 2], tomos_b=[3, 4], k=2, pixel_size=1.0),  # disjoint
        dict(na=9, nb=9, tomos_a=[1, 2, 5], tomos_b=[2, 5, 7], k=2, pixel_size=1.0),  # partly disjoint
        dict(na=9, nb=8, tomos_a=[0, 1, 2, 3], tomos_b=[3, 0], k=5, pixel_size=3.3),
        dict(na=1, nb=1, tomos_a=[1], tomos_b=[1], k=1, pixel_size=1.0, coincident=True),
        dict(na=12, nb=12, tomos_a=[1, 2], tomos_b=[1, 2], k=3, pixel_size=2.0, coincident=True),
        dict(na=12, nb=12, tomos_a=[4], tomos_b=[4], k=5, pixel_size=1e-3, coincident=True, poles=True),
        dict(na=10, nb=11, tomos_a=[1, 2], tomos_b=[1, 2], k=2, pixel_size=1.0, poles=True),
        dict(na=10, nb=11, tomos_a=[1, 2], tomos_b=[1, 2], k=2, pixel_size=7.0, index="shuffled"),
        dict(na=10, nb=11, tomos_a=[1, 2], tomos_b=[2, 1], k=4, pixel_size=1.0, index="reversed"),
        dict(na=10, nb=11, tomos_a=[1, 2], tomos_b=[1, 2], k=2, pixel_size=1.0, index="constant"),
        dict(na=10, nb=11, tomos_a=[1, 2], tomos_b=[1, 2], k=2, pixel_size=1.0, nan_holes=True),
        dict(na=10, nb=11, tomos_a=[1, 2], tomos_b=[1, 2], k=2, pixel_size=1.0, shifts=False),
        dict(na=20, nb=20, tomos_a=[1], tomos_b=[1], k=3, pixel_size=1.0, int_like=True),
        dict(na=200, nb=200, tomos_a=[1, 2, 3, 4], tomos_b=[1, 2, 3, 4], k=5, pixel_size=1.35),
        dict(na=200, nb=1, tomos_a=[9], tomos_b=[9], k=5, pixel_size=1.35),
    ]
    for e in edge:
        for _ in range(2):
            done += one_case(rng, **e)
    for _ in range(n_random):
        nt = int(rng.integers(1, 5))
        pool = list(rng.choice(np.arange(0, 8), size=nt + 2, replace=False))
        tomos_a = [int(x) for x in rng.choice(pool, size=int(rng.integers(1, min(4, len(pool)) + 1)), replace=False)]
        tomos_b = [int(x) for x in rng.choice(pool, size=int(rng.integers(1, min(4, len(pool)) + 1)), replace=False)]
        na = int(rng.choice([1, 2, 3, 5, 17, 60, 200]))
        nb = int(rng.choice([1, 2, 3, 4, 5, 6, 17, 60, 200]))
        done += one_case(rng, na, nb, tomos_a, tomos_b, k=int(rng.integers(1, 6)),
                         pixel_size=float(rng.choice([1.0, 0.37, 2.0, 13.48, 1e-2])),
                         coincident=bool(rng.random() < 0.2), poles=bool(rng.random() < 0.3),
                         index=str(rng.choice(["default", "shuffled", "reversed"])),
                         nan_holes=bool(rng.random() < 0.3), shifts=bool(rng.random() < 0.8))
    return done


# ----------------------------------------------------------------------------------------------------------------
# change c: Motl.get_feature asks the table and translates its KeyError instead of comparing sets of names first
# ----------------------------------------------------------------------------------------------------------------
def run_get_feature(seed=3):
    rng = np.random.default_rng(seed)
    n_checked = 0
    motls = [
        make_motl(rng, 1, [1]),
        make_motl(rng, 7, [1, 2], index="shuffled", nan_holes=True),
        make_motl(rng, 30, [0, 5, 6], index="constant", poles=True),
        cryomotl.Motl(),  # empty list
        make_motl(rng, 4, [2]).get_motl_subset(99),  # empty subset
    ]
    # same columns in another order (the constructor accepts any order)
    m = make_motl(rng, 9, [1, 3])
    motls.append(cryomotl.Motl(m.df[list(rng.permutation(COLS))].copy()))
    good = list(COLS) + [["psi", "theta", "phi"], ["phi", "theta", "psi"], ["x", "y", "z"], list(COLS), list(COLS[::-1]),
                         ["phi", "phi"], [], ["tomo_id"], np.array(["x", "shift_x"]), pd.Index(["score", "class"]),
                         np.str_("subtomo_id"), [np.str_("geom1"), "geom2"]]
    bad = ["", "X", "x ", " x", "Phi", "tomo", "tomo_id,x", "psi theta", ["psi", "theta", "Phi"], ["nope"],
           ["nope", "x"], ["x", "nope"], ["x", ""], ["a", "b", "c"], np.array(["x", "nope"]), pd.Index(["nope"]),
           [0], [None], [1.5], ["x", 0], [("x", "y")], [float("nan")]]
    for m in motls:
        before = m.df.copy()
        for fid in good:
            new, old = m.get_feature(fid), orig_get_feature(m, fid)
            assert type(new) is type(old) and new.dtype == old.dtype and new.shape == old.shape, fid
            assert np.array_equal(new, old, equal_nan=True), fid
            if isinstance(fid, str):
                assert new.shape == (len(m.df), 1)
                assert np.array_equal(new[:, 0], m.df[str(fid)].to_numpy(), equal_nan=True)
            n_checked += 1
        for fid in bad:
            o_new, o_old = outcome(m.get_feature, fid), outcome(orig_get_feature, m, fid)
            assert o_new[0] == "raise" and o_new[1] is UserInputError, (fid, o_new)
            assert o_new == o_old, (fid, o_new, o_old)  # same exception type, same message
            shown = [fid] if isinstance(fid, str) else fid
            assert o_new[2] == f"The class Motl does not contain column with name {shown}", o_new
            n_checked += 1
        # a missing name is never answered with a substitute column, a present one never rejected
        for name in COLS:
            assert m.get_feature(name).shape[1] == 1
            for wrong in (name + "_", name.upper(), name[:-1]):
                if wrong not in COLS:
                    assert outcome(m.get_feature, wrong)[1] is UserInputError
        pd.testing.assert_frame_equal(m.df, before)  # reading does not touch the list
    # the reading used by the analysis: negated (psi, theta, phi) of a per-tomogram subset, any row labels
    for index in ("default", "shuffled", "reversed", "constant"):
        m = make_motl(rng, 25, [1, 2, 3], index=index, poles=True)
        for t in (1, 2, 3, 4):
            sub = m.get_motl_subset(t)
            a_new, a_old = -sub.get_feature(["psi", "theta", "phi"]), -orig_get_feature(sub, ["psi", "theta", "phi"])
            assert np.array_equal(a_new, a_old) and a_new.shape == (len(sub.df), 3)
            assert np.array_equal(a_new, -sub.df[["psi", "theta", "phi"]].to_numpy())
            n_checked += 1
    return n_checked


if __name__ == "__main__":
    n1 = run_get_feature()
    n2 = run_property()
    print(f"Motl.get_feature: {n1} calls identical to the original (values, exception type and message); "
          f"{n2} particle-list pairs: brute force, rigid motion, original functions")
    print("PASS")
