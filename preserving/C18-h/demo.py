import os
import sys

sys.path.insert(0, os.getcwd())

import warnings

warnings.filterwarnings("ignore")

import numpy as np
import pandas as pd
from scipy.spatial.transform import Rotation as R

import matplotlib

matplotlib.use("Agg")

from cryocat import cryomotl, nnana, geom

FAILS = []


def check(cond, msg):
    if not cond:
        FAILS.append(msg)
        if len(FAILS) < 20:
            print("FAIL:", msg)


COLS = list(cryomotl.Motl.motl_columns)


def random_angles(rng, n, poles):
    ang = np.column_stack(
        (rng.uniform(-180, 180, n), rng.uniform(0, 180, n), rng.uniform(-180, 180, n))
    )
    if poles and n > 0:
        # poles of the zxz Euler angles and axis-aligned values
        k = rng.integers(0, n, size=max(1, n // 4))
        ang[k, 1] = rng.choice([0.0, 180.0], size=k.size)
        k = rng.integers(0, n, size=max(1, n // 6))
        ang[k, 0] = rng.choice([0.0, 90.0, -90.0, 180.0], size=k.size)
        k = rng.integers(0, n, size=max(1, n // 6))
        ang[k, 2] = rng.choice([0.0, 90.0, -180.0], size=k.size)
    return ang


def make_df(rng, n, tomos, poles=False, shifts=True, index="default", nan_holes=True, negative=True, start_id=1):
    df = pd.DataFrame(0.0, index=np.arange(n), columns=COLS)
    lo = -300.0 if negative else 0.0
    df[["x", "y", "z"]] = np.round(rng.uniform(lo, 300.0, (n, 3)))
    if shifts:
        df[["shift_x", "shift_y", "shift_z"]] = rng.uniform(-3, 3, (n, 3))
    df["tomo_id"] = rng.choice(np.asarray(tomos, dtype=float), size=n)
    df["object_id"] = rng.integers(1, 5, n).astype(float)
    df["subtomo_id"] = (start_id + rng.permutation(n)).astype(float)
    df["class"] = 1.0
    df[["phi", "theta", "psi"]] = random_angles(rng, n, poles)
    df["score"] = rng.uniform(-1, 1, n)
    if nan_holes and n > 0:
        df.loc[rng.integers(0, n, size=max(1, n // 5)), "score"] = np.nan
        df.loc[rng.integers(0, n, size=max(1, n // 5)), "geom3"] = np.nan
    if index == "shuffled":
        df.index = rng.permutation(n) * 3 + 7
    elif index == "offset":
        df.index = np.arange(n) + 1000
    elif index == "duplicated":
        df.index = np.zeros(n, dtype=int)
    return df


def positions(df):
    return df[["x", "y", "z"]].to_numpy(dtype=float) + df[["shift_x", "shift_y", "shift_z"]].to_numpy(dtype=float)


def orientations(df):
    return R.from_euler("zxz", df[["phi", "theta", "psi"]].to_numpy(dtype=float), degrees=True)


def brute_force(df_a, df_b, k, pixel_size):
    """Independent computation of the rows of the table: explicit distance matrix, explicit matrices."""
    rows = []
    ta = sorted(set(df_a["tomo_id"].tolist()))
    tb = set(df_b["tomo_id"].tolist())
    for t in ta:
        if t not in tb:
            continue
        a = df_a[df_a["tomo_id"].to_numpy() == t]
        b = df_b[df_b["tomo_id"].to_numpy() == t]
        pa, pb = positions(a), positions(b)
        Ma = orientations(a).as_matrix()
        Mb = orientations(b).as_matrix()
        ida, idb = a["subtomo_id"].to_numpy(), b["subtomo_id"].to_numpy()
        d = np.sqrt(((pa[:, None, :] - pb[None, :, :]) ** 2).sum(axis=2))
        kk = min(k, pb.shape[0])
        order = np.argsort(d, axis=1, kind="stable")
        for j in range(kk):
            for i in range(pa.shape[0]):
                n = order[i, j]
                off = (pb[n] - pa[i]) * pixel_size
                rel = Ma[i].T @ Mb[n]
                ang = np.degrees(np.arccos(np.clip((np.trace(rel) - 1.0) / 2.0, -1.0, 1.0)))
                rows.append(
                    dict(
                        distance=d[i, n] * pixel_size,
                        off=off,
                        roff=Ma[i].T @ off,
                        ang=ang,
                        rel=rel,
                        sid=ida[i],
                        nid=idb[n],
                        gap=(np.diff(np.sort(d[i])).min() if pb.shape[0] > 1 else np.inf),
                    )
                )
    return rows


def check_against_brute_force(stats, rows, tag):
    check(stats.shape[0] == len(rows), f"{tag}: {stats.shape[0]} rows, expected {len(rows)}")
    if stats.shape[0] != len(rows) or len(rows) == 0:
        return
    check((stats["type"] == "nn").all(), f"{tag}: type column")
    dist = np.array([r["distance"] for r in rows])
    off = np.array([r["off"] for r in rows])
    roff = np.array([r["roff"] for r in rows])
    ang = np.array([r["ang"] for r in rows])
    rel = np.array([r["rel"] for r in rows])
    check(np.allclose(stats["distance"].to_numpy(), dist, rtol=1e-9, atol=1e-8), f"{tag}: distance")
    check(np.array_equal(stats["subtomo_idx"].to_numpy(), np.array([r["sid"] for r in rows])), f"{tag}: subtomo_idx")
    check(np.array_equal(stats["subtomo_nn_idx"].to_numpy(), np.array([r["nid"] for r in rows])), f"{tag}: nn id")
    check(np.allclose(stats[["coord_x", "coord_y", "coord_z"]].to_numpy(), off, atol=1e-7), f"{tag}: offset")
    check(np.allclose(stats[["coord_rx", "coord_ry", "coord_rz"]].to_numpy(), roff, atol=1e-6), f"{tag}: frame offset")
    # arccos near 0 / 180 is ill conditioned: 1e-5 degrees
    check(np.allclose(stats["angular_distance"].to_numpy(), ang, atol=2e-5), f"{tag}: angular distance")
    got_rel = R.from_euler("zxz", stats[["phi", "theta", "psi"]].to_numpy(), degrees=True).as_matrix()
    check(np.allclose(got_rel, rel, atol=1e-7), f"{tag}: relative orientation (angles)")
    check(np.allclose(stats[["rot_x", "rot_y", "rot_z"]].to_numpy(), rel[:, :, 2], atol=1e-7), f"{tag}: rotated z axis")


def rigid_move(df, Q, t_by_tomo, rng):
    out = df.copy()
    p = positions(df)
    newp = Q.apply(p) if len(df) else p
    for tomo, t in t_by_tomo.items():
        m = df["tomo_id"].to_numpy() == tomo
        newp[m] = newp[m] + t
    # keep a non-zero shift part in the moved list as well
    sh = rng.uniform(-2, 2, p.shape)
    out[["x", "y", "z"]] = newp - sh
    out[["shift_x", "shift_y", "shift_z"]] = sh
    if len(df):
        out[["phi", "theta", "psi"]] = (Q * orientations(df)).as_euler("zxz", degrees=True)
    return out


def check_invariance(s0, s1, tag):
    check(s0.shape == s1.shape, f"{tag}: shapes {s0.shape} {s1.shape}")
    if s0.shape != s1.shape or s0.shape[0] == 0:
        return
    for c in ["subtomo_idx", "subtomo_nn_idx"]:
        check(np.array_equal(s0[c].to_numpy(), s1[c].to_numpy()), f"{tag}: {c} changed by rigid motion")
    scale = 1.0 + np.abs(s0["distance"].to_numpy()).max()
    check(np.allclose(s0["distance"], s1["distance"], rtol=1e-9, atol=1e-9 * scale), f"{tag}: distance not invariant")
    a0 = s0[["coord_rx", "coord_ry", "coord_rz"]].to_numpy()
    a1 = s1[["coord_rx", "coord_ry", "coord_rz"]].to_numpy()
    check(np.allclose(a0, a1, atol=1e-8 * scale), f"{tag}: frame offset not invariant")
    check(np.allclose(s0["angular_distance"], s1["angular_distance"], atol=2e-5), f"{tag}: angular distance not invariant")
    r0 = R.from_euler("zxz", s0[["phi", "theta", "psi"]].to_numpy(), degrees=True).as_matrix()
    r1 = R.from_euler("zxz", s1[["phi", "theta", "psi"]].to_numpy(), degrees=True).as_matrix()
    check(np.allclose(r0, r1, atol=1e-7), f"{tag}: relative orientation not invariant")
    check(
        np.allclose(s0[["rot_x", "rot_y", "rot_z"]].to_numpy(), s1[["rot_x", "rot_y", "rot_z"]].to_numpy(), atol=1e-7),
        f"{tag}: rotated z axis not invariant",
    )


def one_case(rng, case, na, nb, tomos_a, tomos_b, k, pixel, coincident=False, **kw):
    df_a = make_df(rng, na, tomos_a, **kw)
    if coincident:
        df_b = df_a.copy()
    else:
        df_b = make_df(rng, nb, tomos_b, start_id=5000, **kw)
    tag = f"case {case} (na={na}, nb={nb}, k={k}, px={pixel:.3g})"
    shared = set(df_a["tomo_id"]) & set(df_b["tomo_id"])
    ma, mb = cryomotl.Motl(df_a.copy()), cryomotl.Motl(df_b.copy())
    keep_a, keep_b = ma.df.copy(), mb.df.copy()
    if not shared:
        # disjoint tomogram sets: no row can be reported (the library has nothing to stack)
        try:
            s = nnana.get_nn_stats(ma, mb, pixel_size=pixel, nn_number=k)
            check(s.shape[0] == 0, f"{tag}: rows reported for disjoint tomograms")
        except ValueError:
            pass
        return 0
    stats = nnana.get_nn_stats(ma, mb, pixel_size=pixel, nn_number=k)
    rows = brute_force(df_a, df_b, k, pixel)
    if rows and min(r["gap"] for r in rows) < 1e-6:
        return 0  # distance tie: outside the quantifier
    check_against_brute_force(stats, rows, tag)
    # ascending order of the k neighbours of every particle
    if len(rows):
        for t, grp in stats.groupby(stats["subtomo_idx"]):
            d = grp["distance"].to_numpy()
            check(np.all(np.diff(d) >= 0), f"{tag}: neighbours of {t} not ascending")
    # the inputs are not modified and a repeated call gives the same table
    check(ma.df.equals(keep_a) and mb.df.equals(keep_b), f"{tag}: input lists modified")
    again = nnana.get_nn_stats(ma, mb, pixel_size=pixel, nn_number=k)
    check(again.equals(stats), f"{tag}: repeated call differs")
    # rigid motion of every tomogram: one rotation Q, one translation per tomogram
    Q = R.random(random_state=int(rng.integers(0, 2**31 - 1)))
    if case % 7 == 0:
        Q = R.from_euler("zxz", [90.0, 180.0, 0.0], degrees=True)
    t_by_tomo = {t: rng.uniform(-500, 500, 3) for t in set(df_a["tomo_id"]) | set(df_b["tomo_id"])}
    mv_a = rigid_move(df_a, Q, t_by_tomo, rng)
    mv_b = rigid_move(df_b, Q, t_by_tomo, rng)
    moved = nnana.get_nn_stats(cryomotl.Motl(mv_a), cryomotl.Motl(mv_b), pixel_size=pixel, nn_number=k)
    check_invariance(stats, moved, tag + " moved")
    return len(rows)


def run_property(seed=20240918, n_random=70):
    rng = np.random.default_rng(seed)
    total = 0
    case = 0
    # edge cases first
    edge = [
        dict(na=1, nb=1, tomos_a=[1], tomos_b=[1], k=1),
        dict(na=1, nb=1, tomos_a=[1], tomos_b=[1], k=5),
        dict(na=1, nb=7, tomos_a=[3], tomos_b=[3], k=3),
        dict(na=9, nb=1, tomos_a=[2], tomos_b=[2], k=2),
        dict(na=6, nb=6, tomos_a=[1, 2], tomos_b=[3, 4], k=2),  # disjoint
        dict(na=30, nb=3, tomos_a=[1, 2, 3], tomos_b=[2, 3, 7], k=5),
        dict(na=200, nb=200, tomos_a=[1, 2, 3, 4], tomos_b=[1, 2, 3, 4], k=5),
        dict(na=40, nb=40, tomos_a=[1, 2], tomos_b=[1, 2], k=4, coincident=True),
        dict(na=12, nb=15, tomos_a=[5], tomos_b=[5], k=1, poles=True, index="shuffled"),
        dict(na=12, nb=15, tomos_a=[5, 9], tomos_b=[5, 9], k=3, poles=True, index="duplicated"),
        dict(na=25, nb=4, tomos_a=[1, 2], tomos_b=[1, 2], k=5, shifts=False, index="offset"),
    ]
    for e in edge:
        case += 1
        total += one_case(rng, case, pixel=float(rng.choice([1.0, 0.5, 2.17, 13.3])), **e)
    for _ in range(n_random):
        case += 1
        nt = int(rng.integers(1, 5))
        pool = list(rng.choice(np.arange(1, 12), size=nt + 2, replace=False))
        tomos_a = pool[:nt]
        tomos_b = pool[int(rng.integers(0, 3)) :][:nt] if rng.random() < 0.5 else tomos_a
        total += one_case(
            rng,
            case,
            na=int(rng.integers(1, 201)),
            nb=int(rng.integers(1, 201)),
            tomos_a=[float(t) for t in tomos_a],
            tomos_b=[float(t) for t in tomos_b],
            k=int(rng.integers(1, 6)),
            pixel=float(np.exp(rng.uniform(-3, 3))),
            coincident=rng.random() < 0.15,
            poles=rng.random() < 0.5,
            shifts=rng.random() < 0.8,
            index=str(rng.choice(["default", "shuffled", "offset", "duplicated"])),
            nan_holes=rng.random() < 0.5,
            negative=rng.random() < 0.5,
        )
    return total, case


def finish(extra=""):
    if FAILS:
        print(f"FAIL ({len(FAILS)} failed checks)")
        sys.exit(1)
    print("PASS " + extra)
    sys.exit(0)


# ----------------------------------------------------------------------------------------------------------------
# helper under change: Motl.get_motl_subset -- text of the original kept here and compared with the library's
# ----------------------------------------------------------------------------------------------------------------
def original_get_motl_subset(self, feature_values, feature_id="tomo_id", return_df=False, reset_index=True):
    Motl = cryomotl.Motl
    if isinstance(feature_values, (list, np.ndarray)):
        feature_values = np.atleast_1d(np.array(feature_values))  # a 0-d array is one value
    else:
        feature_values = np.array([feature_values])

    new_df = Motl.create_empty_motl_df()
    for i in feature_values:
        df_i = self.df.loc[self.df[feature_id] == i].copy()
        new_df = pd.concat([new_df, df_i])

    if reset_index:
        new_df = new_df.reset_index(drop=True)

    if return_df:
        return new_df
    else:
        return Motl(motl_df=new_df)


def same_frame(a, b):
    return (
        list(a.columns) == list(b.columns)
        and a.dtypes.astype(str).tolist() == b.dtypes.astype(str).tolist()
        and a.index.equals(b.index)
        and a.index.dtype == b.index.dtype
        and a.shape == b.shape
        and a.equals(b)
    )


def compare_helper(seed=7):
    rng = np.random.default_rng(seed)
    n_cmp = 0
    for rep in range(60):
        n = int(rng.integers(0, 60)) if rep else 0
        df = make_df(
            rng,
            n,
            [1.0, 2.0, 3.0, 4.0],
            poles=bool(rep % 2),
            index=["default", "shuffled", "offset", "duplicated"][rep % 4],
            nan_holes=bool(rep % 3),
        )
        variant = rep % 5
        if variant == 1:  # integer id columns, as produced by some readers
            df = df.astype({"tomo_id": int, "subtomo_id": int, "object_id": int, "class": int})
        elif variant == 2:  # columns in another order (accepted by the constructor)
            df = df[list(rng.permutation(COLS))]
        elif variant == 3:
            df = df.astype({"x": np.float32, "score": np.float32, "geom1": int})
        m = cryomotl.Motl(df)
        keep = m.df.copy()
        requests = [1.0, 2, np.float64(3.0), np.int64(4), 9.0, [1.0], [2.0, 1.0], [3, 3], [4.0, 9.0, 1.0], [], [9.0]]
        for fv in requests:
            for feature_id in ["tomo_id", "object_id"]:
                for reset in (True, False):
                    exp = original_get_motl_subset(m, fv, feature_id=feature_id, return_df=True, reset_index=reset)
                    got = m.get_motl_subset(fv, feature_id=feature_id, return_df=True, reset_index=reset)
                    check(same_frame(exp, got), f"get_motl_subset differs: rep {rep} values {fv!r} {feature_id} reset={reset}")
                    got_m = m.get_motl_subset(fv, feature_id=feature_id, reset_index=reset)
                    check(isinstance(got_m, cryomotl.Motl) and same_frame(exp, got_m.df), f"Motl result differs: rep {rep} {fv!r}")
                    # the result never shares memory with the source list
                    if got.shape[0]:
                        got.iloc[0, got.columns.get_loc("x")] = -12345.0
                    n_cmp += 1
        check(m.df.equals(keep), f"rep {rep}: source list modified by get_motl_subset")
    return n_cmp


if __name__ == "__main__":
    n_cmp = compare_helper()
    total, cases = run_property()
    finish(f"({cases} list pairs, {total} neighbour rows checked against brute force and under rigid motion; "
           f"{n_cmp} get_motl_subset calls equal to the original helper)")
