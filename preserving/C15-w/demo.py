import sys, os

sys.path.insert(0, os.getcwd())

# Property C15: tilt-stack operations are lossless selections / permutations of tilt images, independent of the axis
# order of the input / output and of array vs. file input; the written file holds the result.
#
# The demo (1) checks every operation against an independent numpy computation, (2) compares the functions of the
# tree with verbatim copies of the ORIGINAL function texts (kept below) on the same inputs, (3) checks that the
# caller's arrays / lists / files are left untouched and that a repeated call gives the same answer.

import contextlib
import hashlib
import io
import itertools
import shutil
import tempfile

import mrcfile
import numpy as np

from cryocat import tiltstack

CHANGED = ["split_stack_even_odd", "merge"]  # functions touched by this change; originals below

ORIGINALS = r'''
def crop(tilt_stack, new_width=None, new_height=None, output_file=None, input_order="xyz", output_order="xyz"):
    print(f"Cropping of the tilt stack started...")

    ts = TiltStack(tilt_stack=tilt_stack, input_order=input_order, output_order=output_order)

    if new_width is not None:
        new_width = int(new_width)
        if new_width > ts.width:
            raise ValueError(f"new_width cannot be greater than ts.width ({ts.width})")
    else:
        new_width = ts.width
    if new_height is not None:
        new_height = int(new_height)
        if new_height > ts.height:
            raise ValueError(f"new_height cannot be greater than ts.height ({ts.height})")
    else:
        new_height = ts.height

    # Calculate the center of the original array
    center_w, center_h = ts.width // 2, ts.height // 2

    # Calculate the cropping indices
    start_w = int(center_w - int(new_width) // 2)
    end_w = int(start_w + int(new_width))

    start_h = int(center_h - int(new_height) // 2)
    end_h = int(start_h + int(new_height))

    # crop the actual images
    ts.data = ts.data[:, start_h:end_h, start_w:end_w]

    ts.write_out(output_file)

    print(f"...cropping of the tilt stack successfully finished. New dimensions are {end_w-start_w}, {end_h-start_h}\n")

    return ts.correct_order()


def split_stack_even_odd(tilt_stack, output_file_prefix=None, input_order="xyz", output_order="xyz"):
    ts = TiltStack(tilt_stack=tilt_stack, input_order=input_order, output_order=output_order)

    even_stack = []
    odd_stack = []

    if not ts.n_tilts == 1:
        # For each tilt image in the stack
        for i in range(ts.n_tilts):

            # Split to even and odd by using modulo 2
            if i % 2 == 0:
                even_stack.append(ts.data[i, :, :])
            else:
                odd_stack.append(ts.data[i, :, :])

        even_stack = np.stack(even_stack, axis=0)
        odd_stack = np.stack(odd_stack, axis=0)

        if output_file_prefix:
            ts.write_out(output_file_prefix + "_even.mrc", new_data=even_stack)
            ts.write_out(output_file_prefix + "_odd.mrc", new_data=odd_stack)

        return ts.correct_order(even_stack), ts.correct_order(odd_stack)
    else:
        raise ValueError(f"Stack contains only 1 tilt.")


def merge(file_path_pattern, output_file=None, output_order="xyz"):
    files, wildcards = ioutils.get_all_files_matching_pattern(file_path_pattern)
    sorted_files = ioutils.sort_files_by_idx(files, wildcards, order="ascending")

    all_stacks = []

    for sf in sorted_files:
        ts = TiltStack(sf, input_order="zyx", output_order=output_order)
        all_stacks.append(ts.data)

    final_stack = np.concatenate(all_stacks, axis=0)
    final_ts = TiltStack(final_stack, input_order="zyx", output_order=output_order)

    final_ts.write_out(output_file)

    return final_ts.correct_order()
'''

# the originals run against the helpers (TiltStack, ioutils, cryomap) of the tree under test
_ns = dict(vars(tiltstack))
exec(compile(ORIGINALS, "<originals>", "exec"), _ns)
ORIG = {name: _ns[name] for name in ("crop", "split_stack_even_odd", "merge")}

failures = []
n_checks = 0


def check(cond, msg):
    global n_checks
    n_checks += 1
    if not cond:
        failures.append(msg)
        if len(failures) <= 20:
            print("FAIL:", msg)


def quiet(f, *args, **kwargs):
    with contextlib.redirect_stdout(io.StringIO()):
        return f(*args, **kwargs)


def outcome(f, *args, **kwargs):
    """result or (exception type, message) -- so that error behaviour is compared as well"""
    try:
        return ("ok", quiet(f, *args, **kwargs))
    except Exception as e:  # noqa
        return ("err", type(e).__name__, str(e))


def same(a, b):
    if isinstance(a, tuple) and isinstance(b, tuple):
        return len(a) == len(b) and all(same(x, y) for x, y in zip(a, b))
    if isinstance(a, np.ndarray) and isinstance(b, np.ndarray):
        return a.dtype == b.dtype and a.shape == b.shape and np.array_equal(a, b)
    return type(a) == type(b) and a == b


def file_hash(path):
    with open(path, "rb") as f:
        return hashlib.sha256(f.read()).hexdigest()


def read_mrc(path):
    with mrcfile.open(path, permissive=True) as m:
        return np.array(m.data, copy=True)


def write_mrc(path, zyx):
    with mrcfile.new(path, overwrite=True) as m:
        m.set_data(np.ascontiguousarray(zyx))


def make_stack(rng, n, h, w, dtype):
    if dtype == np.float32:
        return rng.normal(0, 50, size=(n, h, w)).astype(np.float32)
    return rng.integers(-3000, 3000, size=(n, h, w)).astype(np.int16)


def ref_bin(zyx, b, dtype):
    n, h, w = zyx.shape
    hp, wp = -(-h // b) * b, -(-w // b) * b
    pad = np.zeros((n, hp, wp), dtype=np.float64)
    pad[:, :h, :w] = zyx
    return pad.reshape(n, hp // b, b, wp // b, b).mean(axis=(2, 4))


def close(res, ref, dtype):
    if res.shape != ref.shape:
        return False
    if dtype == np.float32:
        return np.allclose(res.astype(np.float64), ref, rtol=1e-5, atol=1e-3)
    # integer stacks: the mean is cast (truncated) to int16
    return np.all(np.abs(res.astype(np.float64) - ref) <= 1.0)


tmp = tempfile.mkdtemp(prefix="c15demo_")
counter = itertools.count()


def newfile(suffix=".mrc"):
    return os.path.join(tmp, f"f{next(counter)}{suffix}")


def run_case(rng, n, h, w, dtype, in_order, out_order, as_file, with_out):
    tag = f"n={n} h={h} w={w} {np.dtype(dtype).name} in={in_order} out={out_order} file={as_file} write={with_out}"
    zyx = make_stack(rng, n, h, w, dtype)
    zyx_keep = zyx.copy()

    if as_file:
        src = newfile()
        write_mrc(src, zyx)
        src_hash = file_hash(src)
        given = src
    else:
        given = zyx.transpose(2, 1, 0) if in_order == "xyz" else zyx
        if rng.random() < 0.5:
            given = np.ascontiguousarray(given)
        given_keep = given.copy()

    def to_out(exp_zyx):
        return exp_zyx.transpose(2, 1, 0) if out_order == "xyz" else exp_zyx

    def untouched(what):
        check(np.array_equal(zyx, zyx_keep), f"{tag}: {what} modified the source data")
        if as_file:
            check(file_hash(src) == src_hash, f"{tag}: {what} modified the input file")
        else:
            check(
                given.shape == given_keep.shape and np.array_equal(given, given_keep),
                f"{tag}: {what} modified the caller's array",
            )

    def run(name, exp_zyx, *args, exact=True, **kwargs):
        """calls tiltstack.<name>, compares with the expectation, the file, a second call and the original text"""
        out = newfile() if with_out else None
        res = quiet(getattr(tiltstack, name), given, *args, output_file=out, input_order=in_order,
                    output_order=out_order, **kwargs)
        exp = to_out(exp_zyx)
        check(isinstance(res, np.ndarray) and res.dtype == dtype, f"{tag}: {name} dtype {getattr(res, 'dtype', None)}")
        if exact:
            check(res.shape == exp.shape and np.array_equal(res, exp), f"{tag}: {name}{args}{kwargs} wrong result")
        else:
            check(close(res, exp, dtype), f"{tag}: {name}{args}{kwargs} wrong result")
        if with_out:
            disk = read_mrc(out)
            check(disk.dtype == dtype, f"{tag}: {name} file dtype {disk.dtype}")
            res_zyx = res.transpose(2, 1, 0) if out_order == "xyz" else res
            check(disk.shape == res_zyx.shape and np.array_equal(disk, res_zyx), f"{tag}: {name} file != result")
        untouched(name)
        # repeated call on the same objects
        res2 = quiet(getattr(tiltstack, name), given, *args, output_file=None, input_order=in_order,
                     output_order=out_order, **kwargs)
        check(same(res, res2), f"{tag}: {name} second call differs")
        if name in ORIG:
            out_o = newfile() if with_out else None
            res_o = quiet(ORIG[name], given, *args, output_file=out_o, input_order=in_order,
                          output_order=out_order, **kwargs)
            check(same(res, res_o), f"{tag}: {name}{args}{kwargs} differs from the original function")
            if with_out:
                check(same(read_mrc(out), read_mrc(out_o)), f"{tag}: {name} file differs from the original function")
        return res

    # ---- sort by tilt angle -------------------------------------------------------------------------------------
    angles = rng.permutation(np.arange(-60, 61, 120 / max(n - 1, 1))[:n] + rng.uniform(-0.4, 0.4, n)).astype(np.float32)
    if len(np.unique(angles)) == n:
        order = sorted(range(n), key=lambda i: float(angles[i]))
        exp = zyx_keep[order]
        mode = rng.integers(0, 3)
        if mode == 0:
            tl, tl_keep = angles, angles.copy()
        elif mode == 1:
            tl = [float(a) for a in angles]
            tl_keep = list(tl)
        else:
            tl = newfile(".tlt")
            np.savetxt(tl, angles, fmt="%.6f")
            tl_keep = file_hash(tl)
        run("sort_tilts_by_angle", exp, tl)
        if mode == 0:
            check(np.array_equal(tl, tl_keep), f"{tag}: angles modified")
        elif mode == 1:
            check(tl == tl_keep, f"{tag}: angle list modified")
        else:
            check(file_hash(tl) == tl_keep, f"{tag}: angle file modified")

    # ---- remove tilts -------------------------------------------------------------------------------------------
    for _ in range(2):
        k = int(rng.integers(1, n))  # 1 .. n-1 indices
        idx0 = rng.permutation(n)[:k]
        from1 = bool(rng.integers(0, 2))
        idx = idx0 + 1 if from1 else idx0
        keep = [i for i in range(n) if i not in set(idx0.tolist())]
        exp = zyx_keep[keep]
        mode = rng.integers(0, 3)
        if mode == 0:
            arg, arg_keep = idx.copy(), idx.copy()
        elif mode == 1 or k < 2:
            arg = [int(i) for i in idx]
            arg_keep = list(arg)
            mode = 1
        else:
            arg = newfile(".txt")
            np.savetxt(arg, idx, fmt="%d")
            arg_keep = file_hash(arg)
        run("remove_tilts", exp, arg, numbered_from_1=from1)
        if mode == 0:
            check(np.array_equal(arg, arg_keep), f"{tag}: index array modified")
        elif mode == 1:
            check(arg == arg_keep, f"{tag}: index list modified")
        else:
            check(file_hash(arg) == arg_keep, f"{tag}: index file modified")

    # ---- flips --------------------------------------------------------------------------------------------------
    # 'x' mirrors about the x axis (rows reversed), 'y' about the y axis (columns reversed), 'z' reverses the tilts
    flips = {"x": zyx_keep[:, ::-1, :], "y": zyx_keep[:, :, ::-1], "z": zyx_keep[::-1, :, :]}
    for ax, exp in flips.items():
        once = run("flip_along_axes", exp, ax)
        twice = quiet(tiltstack.flip_along_axes, once, [ax], input_order=out_order, output_order=out_order)
        check(np.array_equal(twice, to_out(zyx_keep)), f"{tag}: flip {ax} twice is not the identity")
    run("flip_along_axes", zyx_keep, ["x", "x"])
    run("flip_along_axes", zyx_keep[::-1, ::-1, ::-1], ["x", "y", "z"])

    # ---- centred crop -------------------------------------------------------------------------------------------
    crops = [(None, None), (w, h), (1, 1), (int(rng.integers(1, w + 1)), None), (None, int(rng.integers(1, h + 1)))]
    crops += [(int(rng.integers(1, w + 1)), int(rng.integers(1, h + 1))) for _ in range(3)]
    crops += [(str(int(rng.integers(1, w + 1))), float(int(rng.integers(1, h + 1))))]  # castable values
    for nw, nh in crops:
        cw = w if nw is None else int(nw)
        ch = h if nh is None else int(nh)
        sw, sh = w // 2 - cw // 2, h // 2 - ch // 2
        exp = zyx_keep[:, sh : sh + ch, sw : sw + cw]
        run("crop", exp, new_width=nw, new_height=nh)
    # requests that are too large or not numbers: same error as the original, nothing written
    for nw, nh in [(w + 1, None), (None, h + 1), (w + 3, h + 2), (w + 1, "abc"), ("abc", h + 1), (w, "q")]:
        out1, out2 = newfile(), newfile()
        r1 = outcome(tiltstack.crop, given, new_width=nw, new_height=nh, output_file=out1, input_order=in_order,
                     output_order=out_order)
        r2 = outcome(ORIG["crop"], given, new_width=nw, new_height=nh, output_file=out2, input_order=in_order,
                     output_order=out_order)
        check(r1[0] == "err" and r1 == r2, f"{tag}: crop({nw},{nh}) error differs: {r1} vs {r2}")
        check(not os.path.exists(out1) and not os.path.exists(out2), f"{tag}: crop({nw},{nh}) wrote a file")
        untouched("crop (error)")

    # ---- binning ------------------------------------------------------------------------------------------------
    for b in (1, 2, 3, int(rng.integers(2, 6))):
        run("bin", ref_bin(zyx_keep, b, dtype), b, exact=False)
    divs = [b for b in (2, 3, 4, 5) if h % b == 0 and w % b == 0]
    if divs and dtype == np.float32:
        run("bin", ref_bin(zyx_keep, divs[0], dtype), str(divs[0]), exact=False)

    # ---- even / odd ---------------------------------------------------------------------------------------------
    prefix = os.path.join(tmp, f"eo{next(counter)}") if with_out else None
    even, odd = quiet(tiltstack.split_stack_even_odd, given, output_file_prefix=prefix, input_order=in_order,
                      output_order=out_order)
    check(np.array_equal(even, to_out(zyx_keep[0::2])), f"{tag}: even stack wrong")
    check(np.array_equal(odd, to_out(zyx_keep[1::2])), f"{tag}: odd stack wrong")
    check(even.dtype == dtype and odd.dtype == dtype, f"{tag}: even/odd dtype")
    ez = even.transpose(2, 1, 0) if out_order == "xyz" else even
    oz = odd.transpose(2, 1, 0) if out_order == "xyz" else odd
    inter = np.empty_like(zyx_keep)
    inter[0::2] = ez
    inter[1::2] = oz
    check(np.array_equal(inter, zyx_keep), f"{tag}: even/odd do not interleave back to the input")
    if with_out:
        de, do = read_mrc(prefix + "_even.mrc"), read_mrc(prefix + "_odd.mrc")
        check(same(de, np.ascontiguousarray(ez)) and same(do, np.ascontiguousarray(oz)), f"{tag}: even/odd files")
    untouched("split_stack_even_odd")
    prefix_o = os.path.join(tmp, f"eo{next(counter)}") if with_out else None
    eo_o = quiet(ORIG["split_stack_even_odd"], given, output_file_prefix=prefix_o, input_order=in_order,
                 output_order=out_order)
    check(same((even, odd), eo_o), f"{tag}: split_stack_even_odd differs from the original function")
    check(even.flags["C_CONTIGUOUS"] == eo_o[0].flags["C_CONTIGUOUS"], f"{tag}: even layout differs")
    if with_out:
        check(same(read_mrc(prefix + "_odd.mrc"), read_mrc(prefix_o + "_odd.mrc")), f"{tag}: odd file vs original")
        check(same(read_mrc(prefix + "_even.mrc"), read_mrc(prefix_o + "_even.mrc")), f"{tag}: even file vs original")
    eo2 = quiet(tiltstack.split_stack_even_odd, given, input_order=in_order, output_order=out_order)
    check(same((even, odd), eo2), f"{tag}: split second call differs")


def merge_case(rng, dtype, out_order, with_out):
    """parts of different sizes (1 .. 4 tilts), numbered so that the lexicographic and the numeric order differ"""
    h, w = int(rng.integers(4, 41)), int(rng.integers(4, 41))
    if h == w:
        w = w + 1 if w < 40 else w - 1
    n_parts = int(rng.integers(2, 13))
    d = tempfile.mkdtemp(prefix="merge_", dir=tmp)
    parts = []
    for p in rng.permutation(n_parts):  # written in a random order
        st = make_stack(rng, int(rng.integers(1, 5)), h, w, dtype)
        parts.append((int(p) + 1, st))
        write_mrc(os.path.join(d, f"part_{int(p) + 1}.mrc"), st)
    hashes = {f: file_hash(os.path.join(d, f)) for f in os.listdir(d)}
    exp = np.concatenate([st for _, st in sorted(parts, key=lambda t: t[0])], axis=0)
    out = newfile() if with_out else None
    pattern = os.path.join(d, "part_*.mrc")
    res = quiet(tiltstack.merge, pattern, output_file=out, output_order=out_order)
    tag = f"merge parts={n_parts} {np.dtype(dtype).name} out={out_order} write={with_out}"
    check(res.dtype == dtype, f"{tag}: dtype")
    check(np.array_equal(res, exp.transpose(2, 1, 0) if out_order == "xyz" else exp), f"{tag}: wrong result")
    if with_out:
        check(same(read_mrc(out), exp), f"{tag}: file != concatenation")
    out_o = newfile() if with_out else None
    res_o = quiet(ORIG["merge"], pattern, output_file=out_o, output_order=out_order)
    check(same(res, res_o), f"{tag}: differs from the original function")
    if with_out:
        check(same(read_mrc(out), read_mrc(out_o)), f"{tag}: file differs from the original function")
    check(same(res, quiet(tiltstack.merge, pattern, output_order=out_order)), f"{tag}: second call differs")
    check(hashes == {f: file_hash(os.path.join(d, f)) for f in os.listdir(d)}, f"{tag}: part files modified")


try:
    rng = np.random.default_rng(20240915)
    combos = list(itertools.product(("xyz", "zyx"), ("xyz", "zyx"), (False, True), (False, True)))
    sizes = [(2, 4, 40), (2, 40, 4), (3, 5, 4), (25, 7, 6), (25, 40, 39), (4, 4, 5), (5, 9, 12), (24, 13, 8)]
    case = 0
    for n, h, w in sizes:
        for dtype in (np.float32, np.int16):
            for in_order, out_order, as_file, with_out in combos:
                case += 1
                # every edge size with every dtype, a rotating half of the option combinations
                if (case + n) % 2 == 0 and (n, h, w) not in sizes[:3]:
                    continue
                run_case(rng, n, h, w, dtype, in_order, out_order, as_file, with_out)
    for _ in range(60):
        n = int(rng.integers(2, 26))
        h = int(rng.integers(4, 41))
        w = int(rng.integers(4, 41))
        if h == w:
            w = w + 1 if w < 40 else w - 1
        dtype = (np.float32, np.int16)[int(rng.integers(0, 2))]
        in_order, out_order, as_file, with_out = combos[int(rng.integers(0, len(combos)))]
        run_case(rng, n, h, w, dtype, in_order, out_order, as_file, with_out)
    for dtype in (np.float32, np.int16):
        for out_order in ("xyz", "zyx"):
            for with_out in (False, True):
                for _ in range(3):
                    merge_case(rng, dtype, out_order, with_out)
finally:
    shutil.rmtree(tmp, ignore_errors=True)

print(f"{n_checks} checks, {len(failures)} failures (functions compared with their original text: {sorted(ORIG)})")
if failures:
    print("FAIL")
    sys.exit(1)
print("PASS")
