"""C19 / change b -- trace_chains: input validation in front of the loop (the ValueError for different feature sets is
now raised, min_distance < 0 / NaN is refused, per feature value the two lists must have the same number of rows and
the same subtomo_id column). Valid (paired) input passes through untouched.

The demo checks the property of trace_chains (every particle once, order numbers 1..k per object and tomogram, every
link in (min_distance, max_distance] and recorded for the former member) with an independent numpy computation over
random and hand-built inputs inside the quantifier and compares the tree's trace_chains with the ORIGINAL functions
(text kept below) on the same inputs. What the tree does with input OUTSIDE the quantifier is only printed.

run as:  cd /tmp/wt11/C19 && /venv/bin/python /tmp/seedsU/C19/b/demo.py
"""
import sys, os

sys.path.insert(0, os.getcwd())
import warnings

warnings.filterwarnings("ignore")
import numpy as np
import pandas as pd
from cryocat import cryomotl, ribana

# the ORIGINAL text of the four functions (cryocat/ribana.py at HEAD 86ccbaf), executed in a copy of the module's
# namespace: ORIG["trace_chains"] calls the original helpers, ribana.trace_chains whatever the tree has now
ORIG_SRC = r'''
def get_nn_dist(kdt, query_point, dist_max, dist_min, active_points, test_value):
    id_max, dist = kdt.query_radius(query_point, dist_max, return_distance=True, sort_results=True)
    # id_max, dist = [a[0] for a in kdt.query_radius(query_point, dist_max, return_distance=True, sort_results=True)]
    id_max = id_max[0]
    dist = dist[0]
    if id_max.size == 0:
        return -1, []

    rp_idx = id_max[active_points[id_max] == test_value]
    rp_dist = dist[active_points[id_max] == test_value]

    if rp_idx.size == 0:
        return -1, []
    elif dist_min >= 0:  # the interval is open at its lower end also for dist_min == 0 (a site at distance 0 is not a neighbour)
        rp_idx = rp_idx[rp_dist > dist_min]
        rp_dist = rp_dist[rp_dist > dist_min]

    if rp_idx.size == 0:
        return -1, []
    else:
        return rp_idx[0], rp_dist[0]


def add_chain_suffix(
    chain_df,
    motl,
    traced_df,
    subtomo_id,
    current_dist,
    store_idx1="object_id",
    store_idx2="geom2",
    store_dist="geom4",
):
    particle_id = motl.df.loc[motl.df.index[subtomo_id], "subtomo_id"]

    temp_cl_id, order_id, previous_dist = traced_df.loc[
        traced_df["subtomo_id"] == particle_id, [store_idx1, store_idx2, store_dist]
    ].values[0]
    chain_max_order = np.max(traced_df.loc[traced_df[store_idx1] == temp_cl_id, [store_idx2]].values)

    if chain_max_order != order_id:  # the closest particle is not the last one
        if previous_dist <= current_dist:  # the original chain holds, do nothing
            return False
        else:  # the new chain is better, cut of the tail of the existing one
            current_class = chain_df[store_idx1].values[0]
            traced_df.loc[
                (traced_df[store_idx1] == temp_cl_id) & (traced_df[store_idx2] > order_id),
                store_idx1,
            ] = current_class
            # the tail keeps its order: the order numbers order_id + 1, order_id + 2, ... become 1, 2, ...
            traced_df.loc[(traced_df[store_idx1] == current_class), store_idx2] -= order_id
            chain_max_order = np.max(
                traced_df.loc[traced_df[store_idx1] == temp_cl_id, [store_idx2]].values
            )  # max changed in the meantime so has to be fetched again

    traced_df.loc[traced_df["subtomo_id"] == particle_id, store_dist] = (
        current_dist  # add distance to the last traced element from the chain (should be 0 before)
    )
    chain_df[store_idx1] = temp_cl_id
    chain_df[store_idx2] += chain_max_order

    return True  # chain was changed


def add_chain_prefix(
    chain_df,
    motl,
    traced_df,
    subtomo_id,
    current_dist,
    store_idx1="object_id",
    store_idx2="geom2",
    store_dist="geom4",
    class_max=None,
):
    # finding out class of the chain that should be appended to the current chain
    particle_id = motl.df.loc[motl.df.index[subtomo_id], "subtomo_id"]
    class_to_change = traced_df.loc[traced_df["subtomo_id"] == particle_id, store_idx1].values[0]

    order_id = traced_df.loc[traced_df["subtomo_id"] == particle_id, store_idx2].values[0]

    current_class = chain_df[store_idx1].values[0]
    cut_off_size = 0

    if order_id != 1:  # the closest particle is NOT the first one in the chain!
        # take the previous particle distance
        previous_dist = traced_df.loc[
            (traced_df[store_idx1] == class_to_change) & (traced_df[store_idx2] == order_id - 1),
            store_dist,
        ].values[0]

        if previous_dist <= current_dist:  # original particle closer -> do not append
            return -1
        else:  # the new particle is closer - change the class/object_id to the one from the current particle
            cut_off_size = traced_df.loc[
                (traced_df[store_idx1] == class_to_change) & (traced_df[store_idx2] < order_id)
            ].shape[0]
            if (
                class_max is None
            ):  # Only appending, the chain object_id value is not used and can be assing to the cut chain
                traced_df.loc[
                    (traced_df[store_idx1] == class_to_change) & (traced_df[store_idx2] < order_id),
                    store_idx1,
                ] = current_class
            else:  # Connectiong from both sides, the chain object_id was changed in the previoius append and cannot be used -> the input from current is used
                traced_df.loc[
                    (traced_df[store_idx1] == class_to_change) & (traced_df[store_idx2] < order_id),
                    store_idx1,
                ] = -1  # class_max[1]

    if class_max is None:
        chain_df[store_idx1] = class_to_change
        class_max = np.max(chain_df[store_idx2].values)
        traced_df.loc[traced_df[store_idx1] == class_to_change, [store_idx2]] += class_max - cut_off_size
    else:
        temp_cl_id = chain_df[store_idx1][0]
        traced_df.loc[traced_df[store_idx1] == class_to_change, [store_idx2]] += class_max[0] - cut_off_size
        traced_df.loc[traced_df[store_idx1] == class_to_change, [store_idx1]] = temp_cl_id
        if order_id != 1:
            traced_df.loc[traced_df[store_idx1] == -1, [store_idx1]] = class_max[1]  # class_to_change

    chain_df.loc[chain_df.index[-1], store_dist] = current_dist


def trace_chains(
    motl_entry,
    motl_exit,
    max_distance,
    min_distance=0,
    feature="tomo_id",
    output_motl=None,
    store_idx1="object_id",
    store_idx2="geom2",
    store_dist="geom4",
):
    motl_entry = cryomotl.Motl.load(motl_entry)
    motl_exit = cryomotl.Motl.load(motl_exit)

    features1 = np.unique(motl_entry.df.loc[:, feature])
    features2 = np.unique(motl_exit.df.loc[:, feature])

    if ~np.all(np.equal(features1, features2)):
        ValueError("Provided motls have different features sets!!!")

    traced_motl = cryomotl.Motl.create_empty_motl_df()

    for f in features1:
        # for f in np.array([2,274,405,423]):
        # for f in np.array([423]):
        # print(f)
        fm_entry = motl_entry.get_motl_subset(f, feature, reset_index=False)
        fm_exit = motl_exit.get_motl_subset(f, feature, reset_index=False)

        nfm_df = cryomotl.Motl.create_empty_motl_df()

        fm_size = fm_entry.df.shape[0]
        remain_entry = np.full((fm_size,), True)
        remain_exit = np.full((fm_size,), True)

        class_c = 1

        coord_entry = fm_entry.get_coordinates()
        coord_exit = fm_exit.get_coordinates()

        kdt_entry = sn.KDTree(coord_entry)
        kdt_exit = sn.KDTree(coord_exit)

        for i, current_point in enumerate(coord_exit):
            if ~remain_exit[i]:
                continue
            else:
                ch_m = cryomotl.Motl.create_empty_motl_df()  # create new chain motl df
                chain_id = 1  # assign chain id
                trace_chain = True
                p_idx = i
                used_idx = []
                # print(i)
                while trace_chain:
                    # take the particle from the exit list
                    # part_process = fm_exit.df.iloc[p_idx]

                    # add the same processed particle from entry list to the chain
                    ch_m = pd.concat([ch_m, fm_entry.df.iloc[[p_idx]]], ignore_index=True)

                    ch_m.loc[ch_m.index[-1], [store_idx2]] = chain_id
                    chain_id += 1

                    # remove currently processed point from both entry and exit
                    remain_entry[p_idx] = False
                    remain_exit[p_idx] = False
                    used_idx.append(p_idx)

                    # prepare coordinates
                    p_coord = coord_exit[p_idx, None, :]

                    if np.all(remain_entry == False):  # no remaining particles, end the chain
                        # np_idx = p_idx
                        np_idx = -1
                    else:
                        # search for the nearest active point
                        np_idx, np_dist = get_nn_dist(
                            kdt_entry,
                            p_coord,
                            max_distance,
                            min_distance,
                            remain_entry,
                            True,
                        )

                    if np_idx != -1:  # continue tracing
                        p_idx = np_idx
                        ch_m.loc[ch_m.index[-1], [store_dist]] = np_dist
                    else:  # end chain
                        ch_m.loc[:, store_idx1] = class_c
                        class_c += 1

                        if nfm_df.size != 0:  # check existing chains for connections
                            first_coord = (
                                ch_m.loc[ch_m.index[0], ["x", "y", "z"]].values
                                + ch_m.loc[ch_m.index[0], ["shift_x", "shift_y", "shift_z"]].values
                            )  # entry point
                            first_coord = first_coord.reshape(1, 3)
                            remain_entry[used_idx] = True
                            remain_exit[used_idx] = True
                            # check if this chain cannot be connected to already an existing one
                            # This can happen if the chain is started "in the middle"
                            nm_idx, nm_dist = get_nn_dist(
                                kdt_entry,
                                p_coord,
                                max_distance,
                                min_distance,
                                remain_entry,
                                False,
                            )
                            first_idx, first_dist = get_nn_dist(
                                kdt_exit,
                                first_coord,
                                max_distance,
                                min_distance,
                                remain_exit,
                                False,
                            )

                            remain_entry[used_idx] = False
                            remain_exit[used_idx] = False

                            # rather rare case where a single particle wants to connect to the same particle in a chain
                            if first_idx == nm_idx and first_idx != -1 and ch_m.shape[0] == 1:
                                if first_dist <= nm_dist:
                                    nm_idx = -1  # add only suffix
                                else:
                                    first_idx = -1  # add only prefix
                            elif first_idx != -1 and nm_idx != -1:
                                part1 = fm_exit.df.loc[fm_exit.df.index[first_idx], "subtomo_id"]
                                part2 = fm_entry.df.loc[fm_entry.df.index[nm_idx], "subtomo_id"]
                                cl1 = nfm_df.loc[nfm_df["subtomo_id"] == part1, store_idx1].values[0]
                                cl2 = nfm_df.loc[nfm_df["subtomo_id"] == part2, store_idx1].values[0]
                                if cl1 == cl2:
                                    if first_dist <= nm_dist:
                                        nm_idx = -1  # add only suffix
                                    else:
                                        first_idx = -1  # add only prefix

                            ch_changed = False  # default is no chain change

                            if first_idx != -1:  # appneding the chain after an existing one
                                ch_changed = add_chain_suffix(
                                    ch_m,
                                    fm_exit,
                                    nfm_df,
                                    first_idx,
                                    first_dist,
                                    store_idx1,
                                    store_idx2,
                                )

                            if nm_idx != -1:  # connecting the chain before an existing one

                                class_max = None

                                # they connect from both sides
                                if ch_changed:
                                    current_class = class_c - 1
                                    cl_max = np.max(ch_m[store_idx2].values)
                                    if cl_max > 1:
                                        if (nfm_df[store_idx1] == current_class).any():
                                            # the number went to a tail cut off by add_chain_suffix, a cut-off head needs its own
                                            current_class = class_c
                                            class_c += 1
                                        class_max = (cl_max, current_class)

                                add_chain_prefix(
                                    ch_m,
                                    fm_entry,
                                    nfm_df,
                                    nm_idx,
                                    nm_dist,
                                    store_idx1,
                                    store_idx2,
                                    class_max=class_max,
                                )

                        nfm_df = pd.concat([nfm_df, ch_m])
                        trace_chain = False

        traced_motl = pd.concat([traced_motl, nfm_df])

    traced_motl = cryomotl.Motl(motl_df=traced_motl)

    if output_motl is not None:
        traced_motl.write_to_emfile(output_motl)

    return traced_motl
'''
ORIG = dict(vars(ribana))
exec(compile(ORIG_SRC, "<original ribana tail>", "exec"), ORIG)


# ----------------------------------------------------------------------------------------------------------------
# input generation (inside the quantifier: paired entry/exit lists, 2..60 particles, 1..3 tomograms, exit sites are
# the entry sites displaced by random vectors, dense clusters; max_distance, min_distance >= 0)
# ----------------------------------------------------------------------------------------------------------------
COLS = cryomotl.Motl.motl_columns


def make_pair(rng, n, n_tomos, mode, integer=False, index_mode="default", tomo_layout="blocks", with_shifts=True):
    """returns (entry Motl, exit Motl); row k of both lists is the same particle"""
    if tomo_layout == "blocks":
        tomo = np.sort(rng.integers(0, n_tomos, n))
    else:  # interleaved rows of different tomograms
        tomo = rng.integers(0, n_tomos, n)
    tomo_ids = np.array([3, 17, 5])[tomo]  # not sorted, not 1..k

    if mode == "sparse":
        entry = rng.uniform(0, 60, (n, 3))
        disp = rng.normal(0, 4, (n, 3))
    elif mode == "cluster":  # dense clusters: many candidates inside the radius -> merging, prefixing, cutting
        centres = rng.uniform(0, 30, (max(1, n // 8), 3))
        entry = centres[rng.integers(0, centres.shape[0], n)] + rng.normal(0, 3, (n, 3))
        disp = rng.normal(0, 3, (n, 3))
    elif mode == "line":  # polysome-like strings with jitter, visited in a random order
        entry = np.cumsum(rng.normal([4, 0, 0], 1.0, (n, 3)), axis=0)
        disp = rng.normal([2.5, 0, 0], 1.0, (n, 3))
        perm = rng.permutation(n)
        entry, disp = entry[perm], disp[perm]
    elif mode == "negative":  # negative coordinates and zeros
        entry = rng.uniform(-20, 5, (n, 3))
        entry[rng.integers(0, n)] = 0.0
        disp = rng.normal(0, 3, (n, 3))
    else:
        raise ValueError(mode)
    if integer:
        entry = np.round(entry)
        disp = np.round(disp)
        # an exit site exactly on an entry site of another particle (distance 0) is left out: the statement's interval
        # is open at min_distance
        disp[np.all(disp == 0, axis=1)] = [1, 0, 0]
    exit_ = entry + disp

    def build(coord):
        df = pd.DataFrame(0.0, index=np.arange(n), columns=COLS)
        if with_shifts:
            if integer:
                sh = rng.integers(-2, 3, (n, 3)).astype(float)
            else:
                sh = rng.uniform(-1, 1, (n, 3))
        else:
            sh = np.zeros((n, 3))
        df[["x", "y", "z"]] = coord - sh
        df[["shift_x", "shift_y", "shift_z"]] = sh
        df["tomo_id"] = tomo_ids.astype(float)
        df["subtomo_id"] = np.arange(101, 101 + n, dtype=float)
        df["score"] = rng.uniform(0, 1, n)
        df["phi"] = rng.uniform(-180, 180, n)
        df["theta"] = rng.choice([0.0, 180.0, 90.0, 33.0], n)  # poles of the Euler angles included
        df["psi"] = rng.uniform(-180, 180, n)
        df["class"] = rng.integers(1, 4, n).astype(float)
        df["geom5"] = rng.uniform(-3, 3, n)  # a payload column that must come through
        return df

    e_df, x_df = build(entry), build(exit_)
    x_df["subtomo_id"] = e_df["subtomo_id"].to_numpy()
    if index_mode == "shuffled":
        idx = rng.permutation(n) + 1000
        e_df.index = idx
        x_df.index = idx
    elif index_mode == "different":  # the two lists carry unrelated row labels
        e_df.index = rng.permutation(n) * 3 + 7
        x_df.index = rng.permutation(n) + 50
    return cryomotl.Motl(e_df), cryomotl.Motl(x_df)


def exact_thresholds_case():
    """integer coordinates, distances exactly 5 (3-4-5) and exactly 3: tests the closed upper / open lower end"""
    entry = np.array([[0, 0, 0], [13, 4, 0], [26, 8, 0], [39, 12, 0], [100, 100, 100]], dtype=float)
    exit_ = entry + np.array([10, 0, 0], dtype=float)  # exit k -> entry k+1 is (3,4,0): distance 5 exactly
    exit_[3] = entry[3] + np.array([0, 0, 3.0])
    n = entry.shape[0]
    dfs = []
    for c in (entry, exit_):
        df = pd.DataFrame(0.0, index=np.arange(n), columns=COLS)
        df[["x", "y", "z"]] = c
        df["tomo_id"] = 1.0
        df["subtomo_id"] = np.arange(1, n + 1, dtype=float)
        dfs.append(df)
    return cryomotl.Motl(dfs[0]), cryomotl.Motl(dfs[1])



FAR = [np.array([1000.0 * (k + 1), 300.0 * (k % 3), -200.0 * (k % 2)]) for k in range(12)]


def gadget(kind):
    """hand-built arrangements (max_distance 10) that drive the rarely taken branches. Rows in processing order.
    cut  : [a1,a2] ; b is hung in front of a2 and cuts the head a1 off ; y1 is hung behind a1 (7) ; f is nearer
           to a1 (6.08) -> add_chain_suffix cuts the tail y1 off.
    tie  : as cut, but f is exactly as far from a1 as y1 (7 == 7): the existing link holds.
    tail2: the tail is [y1,y2], stored in the table as y2,y1 (y2 traced first, y1 hung in front of it).
    both : the new chain [f1,f2] cuts the tail [y1,y2] off behind a1 AND the head c1 off in front of c2."""
    O = np.zeros(3)
    P = {}
    order = ["a1", "a2", "b"]
    P["a1"] = (FAR[0], O)
    P["a2"] = (np.array([5.0, 0, 0]), FAR[1])
    P["b"] = (FAR[2], np.array([8.0, 0, 0]))
    if kind in ("cut", "tie"):
        P["y1"] = (np.array([-7.0, 0, 0]), FAR[3])
        P["f"] = (np.array([0.0, 7.0, 0]) if kind == "tie" else np.array([-1.0, 6.0, 0]), FAR[4])
        order += ["y1", "f"]
    else:
        P["y2"] = (np.array([-7.0, 0, 53.0]), FAR[5])
        P["y1"] = (np.array([-7.0, 0, 0]), np.array([-7.0, 0, 50.0]))
        order += ["y2", "y1"]
        if kind == "tail2":
            P["f"] = (np.array([-1.0, 6.0, 0]), FAR[4])
            order += ["f"]
        else:
            Q, R = np.array([0.0, 500.0, 0]), np.array([0.0, -500.0, 0])
            P["c1"] = (FAR[6], Q)
            P["c2"] = (Q + [5.0, 0, 0], FAR[7])
            P["f1"] = (np.array([-1.0, 6.0, 0]), R)
            P["f2"] = (R + [2.0, 0, 0], Q + [8.0, 0, 0])
            order += ["c1", "c2", "f1", "f2"]
    entry = np.array([P[k][0] for k in order])
    exit_ = np.array([P[k][1] for k in order])
    return order, entry, exit_


def expected_chains(kind):
    if kind == "cut":
        return [["a1", "f"], ["y1"], ["b", "a2"]]
    if kind == "tie":
        return [["a1", "y1"], ["f"], ["b", "a2"]]
    if kind == "tail2":
        return [["a1", "f"], ["y1", "y2"], ["b", "a2"]]
    return [["a1", "f1", "f2", "c2"], ["y1", "y2"], ["c1"], ["b", "a2"]]


def random_rotation(rng):
    q, r = np.linalg.qr(rng.normal(size=(3, 3)))
    q = q * np.sign(np.diag(r))
    if np.linalg.det(q) < 0:
        q[:, 0] = -q[:, 0]
    return q


def make_gadget_pair(rng, kind, moved=False, filler=0, filler_same_tomo=True, index_mode="default"):
    """gadget, optionally rotated / translated / jittered, with far-away random filler particles merged between its rows
    (relative row order of the gadget kept). Returns entry Motl, exit Motl, names (None for fillers)."""
    names, entry, exit_ = gadget(kind)
    if moved:
        rot, t = random_rotation(rng), rng.uniform(-50, 50, 3)
        entry = entry @ rot.T + t + rng.uniform(-0.02, 0.02, entry.shape)
        exit_ = exit_ @ rot.T + t + rng.uniform(-0.02, 0.02, exit_.shape)
    n = len(names)
    tomo = np.full(n, 17.0)
    if filler:
        fe, fx = make_pair(rng, filler, 1, "cluster")
        f_entry = fe.get_coordinates() + 30000.0
        f_exit = fx.get_coordinates() + 30000.0
        slots = np.sort(rng.permutation(n + filler)[:n])  # rows the gadget goes to
        is_g = np.zeros(n + filler, dtype=bool)
        is_g[slots] = True
        e_all, x_all = np.zeros((n + filler, 3)), np.zeros((n + filler, 3))
        e_all[is_g], x_all[is_g], e_all[~is_g], x_all[~is_g] = entry, exit_, f_entry, f_exit
        nm = np.full(n + filler, None, dtype=object)
        nm[is_g] = names
        tm = np.full(n + filler, 17.0 if filler_same_tomo else 4.0)
        tm[is_g] = 17.0
        entry, exit_, names, tomo = e_all, x_all, list(nm), tm
    n = len(names)
    dfs = []
    for c in (entry, exit_):
        df = pd.DataFrame(0.0, index=np.arange(n), columns=COLS)
        df[["x", "y", "z"]] = c
        df["tomo_id"] = tomo
        df["subtomo_id"] = np.arange(11, 11 + n, dtype=float)
        dfs.append(df)
    if index_mode == "shuffled":
        idx = rng.permutation(n) + 500
        dfs[0].index = idx
        dfs[1].index = idx[::-1]
    return cryomotl.Motl(dfs[0]), cryomotl.Motl(dfs[1]), names


def check_expected(traced, names, kind, label):
    t = traced.df
    by_id = {11.0 + k: nm for k, nm in enumerate(names) if nm is not None}
    g = t[t["subtomo_id"].isin(list(by_id)) & (t["tomo_id"] == 17.0)]
    got = []
    for _, ch in g.groupby("object_id"):
        got.append([by_id[s] for s in ch.sort_values("geom2")["subtomo_id"]])
    assert sorted(got) == sorted(expected_chains(kind)), f"{label}: chains {sorted(got)}, expected {sorted(expected_chains(kind))}"


# ----------------------------------------------------------------------------------------------------------------
# the property, computed independently (plain numpy on the input tables)
# ----------------------------------------------------------------------------------------------------------------
def check_property(m_entry, m_exit, traced, max_distance, min_distance, label):
    e, x, t = m_entry.df, m_exit.df, traced.df
    # every particle exactly once (keyed by tomogram and particle number), payload columns untouched
    key_in = sorted(zip(e["tomo_id"].to_numpy(), e["subtomo_id"].to_numpy()))
    key_out = sorted(zip(t["tomo_id"].to_numpy(), t["subtomo_id"].to_numpy()))
    assert key_in == key_out, f"{label}: particles in {len(key_in)} out {len(key_out)}: not every particle exactly once"
    e_by = {(a, b): i for i, (a, b) in enumerate(zip(e["tomo_id"].to_numpy(), e["subtomo_id"].to_numpy()))}
    e_np = e[COLS].to_numpy()
    x_coord = x[["x", "y", "z"]].to_numpy() + x[["shift_x", "shift_y", "shift_z"]].to_numpy()
    e_coord = e[["x", "y", "z"]].to_numpy() + e[["shift_x", "shift_y", "shift_z"]].to_numpy()
    keep = [c for c in COLS if c not in ("object_id", "geom2", "geom4")]
    t_keep = t[keep].to_numpy()
    pos = np.array([e_by[k] for k in zip(t["tomo_id"].to_numpy(), t["subtomo_id"].to_numpy())], dtype=int)
    assert np.array_equal(t_keep, e[keep].to_numpy()[pos]), f"{label}: a column other than object_id/geom2/geom4 changed"

    obj, order, dist = t["object_id"].to_numpy(), t["geom2"].to_numpy(), t["geom4"].to_numpy()
    tomo = t["tomo_id"].to_numpy()
    n_links = 0
    for tm in np.unique(tomo):
        for o in np.unique(obj[tomo == tm]):
            sel = np.flatnonzero((tomo == tm) & (obj == o))
            srt = sel[np.argsort(order[sel], kind="stable")]
            k = srt.size
            assert np.array_equal(order[srt], np.arange(1, k + 1)), (
                f"{label}: tomo {tm} object {o}: order numbers {order[srt].tolist()} are not 1..{k}"
            )
            for a, b in zip(srt[:-1], srt[1:]):
                d = np.sqrt(np.sum((x_coord[pos[a]] - e_coord[pos[b]]) ** 2))
                assert d <= max_distance + 1e-9, f"{label}: link {d} longer than max_distance {max_distance}"
                assert d > min_distance - 1e-9 and (d > 0 or min_distance == 0), (
                    f"{label}: link {d} not above min_distance {min_distance}"
                )
                assert abs(d - dist[a]) <= 1e-9 * max(1.0, d), f"{label}: recorded {dist[a]} but the link measures {d}"
                n_links += 1
    return n_links


def same_output(t_new, t_old, label):
    a, b = t_new.df, t_old.df
    assert list(a.columns) == list(b.columns), f"{label}: column order differs"
    assert a.index.equals(b.index), f"{label}: row labels differ"
    assert (a.dtypes == b.dtypes).all(), f"{label}: dtypes differ"
    assert np.array_equal(a.to_numpy(), b.to_numpy(), equal_nan=True), f"{label}: values differ from the original code"


import collections

events = collections.Counter()


def install_counters():
    """read-only observers around the current tree's helpers: they look at the tables before / after the call and
    count which branch was taken, so that the run can show that the rare branches were exercised"""
    suf, pre = ribana.add_chain_suffix, ribana.add_chain_prefix

    def c_suffix(chain_df, motl, traced_df, subtomo_id, current_dist, *a, **k):
        pid = motl.df["subtomo_id"].to_numpy()[subtomo_id]
        row = traced_df[traced_df["subtomo_id"] == pid]
        last = traced_df.loc[traced_df["object_id"] == row["object_id"].iloc[0], "geom2"].max()
        inner = bool(last != row["geom2"].iloc[0])
        res = suf(chain_df, motl, traced_df, subtomo_id, current_dist, *a, **k)
        events["tail cut off by add_chain_suffix" if (inner and res) else
               "hung behind a chain end" if res else "existing link kept (suffix)"] += 1
        c_suffix.cut = inner and res
        return res

    def c_prefix(chain_df, motl, traced_df, subtomo_id, current_dist, *a, **k):
        pid = motl.df["subtomo_id"].to_numpy()[subtomo_id]
        inner = bool(traced_df.loc[traced_df["subtomo_id"] == pid, "geom2"].iloc[0] != 1)
        res = pre(chain_df, motl, traced_df, subtomo_id, current_dist, *a, **k)
        two = k.get("class_max") is not None
        if res == -1:
            events["existing link kept (prefix)"] += 1
        else:
            events["head cut off by add_chain_prefix" if inner else "hung in front of a chain start"] += 1
            if two:
                events["two-sided connection"] += 1
                if inner and getattr(c_suffix, "cut", False):
                    events["two-sided connection with tail and head cut"] += 1
        c_suffix.cut = False
        return res

    c_suffix.cut = False
    ribana.add_chain_suffix, ribana.add_chain_prefix = c_suffix, c_prefix


def run_all(seed=20260928, n_random=700, verbose=True):
    rng = np.random.default_rng(seed)
    cases = []
    modes = ["sparse", "cluster", "line", "negative"]
    sizes = [2, 2, 3, 4, 5, 7, 8, 12, 16, 21, 30, 33, 45, 59, 60]
    for k in range(n_random):
        n = int(sizes[k % len(sizes)]) if k % 3 else int(rng.integers(2, 61))
        mode = modes[k % 4]
        n_tomos = int(rng.integers(1, 4))
        integer = bool(k % 5 == 0)
        index_mode = ["default", "shuffled", "different"][k % 3]
        layout = "blocks" if k % 7 else "interleaved"
        if integer:
            max_d = float(rng.choice([3.0, 5.0, 7.0, 9.0]))
            min_d = float(rng.choice([0.0, 0.0, 1.0, 2.0, 3.0]))
        else:
            max_d = float(rng.choice([2.0, 4.0, 6.5, 9.0, 15.0, 40.0]))
            min_d = float(rng.choice([0.0, 0.0, 0.5, 1.5, 3.0]))
        if k % 11 == 0:  # integer-typed options
            max_d, min_d = int(max_d) + 1, int(min_d)
        me, mx = make_pair(rng, n, n_tomos, mode, integer, index_mode, layout, with_shifts=bool(k % 2))
        cases.append((f"case{k}:{mode}:n={n}:T={n_tomos}:int={integer}:{index_mode}:{layout}", me, mx, max_d, min_d))
    me, mx = exact_thresholds_case()
    cases.append(("exact:max=5:min=0", me, mx, 5, 0))  # distance == max_distance is linked
    cases.append(("exact:max=5:min=3", me, mx, 5.0, 3.0))  # distance == min_distance is not
    cases.append(("exact:max=4.999", me, mx, 4.999, 0))
    cases.append(("exact:max=0", me, mx, 0, 0))  # nothing within reach: every particle its own chain

    # hand-built arrangements for the branches a random search meets about once in 2000 inputs
    expect = {}
    for kind in ("cut", "tie", "tail2", "both"):
        for r in range(8):
            moved = bool(r % 2) and kind != "tie"  # the tie needs exact integer distances
            filler = [0, 0, 6, 25][r // 2]
            same = bool(r % 4 < 2)
            me, mx, names = make_gadget_pair(rng, kind, moved, filler, same, ["default", "shuffled"][(r // 2) % 2])
            label = f"gadget:{kind}:{r}"
            cases.append((label, me, mx, [10, 10.0][r % 2], [0, 1.5, 0.0, 1][r % 4]))
            expect[label] = (names, kind)

    n_links = n_chains_multi = 0
    events.clear()
    for label, me, mx, max_d, min_d in cases:
        e_before, x_before = me.df.copy(), mx.df.copy()
        t_new = ribana.trace_chains(me, mx, max_d, min_d)
        n_links += check_property(me, mx, t_new, max_d, min_d, label)
        if label in expect:
            check_expected(t_new, *expect[label], label)
        t_old = ORIG["trace_chains"](me, mx, max_d, min_d)
        same_output(t_new, t_old, label)
        # repeated call on the same objects: same answer, inputs untouched
        t_again = ribana.trace_chains(me, mx, max_d, min_d)
        same_output(t_again, t_new, label + ":again")
        assert me.df.equals(e_before) and mx.df.equals(x_before), f"{label}: an input list was modified"
        assert me.df.index.equals(e_before.index) and mx.df.index.equals(x_before.index)
        n_chains_multi += int((t_new.df["geom2"] > 1).sum() > 0)
    # the lists given as plain tables (Motl.load renumbers their rows) -- same chains
    for label, me, mx, max_d, min_d in cases[:60]:
        t_df = ribana.trace_chains(me.df, mx.df, max_d, min_d)
        check_property(me, mx, t_df, max_d, min_d, label + ":tables")
        same_output(t_df, ORIG["trace_chains"](me.df, mx.df, max_d, min_d), label + ":tables")
    for need in ("tail cut off by add_chain_suffix", "head cut off by add_chain_prefix", "two-sided connection",
                 "two-sided connection with tail and head cut", "existing link kept (suffix)", "existing link kept (prefix)"):
        assert events[need] > 0, f"the inputs never reached: {need}"
    if verbose:
        print("branches reached:", dict(events))
        print(f"{len(cases)} cases, {n_links} links checked, {n_chains_multi} cases with chains longer than 1")
    return len(cases), n_links

def id_variants(rng):
    """paired lists whose id columns are unusual but valid: particle numbers restarting in every tomogram, integer-typed
    id columns in one of the lists, tomogram numbers that are negative / zero, a single tomogram with two particles"""
    n = 0
    for k in range(40):
        me, mx = make_pair(rng, int(rng.integers(2, 40)), 3, ["cluster", "line"][k % 2], index_mode=["default", "shuffled"][k % 2],
                           tomo_layout=["blocks", "interleaved"][(k // 2) % 2])
        if k % 4 == 0:  # particle numbers 1..m in every tomogram
            for m in (me, mx):
                m.df["subtomo_id"] = m.df.groupby("tomo_id").cumcount().to_numpy() + 1.0
        if k % 4 == 1:  # integer-typed id columns in the exit list only
            mx.df = mx.df.astype({"tomo_id": int, "subtomo_id": int})
        if k % 4 == 2:  # tomogram numbers -2, 0, 14
            for m in (me, mx):
                m.df["tomo_id"] = m.df["tomo_id"].map({3.0: 0.0, 17.0: -2.0, 5.0: 14.0})
        max_d, min_d = float(rng.choice([4.0, 9.0])), [0, 0.0, 1.0, np.float64(0.5), np.float32(0.5), np.int64(1)][k % 6]
        label = f"ids{k}"
        if k % 4 == 0:
            # the independent check keys particles by (tomogram, particle number): still unique
            pass
        t_new = ribana.trace_chains(me, mx, max_d, min_d)
        check_property(me, mx, t_new, max_d, float(min_d), label)
        same_output(t_new, ORIG["trace_chains"](me, mx, max_d, min_d), label)
        n += 1
    # smallest inputs: two particles in one tomogram, linked / not linked / reversed row order
    for max_d in (1.0, 3.0, 3.0000001, 2.9999999):
        for flip in (False, True):
            e = np.array([[0.0, 0, 0], [5.0, 0, 0]])
            x = np.array([[2.0, 0, 0], [90.0, 0, 0]])  # exit of particle 0 is 3 away from the entry of particle 1
            if flip:
                e, x = e[::-1], x[::-1]
            dfs = []
            for c in (e, x):
                df = pd.DataFrame(0.0, index=[0, 1], columns=COLS)
                df[["x", "y", "z"]] = c
                df["tomo_id"], df["subtomo_id"] = 1.0, [1.0, 2.0]
                dfs.append(df)
            me, mx = cryomotl.Motl(dfs[0]), cryomotl.Motl(dfs[1])
            t_new = ribana.trace_chains(me, mx, max_d)  # min_distance left at its default
            check_property(me, mx, t_new, max_d, 0, f"two:{max_d}:{flip}")
            same_output(t_new, ORIG["trace_chains"](me, mx, max_d), f"two:{max_d}:{flip}")
            assert (t_new.df["object_id"].nunique() == 1) == (max_d >= 3.0), f"two:{max_d}:{flip}: wrong number of chains"
            n += 1
    return n


def outside_the_quantifier(rng):
    """informative only (no influence on PASS): what happens for unpaired lists / a negative min_distance"""
    me, mx = make_pair(rng, 12, 2, "cluster")
    trials = {}
    other = cryomotl.Motl(mx.df.copy()); other.df["tomo_id"] = other.df["tomo_id"] + 1
    trials["different tomogram sets"] = (me, other, 5.0, 0)
    short = cryomotl.Motl(mx.df.iloc[:-1].copy())
    trials["exit list one row short"] = (me, short, 5.0, 0)
    mixed = cryomotl.Motl(mx.df.copy()); mixed.df["subtomo_id"] = mixed.df["subtomo_id"].to_numpy()[::-1]
    trials["subtomo_id columns differ"] = (me, mixed, 5.0, 0)
    trials["min_distance = -1"] = (me, mx, 5.0, -1)
    trials["min_distance = NaN"] = (me, mx, 5.0, float("nan"))
    for name, args in trials.items():
        try:
            ribana.trace_chains(*args)
            print(f"  outside the quantifier, {name}: no exception")
        except Exception as exc:
            print(f"  outside the quantifier, {name}: {type(exc).__name__}: {str(exc)[:90]}")


if __name__ == "__main__":
    rng = np.random.default_rng(77)
    n_ids = id_variants(rng)
    print(f"{n_ids} inputs with unusual but valid id columns / smallest sizes: property holds, identical to the original")
    outside_the_quantifier(rng)
    install_counters()
    run_all(n_random=int(sys.argv[1]) if len(sys.argv) > 1 else 330)
    print("PASS")
