"""C17 / change a: column layouts and the defocus reader dispatch as tables.

Checks (1) the property: defocus loaders return the numbers of their files (Angstrom -> micrometre, mean = (U+V)/2),
the STOPGAP wedge list has one row per tilt per tomogram pairing the i-th tilt / defocus / exposure with that
tomogram's dimensions, pixel size, z-shift and microscope constants, the EM wedge list holds min / max tilt;
(2) the functions of the tree give exactly what the ORIGINAL function texts (kept below) give on the same inputs.
Run:  cd /tmp/wt7/C17 && /venv/bin/python /tmp/seedsS/C17/a/demo.py
"""
import sys, os
sys.path.insert(0, os.getcwd())
import warnings
warnings.filterwarnings("ignore")
import types, tempfile, shutil
import numpy as np
import pandas as pd
import emfile
from cryocat import ioutils, wedgeutils, starfileio

ORIG_IOUTILS = r'''
def defocus_load(input_data, file_type="gctf"):

    if isinstance(input_data, pd.DataFrame):
        defocus_df = input_data
    elif isinstance(input_data, str):
        if file_type.lower() == "gctf":
            defocus_df = gctf_read(input_data)
        elif file_type.lower() == "ctffind4":
            defocus_df = ctffind4_read(input_data)
        elif file_type.lower() == "warp":
            defocus_df = warp_ctf_read(input_data)
        else:
            raise ValueError(f"The file type {file_type} is not supported.")
    else:  # isinstance(input_data, np.ndarray):
        df_columns = ["defocus1", "defocus2", "astigmatism", "phase_shift", "defocus_mean"]
        defocus_df = pd.DataFrame(input_data, columns=df_columns)

    return defocus_df
'''
ORIG_WEDGE = r'''
def create_wedge_list_sg(
    tomo_id,
    tomo_dim,
    pixel_size,
    tlt_file,
    z_shift=0.0,
    ctf_file=None,
    ctf_file_type="gctf",
    dose_file=None,
    voltage=300.0,
    amp_contrast=0.07,
    cs=2.7000,
    output_file=None,
    drop_nan_columns=True,
):

    wedge_list_df = pd.DataFrame(
        columns=[
            "tomo_num",
            "pixelsize",
            "tomo_x",
            "tomo_y",
            "tomo_z",
            "z_shift",
            "tilt_angle",
            "defocus",
            "exposure",
            "voltage",
            "amp_contrast",
            "cs",
        ]
    )

    tilts = ioutils.tlt_load(tlt_file)

    wedge_list_df["tilt_angle"] = tilts

    if ctf_file is not None:
        ctf_df = ioutils.defocus_load(ctf_file, ctf_file_type)
        defocus = ctf_df["defocus_mean"].values
        check_data_consistency(defocus, tilts, "ctf", tlt_file)
        wedge_list_df["defocus"] = defocus

    if dose_file is not None:
        dose = ioutils.total_dose_load(dose_file)
        check_data_consistency(dose, tilts, "dose", tlt_file)
        wedge_list_df["exposure"] = dose

    tomo_dimensions = ioutils.dimensions_load(tomo_dim)
    z_shift = ioutils.z_shift_load(z_shift)

    wedge_list_df["tomo_num"] = tomo_id
    wedge_list_df["pixelsize"] = pixel_size
    wedge_list_df[["tomo_x", "tomo_y", "tomo_z"]] = np.repeat(tomo_dimensions.values, tilts.shape[0], axis=0)
    wedge_list_df["z_shift"] = z_shift.values[0][0]
    wedge_list_df["voltage"] = voltage
    wedge_list_df["amp_contrast"] = amp_contrast
    wedge_list_df["cs"] = cs

    if drop_nan_columns:
        wedge_list_df = wedge_list_df.dropna(axis=1, how="all")

    if output_file is not None:
        starfileio.Starfile.write(
            [wedge_list_df], output_file, specifiers=["data_stopgap_wedgelist"], number_columns=False
        )
    return wedge_list_df

def create_wedge_list_em_batch(
    tomo_list,
    tlt_file_format,
    output_file=None,
):

    wedge_list_df = pd.DataFrame(columns=["tomo_num", "min_angle", "max_angle"])

    tomograms = ioutils.tlt_load(tomo_list).astype(int)

    wedge_list_df["tomo_num"] = tomograms
    tilts_min = []
    tilts_max = []

    for t in tomograms:
        tlt_file = ioutils.fileformat_replace_pattern(tlt_file_format, t, "x", raise_error=False)
        tilts = ioutils.tlt_load(tlt_file).astype(np.single)
        tilts_min.append(np.min(tilts))
        tilts_max.append(np.max(tilts))

    wedge_list_df["min_angle"] = np.asarray(tilts_min)
    wedge_list_df["max_angle"] = np.asarray(tilts_max)

    if output_file is not None:
        wedge_array = wedge_list_df.to_numpy()
        wedge_array = wedge_array.reshape((1, wedge_array.shape[0], wedge_array.shape[1])).astype(np.single)
        emfile.write(output_file, wedge_array, {}, overwrite=True)

    return wedge_list_df
'''

# ---- original functions, executed in copies of the module namespaces ------------------------------------------
io_ns = dict(vars(ioutils))
exec(ORIG_IOUTILS, io_ns)
orig_io = types.SimpleNamespace(**io_ns)          # ioutils with the original defocus_load
w_ns = dict(vars(wedgeutils))
w_ns["ioutils"] = orig_io
exec(ORIG_WEDGE, w_ns)
# the batch function text is untouched; rebind it so that it calls the original single-tomogram function
_b = wedgeutils.create_wedge_list_sg_batch
w_ns["create_wedge_list_sg_batch"] = types.FunctionType(_b.__code__, w_ns, _b.__name__, _b.__defaults__, _b.__closure__)
orig_w = types.SimpleNamespace(**w_ns)

FAIL = []
def check(cond, msg):
    if not cond:
        FAIL.append(msg)
        if len(FAIL) < 15:
            print("FAIL:", msg)

def same_frame(a, b, msg):
    try:
        pd.testing.assert_frame_equal(a, b, check_exact=True)
    except AssertionError as e:
        check(False, msg + ": " + str(e).replace("\n", " ")[:300])

def outcome(f, *a, **k):
    try:
        return ("ok", f(*a, **k))
    except Exception as e:
        return ("exc", type(e).__name__ + ": " + str(e))

EXPECTED_SG = ["tomo_num", "pixelsize", "tomo_x", "tomo_y", "tomo_z", "z_shift", "tilt_angle", "defocus", "exposure",
               "voltage", "amp_contrast", "cs"]
DEF_COLS = ["defocus1", "defocus2", "astigmatism", "phase_shift", "defocus_mean"]

# ---- file generators ------------------------------------------------------------------------------------------
def write_lines(p, vals, fmt="{:.4f}"):
    with open(p, "w") as f:
        for v in vals:
            f.write(fmt.format(v) + "\n")

def gen_tilts(rng, n):
    kind = rng.integers(0, 4)
    if kind == 0:
        t = np.sort(rng.uniform(-70, 70, n))
    elif kind == 1:
        t = -60.0 + 3.0 * np.arange(n)                       # regular, contains 0 when n > 20
    elif kind == 2:
        t = np.sort(rng.uniform(-70, -1, n))                 # all negative
    else:
        t = np.sort(np.round(rng.uniform(-5, 5, n), 0))      # repeated values and zeros
    return np.round(t, 4)

def write_gctf(p, U, V, A, P=None):
    with open(p, "w") as f:
        f.write("\ndata_\n\nloop_\n_rlnMicrographName #1\n_rlnDefocusU #2\n_rlnDefocusV #3\n_rlnDefocusAngle #4\n")
        if P is not None:
            f.write("_rlnPhaseShift #5\n")
        f.write("_rlnCtfFigureOfMerit #%d\n" % (5 if P is None else 6))
        for i in range(len(U)):
            row = ["img_%03d.mrc" % i, "%.6f" % U[i], "%.6f" % V[i], "%.6f" % A[i]]
            if P is not None:
                row.append("%.6f" % P[i])
            row.append("%.6f" % 0.1)
            f.write("\t".join(row) + "\n")
        f.write("\n")

def write_ctffind4(p, U, V, A, P, n_header):
    with open(p, "w") as f:
        for k in range(n_header):
            f.write("# header line %d; columns: #1 - micrograph number\n" % k)
        for i in range(len(U)):
            f.write("%f %f %f %f %f %f %f\n" % (i + 1, U[i], V[i], A[i], P[i], 0.05, 4.5))

def gen_ctf(rng, n):
    U = np.round(rng.uniform(5000, 60000, n), 2)
    V = np.round(U + rng.uniform(-3000, 3000, n), 2)
    if rng.integers(0, 4) == 0:
        V = U.copy()                                          # no astigmatism
    if rng.integers(0, 5) == 0:
        U[0] = 0.0                                            # a zero defocus is a number like any other
    A = np.round(rng.uniform(-90, 90, n), 3)
    P = np.round(rng.uniform(0, 3.1, n), 4)
    return U, V, A, P

# ---- part 1: defocus loaders ----------------------------------------------------------------------------------
def part_defocus(rng, d):
    for case in range(60):
        n = [1, 2, 80][case] if case < 3 else int(rng.integers(1, 81))
        U, V, A, P = gen_ctf(rng, n)
        with_phase = bool(rng.integers(0, 2))
        pg = os.path.join(d, "c%03d_gctf.star" % case)
        pc = os.path.join(d, "c%03d_ctffind4.txt" % case)
        write_gctf(pg, U, V, A, P if with_phase else None)
        write_ctffind4(pc, U, V, A, P, int(rng.integers(0, 7)))
        for ftype, pth, tol in (("gctf", pg, 1e-9), ("GCTF", pg, 1e-9), ("Gctf", pg, 1e-9),
                                ("ctffind4", pc, 2e-6), ("CTFFIND4", pc, 2e-6)):
            got = ioutils.defocus_load(pth, ftype)
            check(list(got.columns) == DEF_COLS, "defocus columns %s" % ftype)
            check(got.shape == (n, 5), "defocus shape %s %s" % (ftype, got.shape))
            exp_p = P if (with_phase or ftype.lower() == "ctffind4") else np.zeros(n)
            exp = np.column_stack([U * 1e-4, V * 1e-4, A, exp_p, (U + V) / 2 * 1e-4])
            check(np.allclose(got.to_numpy(dtype=float), exp, rtol=tol * 10, atol=tol), "defocus values %s case %d" % (ftype, case))
            same_frame(got, orig_io.defocus_load(pth, ftype), "defocus_load vs original (%s)" % ftype)
            if ftype == "gctf":
                same_frame(got, ioutils.defocus_load(pth), "default file type is gctf")
        # array and frame inputs are taken as they are, whatever the file type says
        arr = np.column_stack([U, V, A, P, (U + V) / 2]) * 1e-4
        for ftype in ("gctf", "warp", "nonsense", ""):
            got = ioutils.defocus_load(arr, ftype)
            check(list(got.columns) == DEF_COLS and np.array_equal(got.to_numpy(), arr), "array input %r" % ftype)
            same_frame(got, orig_io.defocus_load(arr, ftype), "array input vs original")
            fr = pd.DataFrame(arr, columns=DEF_COLS, index=np.arange(n) + 5)
            check(ioutils.defocus_load(fr, ftype) is fr, "frame input returned as is")
        # unsupported file types: same error as the original, no reader is tried
        for ftype in ("imod", "gctf ", "", "ctffind", "ctffind5", "star", "None"):
            a = outcome(ioutils.defocus_load, pg, ftype)
            b = outcome(orig_io.defocus_load, pg, ftype)
            check(a[0] == "exc" and a == b, "unsupported type %r: %s vs %s" % (ftype, a, b))
            check(a[1] == "ValueError: The file type %s is not supported." % ftype, "message %r" % (a[1],))
        for ftype in (None, 3):
            a = outcome(ioutils.defocus_load, pg, ftype)
            b = outcome(orig_io.defocus_load, pg, ftype)
            check(a[0] == "exc" and a == b, "non-string type %r: %s vs %s" % (ftype, a, b))

# ---- part 2: wedge lists ----------------------------------------------------------------------------------------
def part_wedge(rng, d):
    for case in range(70):
        sub = os.path.join(d, "w%03d" % case)
        os.makedirs(sub)
        n_tomo = [1, 5][case] if case < 2 else int(rng.integers(1, 6))
        tomos = np.sort(rng.choice(np.arange(1, 400), n_tomo, replace=False))
        if case % 7 == 0 and case % 3 != 0:
            tomos = tomos[::-1].copy()                       # array / list input: the order of the list is the order of the table
                                                             # (a list read from a file is sorted by the loader)
        pixel = [1.35, 2, 0.834, 10.0][case % 4]
        volt, amp, cs = [(300.0, 0.07, 2.7), (200.0, 0.1, 2.0), (300, 0.0, 0)][case % 3]
        use_ctf = case % 3 != 1
        ctf_type = ["gctf", "ctffind4"][case % 2]
        use_dose = case % 4 != 2
        dims = {t: rng.integers(1, 5000, 3) for t in tomos}
        zs = {t: float(np.round(rng.uniform(-200, 200), 2)) for t in tomos}
        if case % 5 == 0:
            zs[tomos[0]] = 0.0
        tl, df, ds = {}, {}, {}
        for t in tomos:
            n = int(rng.integers(1, 81)) if case % 6 else [1, 2, 80, 41][(case // 6) % 4]
            tl[t] = gen_tilts(rng, n)
            write_lines(os.path.join(sub, "%04d.tlt" % t), tl[t])
            U, V, A, P = gen_ctf(rng, n)
            df[t] = (U + V) / 2 * 1e-4
            if ctf_type == "gctf":
                write_gctf(os.path.join(sub, "%04d_ctf.txt" % t), U, V, A, P if case % 4 == 0 else None)
            else:
                write_ctffind4(os.path.join(sub, "%04d_ctf.txt" % t), U, V, A, P, 5)
            ds[t] = np.round(np.abs(rng.permutation(n) * 3.1), 2)     # contains a dose of exactly 0
            write_lines(os.path.join(sub, "%03d.dose" % t), ds[t], "{:.2f}")
            write_lines(os.path.join(sub, "%03d_dim.txt" % t), [0], "%d %d %d" % tuple(dims[t]))
            write_lines(os.path.join(sub, "%03d_zs.txt" % t), [0], "%r" % zs[t])
        write_lines(os.path.join(sub, "tomos.txt"), tomos, "{:d}")

        dim_mode = case % 3          # 0: Nx4 array, 1: one 1x3 list for all, 2: files
        zs_mode = (case // 3) % 3    # 0: Nx2 array, 1: one number for all, 2: files
        kw = dict(pixel_size=pixel, tlt_file_format=os.path.join(sub, "$xxxx.tlt"), voltage=volt, amp_contrast=amp, cs=cs)
        if dim_mode == 0:
            kw["tomo_dim"] = np.array([[t, *dims[t]] for t in tomos])
        elif dim_mode == 1:
            one = [int(x) for x in dims[tomos[0]]]
            kw["tomo_dim"] = one
            dims = {t: np.array(one) for t in tomos}
        else:
            kw["tomo_dim_file_format"] = os.path.join(sub, "$xxx_dim.txt")
        if zs_mode == 0:
            kw["z_shift"] = np.array([[t, zs[t]] for t in tomos])
        elif zs_mode == 1:
            one = [0.0, -12.5, 7.0, 0.25][case % 4]
            kw["z_shift"] = one
            zs = {t: one for t in tomos}
        else:
            kw["z_shift_file_format"] = os.path.join(sub, "$xxx_zs.txt")
        if use_ctf:
            kw["ctf_file_format"] = os.path.join(sub, "$xxxx_ctf.txt")
            kw["ctf_file_type"] = ctf_type
        if use_dose:
            kw["dose_file_format"] = os.path.join(sub, "$xxx.dose")
        tomo_in = [os.path.join(sub, "tomos.txt"), tomos.copy(), [int(t) for t in tomos]][case % 3]
        out = os.path.join(sub, "wedge.star")
        got = wedgeutils.create_wedge_list_sg_batch(tomo_in, output_file=out, **kw)
        ref = orig_w.create_wedge_list_sg_batch(tomo_in, output_file=os.path.join(sub, "wedge_orig.star"), **kw)
        same_frame(got, ref, "sg batch vs original, case %d" % case)
        check(open(out).read() == open(os.path.join(sub, "wedge_orig.star")).read(), "sg batch file vs original")

        # independent expectation
        exp_cols = [c for c in EXPECTED_SG if not ((c == "defocus" and not use_ctf) or (c == "exposure" and not use_dose))]
        check(list(got.columns) == exp_cols, "sg columns %s" % list(got.columns))
        check(len(got) == sum(len(tl[t]) for t in tomos) and list(got.index) == list(range(len(got))), "one row per tilt per tomogram")
        r = 0
        for t in tomos:
            n = len(tl[t])
            blk = got.iloc[r : r + n]
            r += n
            check((blk["tomo_num"] == t).all(), "tomo_num")
            check((blk["pixelsize"] == pixel).all(), "pixelsize")
            check((blk[["tomo_x", "tomo_y", "tomo_z"]].to_numpy() == dims[t][None, :]).all(), "dimensions case %d" % case)
            check((blk["z_shift"] == zs[t]).all(), "z_shift case %d" % case)
            check(np.array_equal(blk["tilt_angle"].to_numpy(), tl[t].astype(np.float32)), "i-th tilt angle")
            if use_ctf:
                check(np.allclose(blk["defocus"].to_numpy(dtype=float), df[t], rtol=1e-5, atol=1e-6), "i-th defocus")
            if use_dose:
                check(np.array_equal(blk["exposure"].to_numpy(), ds[t].astype(np.float32)), "i-th exposure")
            check((blk["voltage"] == volt).all() and (blk["amp_contrast"] == amp).all() and (blk["cs"] == cs).all(), "constants")
        # the written table re-reads to the same numbers
        back = starfileio.Starfile.read(out)[0][0]
        check(list(back.columns) == exp_cols and np.allclose(back.to_numpy(dtype=float), got.to_numpy(dtype=float), rtol=1e-5, atol=1e-5), "written sg list")

        # single tomogram, array and file inputs, with and without dropping empty columns
        t = tomos[case % n_tomo]
        for drop in (True, False):
            skw = dict(tomo_dim=[int(x) for x in dims[t]], pixel_size=pixel, z_shift=zs[t], voltage=volt, amp_contrast=amp, cs=cs,
                       drop_nan_columns=drop)
            if use_ctf:
                skw["ctf_file"] = np.column_stack([df[t]] * 5)
            if use_dose:
                skw["dose_file"] = ds[t].copy()
            g1 = wedgeutils.create_wedge_list_sg(int(t), tlt_file=tl[t].copy(), **skw)
            o1 = orig_w.create_wedge_list_sg(int(t), tlt_file=tl[t].copy(), **skw)
            same_frame(g1, o1, "sg single vs original")
            check(list(g1.columns) == (exp_cols if drop else EXPECTED_SG), "single columns drop=%s: %s" % (drop, list(g1.columns)))
            check(np.array_equal(g1["tilt_angle"].to_numpy(), tl[t]), "array tilts kept")
            check((g1[["tomo_x", "tomo_y", "tomo_z"]].to_numpy() == dims[t][None, :]).all(), "single dims")
            if use_ctf:
                check(np.array_equal(g1["defocus"].to_numpy(), df[t]), "array defocus kept")
            elif not drop:
                check(g1["defocus"].isna().all(), "no ctf -> empty column")
            if use_dose:
                check(np.array_equal(g1["exposure"].to_numpy(), ds[t]), "array dose kept")
        # defaults
        g2 = wedgeutils.create_wedge_list_sg(int(t), [10, 20, 30], 1.0, tl[t].copy())
        same_frame(g2, orig_w.create_wedge_list_sg(int(t), [10, 20, 30], 1.0, tl[t].copy()), "defaults vs original")
        check((g2["z_shift"] == 0.0).all() and (g2["voltage"] == 300.0).all() and (g2["amp_contrast"] == 0.07).all()
              and (g2["cs"] == 2.7).all() and list(g2.columns) == [c for c in EXPECTED_SG if c not in ("defocus", "exposure")], "defaults")

        # EM wedge list
        oute = os.path.join(sub, "wedge.em")
        ge = wedgeutils.create_wedge_list_em_batch(tomo_in, os.path.join(sub, "$xxxx.tlt"), output_file=oute)
        oe = orig_w.create_wedge_list_em_batch(tomo_in, os.path.join(sub, "$xxxx.tlt"), output_file=os.path.join(sub, "wedge_orig.em"))
        same_frame(ge, oe, "em batch vs original")
        check(open(oute, "rb").read() == open(os.path.join(sub, "wedge_orig.em"), "rb").read(), "em file vs original")
        check(list(ge.columns) == ["tomo_num", "min_angle", "max_angle"] and len(ge) == n_tomo, "em columns / rows")
        check(np.array_equal(ge["tomo_num"].to_numpy(), tomos), "em tomo numbers")
        check(np.array_equal(ge["min_angle"].to_numpy(), np.array([tl[t].min() for t in tomos], dtype=np.float32)), "em min")
        check(np.array_equal(ge["max_angle"].to_numpy(), np.array([tl[t].max() for t in tomos], dtype=np.float32)), "em max")
        arr = emfile.read(oute)[1]
        check(arr.shape == (1, n_tomo, 3) and np.array_equal(arr[0], ge.to_numpy().astype(np.float32)), "em file content")
        # conversion of the STOPGAP list gives the same extremes
        conv = wedgeutils.wedge_list_sg_to_em(out, os.path.join(sub, "conv.em"))
        order = np.argsort(tomos)
        check(np.array_equal(conv["tomo_id"].to_numpy(), tomos[order]), "sg->em ids")
        check(np.allclose(conv["min_tilt_angle"], ge["min_angle"].to_numpy()[order], atol=1e-4)
              and np.allclose(conv["max_tilt_angle"], ge["max_angle"].to_numpy()[order], atol=1e-4), "sg->em extremes")
        # repeated call on the same inputs: nothing was modified
        again = wedgeutils.create_wedge_list_sg_batch(tomo_in, **kw)
        same_frame(again, got, "repeated call")

def main():
    d = tempfile.mkdtemp(prefix="c17a_")
    try:
        rng = np.random.default_rng(1701)
        part_defocus(rng, d)
        part_wedge(rng, d)
    finally:
        shutil.rmtree(d, ignore_errors=True)
    if FAIL:
        print("FAIL (%d checks)" % len(FAIL))
        sys.exit(1)
    print("PASS")

main()
