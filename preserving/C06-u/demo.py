"""C06 / change b: the gimbal-lock rule of normals_to_euler_angles (psi = 0 for normals along +-z) is moved into the
helper _zero_psi_of_polar_normals(psi, unit_normals), which updates the psi array of its only caller in place.

Run as:  cd /tmp/wt11/C06 && /venv/bin/python /tmp/seedsV/C06/b/demo.py
Checks (1) the property C06 against an independent SO(3) computation with hand-built rotation matrices,
(2) bit-identical outputs of the function in the tree and the original function text kept below,
(3) that the caller's inputs are left untouched, also over repeated calls on the same objects.
"""
import os
import sys

sys.path.insert(0, os.getcwd())

import itertools
import warnings

import numpy as np

warnings.filterwarnings("ignore")  # scipy warns at gimbal lock, this is expected here

import matplotlib

matplotlib.use("Agg")
from scipy.spatial.transform import Rotation as srot

from cryocat import geom

FAIL = []


def check(cond, msg):
    if not cond:
        FAIL.append(msg)
        if len(FAIL) <= 20:
            print("FAIL:", msg)


# ----------------------------------------------------------------------------------------------------------
# independent ground truth: matrices built by hand; scipy lower-case "zxz" is extrinsic: R = Rz(psi) Rx(theta) Rz(phi)
# ----------------------------------------------------------------------------------------------------------
def _rz(a):
    c, s = np.cos(a), np.sin(a)
    m = np.zeros(a.shape + (3, 3))
    m[..., 0, 0] = c
    m[..., 0, 1] = -s
    m[..., 1, 0] = s
    m[..., 1, 1] = c
    m[..., 2, 2] = 1.0
    return m


def _rx(a):
    c, s = np.cos(a), np.sin(a)
    m = np.zeros(a.shape + (3, 3))
    m[..., 0, 0] = 1.0
    m[..., 1, 1] = c
    m[..., 1, 2] = -s
    m[..., 2, 1] = s
    m[..., 2, 2] = c
    return m


def mats(angles):
    a = np.radians(np.atleast_2d(np.asarray(angles, dtype=float)))
    return _rz(a[:, 2]) @ _rx(a[:, 1]) @ _rz(a[:, 0])


def rot_angle_deg(m):
    """rotation angle of matrices (n,3,3), robust at 0 and at 180 degrees"""
    tr = np.trace(m, axis1=1, axis2=2)
    skew = np.stack([m[:, 2, 1] - m[:, 1, 2], m[:, 0, 2] - m[:, 2, 0], m[:, 1, 0] - m[:, 0, 1]], axis=1)
    return np.degrees(np.arctan2(np.linalg.norm(skew, axis=1) / 2.0, (tr - 1.0) / 2.0))


def truth_angular(a1, a2):
    m1, m2 = mats(a1), mats(a2)
    return rot_angle_deg(np.transpose(m1, (0, 2, 1)) @ m2)


def truth_cone(a1, a2):
    z1, z2 = mats(a1)[:, :, 2], mats(a2)[:, :, 2]
    return np.degrees(np.arctan2(np.linalg.norm(np.cross(z1, z2), axis=1), np.sum(z1 * z2, axis=1)))


def vec_angle(u, v):
    return np.degrees(np.arctan2(np.linalg.norm(np.cross(u, v), axis=1), np.sum(u * v, axis=1)))


TOL = 2e-5  # degrees; 2*acos(|q1.q2|) resolves about 2e-6 degrees next to 0

# ----------------------------------------------------------------------------------------------------------
# input families of the quantifier
# ----------------------------------------------------------------------------------------------------------
rng = np.random.default_rng(606)


def random_angles(n):
    return np.column_stack([rng.uniform(-180, 180, n), rng.uniform(0, 180, n), rng.uniform(-180, 180, n)])


def cube_rotations():
    out = []
    for perm in itertools.permutations(range(3)):
        for signs in itertools.product([1, -1], repeat=3):
            m = np.zeros((3, 3))
            for i in range(3):
                m[i, perm[i]] = signs[i]
            if np.linalg.det(m) > 0:
                out.append(m)
    assert len(out) == 24
    return srot.from_matrix(np.array(out)).as_euler("zxz", degrees=True)


lattice = np.array(list(itertools.product(np.arange(-180, 181, 45), np.arange(0, 181, 45), np.arange(-180, 181, 45))), dtype=float)
cube = cube_rotations()
gimbal = np.column_stack([rng.uniform(-180, 180, 60), np.repeat([0.0, 180.0], 30), rng.uniform(-180, 180, 60)])


def pairs():
    """yields (name, angles1, angles2) with equal numbers of rows"""
    for n in (1, 2, 3, 7, 50, 500):
        yield f"random{n}", random_angles(n), random_angles(n)
    a = random_angles(200)
    yield "near-identical", a, a + rng.normal(0, 1e-6, a.shape)
    yield "near-identical-1e-3", a, a + rng.normal(0, 1e-3, a.shape)
    yield "equal", a, a.copy()
    # antipodal: compose with a rotation by 180 degrees about a random axis
    ax = rng.normal(size=(200, 3))
    ax /= np.linalg.norm(ax, axis=1)[:, None]
    flip = srot.from_rotvec(ax * np.pi)
    yield "antipodal", a, (srot.from_euler("zxz", a, degrees=True) * flip).as_euler("zxz", degrees=True)
    yield "gimbal", gimbal, gimbal[::-1].copy()
    yield "gimbal-random", gimbal, random_angles(len(gimbal))
    i, j = np.meshgrid(np.arange(24), np.arange(24), indexing="ij")
    yield "cube", cube[i.ravel()], cube[j.ravel()]
    k = rng.integers(0, len(lattice), 500)
    l = rng.integers(0, len(lattice), 500)
    yield "lattice", lattice[k], lattice[l]
    yield "lattice-all-vs-shifted", lattice, np.roll(lattice, 1, axis=0)


# ----------------------------------------------------------------------------------------------------------
# (1) the property
# ----------------------------------------------------------------------------------------------------------
def property_checks():
    for name, a1, a2 in pairs():
        keep1, keep2 = a1.copy(), a2.copy()
        r1 = srot.from_euler("zxz", a1, degrees=True)
        r2 = srot.from_euler("zxz", a2, degrees=True)
        d, _ = geom.angular_distance(a1, a2)
        d_rot, _ = geom.angular_distance(r1, r2)
        t = truth_angular(a1, a2)
        check(d.shape == (len(a1),), f"{name}: shape {d.shape}")
        check(np.all((d >= 0) & (d <= 180.0)), f"{name}: angular distance outside [0,180]")
        check(np.allclose(d, t, atol=TOL, rtol=0), f"{name}: angular distance differs from the rotation angle by {np.max(np.abs(d - t))}")
        check(np.array_equal(d, d_rot), f"{name}: ndarray and Rotation input differ")
        # symmetric
        d_sym, _ = geom.angular_distance(a2, a1)
        check(np.allclose(d, d_sym, atol=TOL, rtol=0), f"{name}: not symmetric")
        # invariance under a common rotation on either side
        g = srot.from_euler("zxz", random_angles(len(a1)), degrees=True)
        d_left, _ = geom.angular_distance(g * r1, g * r2)
        d_right, _ = geom.angular_distance(r1 * g, r2 * g)
        check(np.allclose(d, d_left, atol=TOL, rtol=0), f"{name}: not left invariant {np.max(np.abs(d - d_left))}")
        check(np.allclose(d, d_right, atol=TOL, rtol=0), f"{name}: not right invariant {np.max(np.abs(d - d_right))}")
        # triangle inequality with a third rotation
        a3 = random_angles(len(a1)) if not name.startswith("cube") else cube[rng.integers(0, 24, len(a1))]
        d13, _ = geom.angular_distance(a1, a3)
        d32, _ = geom.angular_distance(a3, a2)
        check(np.all(d <= d13 + d32 + TOL), f"{name}: triangle inequality violated")
        # zero for equal rotations
        d0, dist0 = geom.angular_distance(a1, a1.copy())
        check(np.all(d0 <= TOL), f"{name}: d(a,a) = {d0.max()}")
        check(np.all(dist0 == 0), f"{name}: dist(a,a) != 0")
        # cone distance = angle between the z axes; in-plane distance in [0,180], zero for equal orientations
        c = geom.cone_distance(r1, r2)
        check(np.allclose(c, truth_cone(a1, a2), atol=TOL, rtol=0), f"{name}: cone distance")
        c2, ip = geom.cone_inplane_distance(a1, a2)
        check(np.array_equal(c, c2), f"{name}: cone_inplane_distance / cone_distance differ")
        check(np.all((ip >= 0) & (ip <= 180.0)), f"{name}: in-plane distance outside [0,180]")
        check(np.all(geom.inplane_distance(r1, r1) == 0), f"{name}: in-plane distance of equal orientations")
        allr = geom.compare_rotations(a1, a2)
        check(np.array_equal(allr[0], d) and np.array_equal(allr[1], c) and np.array_equal(allr[2], ip), f"{name}: compare_rotations")
        check(np.array_equal(geom.compare_rotations(a1, a2, rotation_type="angular_distance"), d), f"{name}: compare_rotations angular")
        # normals
        nrm = geom.euler_angles_to_normals(a1)
        check(nrm.shape == (len(a1), 3), f"{name}: normals shape")
        check(np.allclose(np.linalg.norm(nrm, axis=1), 1.0, atol=1e-12), f"{name}: normals are not unit vectors")
        check(np.allclose(nrm, mats(a1)[:, :, 2], atol=1e-12), f"{name}: normals are not the image of the z axis")
        check(np.allclose(geom.visualize_angles(a1, plot_rotations=False), mats(a1)[:, :, 2], atol=1e-12), f"{name}: visualize_angles")
        check(np.allclose(geom.visualize_rotations(r1, plot_rotations=False, radius=2.5), 2.5 * mats(a1)[:, :, 2], atol=1e-12), f"{name}: visualize_rotations")
        # inputs untouched
        check(np.array_equal(a1, keep1) and np.array_equal(a2, keep2), f"{name}: Euler angle inputs were modified")
        check(np.array_equal(r1.as_euler("zxz", degrees=True), srot.from_euler("zxz", keep1, degrees=True).as_euler("zxz", degrees=True)), f"{name}: Rotation input was modified")

    # single orientation given as a 1-d array / single Rotation
    for _ in range(50):
        a1, a2 = random_angles(1)[0], random_angles(1)[0]
        d, _ = geom.angular_distance(a1, a2)
        check(d.shape == (1,) and abs(d[0] - truth_angular(a1, a2)[0]) <= TOL, "single pair")
        check(abs(geom.cone_distance(srot.from_euler("zxz", a1, degrees=True), srot.from_euler("zxz", a2, degrees=True))[0] - truth_cone(a1, a2)[0]) <= TOL, "single cone")
        n1 = geom.euler_angles_to_normals(a1)
        check(n1.shape == (1, 3) and np.allclose(n1[0], mats(a1)[0][:, 2], atol=1e-12), "single normal")

    # normals -> Euler angles: the z axis of the result is the normalised normal
    special = np.array([[1, 0, 0], [-1, 0, 0], [0, 1, 0], [0, -1, 0], [0, 0, 1], [0, 0, -1], [0, 0, 7.5], [0, 0, -1e-3], [3, 0, 0], [0, -1e6, 0], [1, 1, 0], [1, 1, 1], [-2, 0, 2]], dtype=float)
    for n in (1, 2, 5, 100, 500):
        v = rng.normal(size=(n, 3)) * rng.choice([1e-6, 1e-2, 1.0, 30.0, 1e5], size=(n, 1))
        for normals in (v, np.vstack([special, v])):
            keep = normals.copy()
            unit = normals / np.linalg.norm(normals, axis=1)[:, None]
            for rep in range(2):
                e = geom.normals_to_euler_angles(normals)
                check(e.shape == (len(normals), 3), "normals_to_euler_angles shape")
                check(np.all(vec_angle(mats(e)[:, :, 2], unit) <= 1e-5), f"normals_to_euler_angles: z axis is not the normal (n={n})")
                check(np.all(vec_angle(geom.euler_angles_to_normals(e), unit) <= 1e-5), "round trip normals")
                ezzx = geom.normals_to_euler_angles(normals, output_order="zzx")
                check(np.array_equal(ezzx[:, [2, 1]], e[:, [1, 2]]), "zzx order")
            import pandas as pd

            df = pd.DataFrame(normals, columns=["x", "y", "z"])
            dfk = df.copy()
            e = geom.normals_to_euler_angles(df)
            check(np.all(vec_angle(mats(e)[:, :, 2], unit) <= 1e-5), "normals_to_euler_angles (DataFrame)")
            check(df.equals(dfk) and np.array_equal(normals, keep), "normals input was modified")


# ----------------------------------------------------------------------------------------------------------
# (2) the function in the tree against the original text
# ----------------------------------------------------------------------------------------------------------
ORIGINAL = """
def normals_to_euler_angles(input_normals, output_order="zxz"):
    if isinstance(input_normals, pd.DataFrame):
        normals = input_normals.loc[:, ["x", "y", "z"]].values
    elif isinstance(input_normals, np.ndarray):
        normals = input_normals
    else:
        raise UserInputError("The input_normals have to be either pandas dataFrame or numpy array")

    # normalize vectors
    normals = normals / np.linalg.norm(normals, axis=1)[:, np.newaxis]
    theta = np.degrees(np.arctan2(np.sqrt(normals[:, 0] ** 2 + normals[:, 1] ** 2), normals[:, 2]))

    psi = 90 + np.degrees(np.arctan2(normals[:, 1], normals[:, 0]))
    b_idx = np.where((normals[:, 0] == 0) & (normals[:, 1] == 0))
    psi[b_idx] = 0

    phi = np.random.rand(normals.shape[0]) * 360

    if output_order == "zzx":
        angles = np.column_stack((phi, psi, theta))
    else:
        angles = np.column_stack((phi, theta, psi))

    return angles
"""
_ns = dict(vars(geom))
exec(ORIGINAL, _ns)
orig_normals_to_euler_angles = _ns["normals_to_euler_angles"]


def run(fn, seed, *args, **kwargs):
    """call fn with a seeded global generator; returns (result or exception type, generator state afterwards)"""
    np.random.seed(seed)
    try:
        with np.errstate(all="ignore"):
            res = fn(*args, **kwargs)
    except Exception as e:  # noqa
        res = type(e)
    return res, np.random.get_state()[1].copy(), np.random.get_state()[2]


def same_result(x, y):
    if isinstance(x, type) or isinstance(y, type):
        return x is y
    return type(x) is type(y) and x.dtype == y.dtype and x.shape == y.shape and np.array_equal(x, y, equal_nan=True)


def comparison_checks():
    import pandas as pd

    count = 0
    special = np.array(
        [[1, 0, 0], [-1, 0, 0], [0, 1, 0], [0, -1, 0], [0, 0, 1], [0, 0, -1], [0, 0, 7.5], [0, 0, -1e-3], [0.0, -0.0, 2.0],
         [-0.0, -0.0, -2.0], [1e-300, 0, 1], [0, 1e-200, -1], [1e-20, 1e-20, 1], [3, 0, 0], [0, -1e6, 0], [1, 1, 0], [1, 1, 1]],
        dtype=float,
    )
    degenerate = np.array([[0, 0, 0], [np.nan, 0, 1], [0, 0, np.inf], [np.inf, 1, 1]], dtype=float)  # outside the quantifier
    inputs = []
    for n in (1, 2, 3, 10, 100, 500):
        v = rng.normal(size=(n, 3)) * rng.choice([1e-6, 1e-2, 1.0, 30.0, 1e5], size=(n, 1))
        inputs += [v, np.vstack([special, v]), np.vstack([v, special])[::-1], np.vstack([v, degenerate, special])]
        # many exactly polar / axis aligned normals in between
        w = v.copy()
        w[rng.random(n) < 0.4, :2] = 0.0
        w[rng.random(n) < 0.2, 0] = 0.0
        inputs += [w, np.asfortranarray(w), w.astype(np.float32)]
    inputs += [special[4:5], special[5:6], special.astype(int), (special * 3).astype(np.int64)[:, ::-1]]
    inputs.append(euler_normals := geom.euler_angles_to_normals(lattice))  # normals of the Euler lattice / of the cube rotations
    inputs.append(geom.euler_angles_to_normals(cube))
    inputs.append(np.zeros((0, 3)))

    for k, normals in enumerate(inputs):
        keep = normals.copy()
        for order in ("zxz", "zzx", "anything"):
            for rep in range(2):  # repeated calls on the same object
                new, st_new, pos_new = run(geom.normals_to_euler_angles, 1000 + k, normals, output_order=order)
                old, st_old, pos_old = run(orig_normals_to_euler_angles, 1000 + k, normals, output_order=order)
                check(same_result(new, old), f"input {k} order={order}: patched / original outputs differ")
                check(np.array_equal(st_new, st_old) and pos_new == pos_old, f"input {k}: random generator left in a different state")
                count += 1
        check(np.array_equal(normals, keep, equal_nan=True), f"input {k}: normals were modified")
        if normals.shape[0] and normals.dtype.kind == "f":
            df = pd.DataFrame(normals, columns=["x", "y", "z"])
            df["extra"] = np.arange(len(df))
            df = df[["z", "extra", "y", "x"]]  # columns are picked by name
            dfk = df.copy()
            new, st_new, pos_new = run(geom.normals_to_euler_angles, 7 + k, df)
            old, st_old, pos_old = run(orig_normals_to_euler_angles, 7 + k, df)
            arr, _, _ = run(geom.normals_to_euler_angles, 7 + k, normals)
            check(same_result(new, old) and same_result(new, arr), f"input {k}: DataFrame input")
            check(np.array_equal(st_new, st_old) and pos_new == pos_old, f"input {k}: generator state (DataFrame)")
            check(df.equals(dfk) and list(df.columns) == list(dfk.columns), f"input {k}: DataFrame was modified")
            count += 1
    # wrong types are refused alike
    for bad in ([[0, 0, 1]], (0, 0, 1), None):
        new, _, _ = run(geom.normals_to_euler_angles, 1, bad)
        old, _, _ = run(orig_normals_to_euler_angles, 1, bad)
        check(new is old and isinstance(new, type), "wrong input type")
    # the helper (when present) follows the output buffer convention: writes psi only, returns nothing
    helper = getattr(geom, "_zero_psi_of_polar_normals", None)
    if helper is not None:
        for normals in inputs[:12]:
            unit = normals / np.linalg.norm(normals, axis=1)[:, None]
            unit_keep = unit.copy()
            psi = rng.uniform(-180, 180, len(unit))
            expect = psi.copy()
            expect[(unit[:, 0] == 0) & (unit[:, 1] == 0)] = 0
            check(helper(psi, unit) is None, "helper returns something")
            check(np.array_equal(psi, expect, equal_nan=True), "helper: psi")
            check(np.array_equal(unit, unit_keep, equal_nan=True), "helper modified the normals")
    return count


if __name__ == "__main__":
    property_checks()
    n = comparison_checks()
    if FAIL:
        print(f"{len(FAIL)} check(s) failed")
        sys.exit(1)
    print(f"PASS (property holds; {n} patched/original comparisons bit-identical incl. random generator state; inputs untouched)")
