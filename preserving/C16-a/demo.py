"""C16 demo (change a): dose_filter applies the Grant-Grigorieff exposure attenuation.

Run as:  cd /tmp/wt6/C16 && /venv/bin/python /tmp/seedsP/C16/a/demo.py

Checks, over many random stacks inside the quantifier (1..10 images, independent even/odd sizes 4..64,
pixel sizes 0.5..10 A, doses 0..300 e/A^2 in any order, random images and pure plane waves):
  1. DFT(out_i)(f) == DFT(in_i)(f) * exp(-dose_i / (2*(0.245*f**-1.665 + 2.81))) with f computed independently
     from np.fft.fftfreq; DC component (image mean) unchanged;
  2. zero dose is the identity, linearity, power never increases, more dose attenuates more, d1 then d2 == d1+d2;
  3. the frequency array handed to dose_filter_single_image equals an independent one;
  4. the output of the module's dose_filter equals the output of a verbatim copy of the ORIGINAL dose_filter
     (nested python loops for the frequency array) on the same inputs, for both input/output orders and several dtypes.
"""

import sys, os

sys.path.insert(0, os.getcwd())

import io
import contextlib
import tempfile
import warnings

import numpy as np

warnings.filterwarnings("ignore")
np.seterr(all="ignore")

from cryocat import tiltstack, ioutils
from cryocat.tiltstack import TiltStack

assert os.path.abspath(tiltstack.__file__).startswith(os.getcwd()), tiltstack.__file__

A, B, C = 0.245, -1.665, 2.81
FAILS = []


def check(cond, msg):
    if not cond:
        FAILS.append(msg)
        if len(FAILS) <= 20:
            print("FAIL:", msg)


def quiet(fn, *args, **kwargs):
    with contextlib.redirect_stdout(io.StringIO()):
        return fn(*args, **kwargs)


# ---------------------------------------------------------------------------------------------------------------
# verbatim copies of the ORIGINAL functions (HEAD of the worktree)
# ---------------------------------------------------------------------------------------------------------------
def orig_dose_filter_single_image(image, dose, freq_array):
    a = 0.245
    b = -1.665
    c = 2.81
    ft = np.fft.fftshift(np.fft.fft2(image))
    q = np.exp((-dose) / (2 * ((a * (freq_array**b)) + c)))
    filtered_image = np.fft.ifft2(np.fft.ifftshift(ft * q))
    return filtered_image.real


def orig_frequency_array(width, height, pixel_size):
    frequency_array = np.zeros((height, width))
    cen_x = width // 2
    cen_y = height // 2
    rstep_x = 1 / (width * pixel_size)
    rstep_y = 1 / (height * pixel_size)
    for x in range(width):
        for y in range(height):
            d = np.sqrt(((x - cen_x) ** 2 * rstep_x**2) + ((y - cen_y) ** 2 * rstep_y**2))
            frequency_array[y, x] = d
    return frequency_array


def orig_total_dose_load(input_dose):
    if isinstance(input_dose, np.ndarray):
        return input_dose
    elif isinstance(input_dose, list):
        return np.asarray(input_dose)
    raise ValueError("demo copy handles arrays and lists only")


def orig_dose_filter(tilt_stack, pixel_size, total_dose, output_file=None, input_order="xyz", output_order="xyz"):
    ts = TiltStack(tilt_stack=tilt_stack, input_order=input_order, output_order=output_order)
    pixel_size = float(pixel_size)
    total_dose = orig_total_dose_load(total_dose)
    frequency_array = orig_frequency_array(ts.width, ts.height, pixel_size)
    ts.data = np.array(ts.data, copy=True)
    for z in range(ts.n_tilts):
        image = ts.data[z, :, :]
        ts.data[z, :, :] = orig_dose_filter_single_image(image, total_dose[z], frequency_array)
    ts.write_out(output_file)
    return ts.correct_order()


# ---------------------------------------------------------------------------------------------------------------
# independent reference (unshifted DFT layout, np.fft.fftfreq)
# ---------------------------------------------------------------------------------------------------------------
def ref_attenuation(height, width, pixel_size, dose):
    fy = np.fft.fftfreq(height, d=pixel_size)[:, None]
    fx = np.fft.fftfreq(width, d=pixel_size)[None, :]
    f = np.sqrt(fx * fx + fy * fy)
    q = np.ones((height, width))
    nz = f > 0
    q[nz] = np.exp(-dose / (2.0 * (A * f[nz] ** B + C)))
    return q


def ref_filter_zyx(stack_zyx, pixel_size, doses):
    out = np.empty(stack_zyx.shape, dtype=float)
    for i in range(stack_zyx.shape[0]):
        h, w = stack_zyx.shape[1:]
        q = ref_attenuation(h, w, pixel_size, float(doses[i]))
        out[i] = np.fft.ifft2(np.fft.fft2(stack_zyx[i].astype(float)) * q).real
    return out


def plane_wave(h, w, ky, kx, phase):
    y, x = np.mgrid[0:h, 0:w]
    return np.cos(2 * np.pi * (ky * y / h + kx * x / w) + phase)


def random_case(rng, case_id):
    n = int(rng.integers(1, 11))
    h = int(rng.integers(4, 65))
    w = int(rng.integers(4, 65))
    if case_id % 7 == 0:
        h, w = (4, 64) if case_id % 2 else (63, 5)
    if case_id % 11 == 0:
        h = w = int(rng.choice([4, 5, 64, 63]))
    px = float(rng.uniform(0.5, 10.0))
    if case_id % 5 == 0:
        px = float(rng.choice([0.5, 1.0, 10.0, 2]))
    doses = rng.uniform(0.0, 300.0, size=n)
    if case_id % 3 == 0:
        doses[rng.integers(0, n)] = 0.0
    if case_id % 4 == 0:
        doses[rng.integers(0, n)] = 300.0
    if case_id % 6 == 0 and n > 1:
        doses[0] = doses[-1]  # ties
    if case_id % 2 == 0:
        doses = np.sort(doses)[::-1].copy()
    stack = rng.normal(loc=rng.uniform(-50, 50), scale=rng.uniform(0.1, 30), size=(n, h, w))
    if case_id % 3 == 1:  # pure plane waves
        for i in range(n):
            stack[i] = rng.uniform(0.5, 5) * plane_wave(
                h, w, int(rng.integers(0, h)), int(rng.integers(0, w)), rng.uniform(0, 6.28)
            ) + rng.uniform(-3, 3)
    return stack, px, doses


# ---------------------------------------------------------------------------------------------------------------
def main():
    rng = np.random.default_rng(1601)
    n_cases = 150
    for case_id in range(n_cases):
        stack_zyx, px, doses = random_case(rng, case_id)
        n, h, w = stack_zyx.shape
        tag = f"case {case_id} n={n} h={h} w={w} px={px:.4f}"
        stack_xyz = np.ascontiguousarray(stack_zyx.transpose(2, 1, 0))
        scale = np.abs(stack_zyx).max() + 1.0

        # --- 1. formula at every frequency of every image (default xyz order)
        inp_copy = stack_xyz.copy()
        doses_copy = doses.copy()
        out_xyz = quiet(tiltstack.dose_filter, stack_xyz, px, doses)
        check(np.array_equal(stack_xyz, inp_copy), tag + ": input stack modified")
        check(np.array_equal(doses, doses_copy), tag + ": doses modified")
        check(out_xyz.shape == (w, h, n), tag + f": wrong output shape {out_xyz.shape}")
        check(out_xyz.dtype == stack_xyz.dtype, tag + ": dtype changed")
        out_zyx = out_xyz.transpose(2, 1, 0)
        ref = ref_filter_zyx(stack_zyx, px, doses)
        check(np.allclose(out_zyx, ref, rtol=0, atol=1e-10 * scale), tag + ": output differs from reference filter")
        for i in range(n):
            F_in = np.fft.fft2(stack_zyx[i])
            F_out = np.fft.fft2(out_zyx[i])
            q = ref_attenuation(h, w, px, doses[i])
            check(
                np.allclose(F_out, F_in * q, rtol=0, atol=1e-9 * (np.abs(F_in).max() + 1)),
                tag + f": DFT of image {i} is not DFT(in)*q",
            )
            check(abs(out_zyx[i].mean() - stack_zyx[i].mean()) <= 1e-10 * scale, tag + f": mean of image {i} changed")
            # power never increases
            check(np.all(np.abs(F_out) <= np.abs(F_in) * (1 + 1e-9) + 1e-9 * scale), tag + f": power increased in image {i}")

        # --- 4. same output as the original implementation (bitwise or to round-off), all order combinations
        o_ref = orig_dose_filter(stack_xyz, px, doses)
        check(np.allclose(out_xyz, o_ref, rtol=0, atol=1e-12 * scale), tag + ": differs from original dose_filter (xyz)")
        if case_id % 3 == 0:
            for io_, oo_ in (("zyx", "zyx"), ("zyx", "xyz"), ("xyz", "zyx")):
                src = stack_zyx if io_ == "zyx" else stack_xyz
                got = quiet(tiltstack.dose_filter, src, px, doses, input_order=io_, output_order=oo_)
                exp = orig_dose_filter(src, px, doses, input_order=io_, output_order=oo_)
                check(got.shape == exp.shape and np.allclose(got, exp, rtol=0, atol=1e-12 * scale), tag + f": differs from original ({io_}->{oo_})")
            # doses given as a python list
            got = quiet(tiltstack.dose_filter, stack_xyz, px, [float(d) for d in doses])
            check(np.allclose(got, o_ref, rtol=0, atol=1e-12 * scale), tag + ": list of doses gives another result")
            # pixel size given as string / numpy scalar
            got = quiet(tiltstack.dose_filter, stack_xyz, np.float64(px), doses)
            check(np.allclose(got, o_ref, rtol=0, atol=1e-12 * scale), tag + ": numpy pixel size gives another result")

        # --- other dtypes: result is cast back to the input dtype exactly as the original does
        if case_id % 5 == 0:
            s32 = stack_xyz.astype(np.float32)
            got = quiet(tiltstack.dose_filter, s32, px, doses)
            exp = orig_dose_filter(s32, px, doses)
            check(got.dtype == np.float32 and np.allclose(got, exp, rtol=0, atol=1e-5 * scale), tag + ": float32 differs from original")
            check(np.allclose(got.transpose(2, 1, 0), ref_filter_zyx(s32.transpose(2, 1, 0), px, doses), rtol=0, atol=1e-4 * scale), tag + ": float32 differs from reference")
            s16 = np.round(stack_xyz * 10).astype(np.int16)
            got = quiet(tiltstack.dose_filter, s16, px, doses)
            exp = orig_dose_filter(s16, px, doses)
            check(got.dtype == np.int16 and np.max(np.abs(got.astype(int) - exp.astype(int))) <= 1, tag + ": int16 differs from original")

        # --- 2. consequences
        if case_id % 2 == 0:
            zero = quiet(tiltstack.dose_filter, stack_xyz, px, np.zeros(n))
            check(np.allclose(zero, stack_xyz, rtol=0, atol=1e-11 * scale), tag + ": zero dose is not the identity")
            other = rng.normal(size=stack_xyz.shape) * 5
            al, be = rng.uniform(-3, 3, size=2)
            lin = quiet(tiltstack.dose_filter, al * stack_xyz + be * other, px, doses)
            lin2 = al * out_xyz + be * quiet(tiltstack.dose_filter, other, px, doses)
            check(np.allclose(lin, lin2, rtol=0, atol=1e-9 * scale * 10), tag + ": not linear")
            extra = rng.uniform(0, 300 - doses.max(), size=n) if doses.max() < 300 else np.zeros(n)
            more = quiet(tiltstack.dose_filter, stack_xyz, px, doses + extra)
            for i in range(n):
                Fm = np.abs(np.fft.fft2(more[:, :, i].T))
                Fo = np.abs(np.fft.fft2(out_xyz[:, :, i].T))
                check(np.all(Fm <= Fo * (1 + 1e-9) + 1e-9 * scale), tag + f": more dose attenuates less (image {i})")
            twice = quiet(tiltstack.dose_filter, out_xyz, px, extra)
            check(np.allclose(twice, more, rtol=0, atol=1e-9 * scale), tag + ": d1 then d2 differs from d1+d2")
            # repeated call on the same objects gives the same answer
            again = quiet(tiltstack.dose_filter, stack_xyz, px, doses)
            check(np.array_equal(again, out_xyz), tag + ": repeated call gives another result")

        # --- 3. frequency array handed to the single-image filter
        seen = []
        real_single = tiltstack.dose_filter_single_image

        def spy(image, dose, freq_array):
            seen.append((float(dose), np.array(freq_array, copy=True)))
            return real_single(image, dose, freq_array)

        tiltstack.dose_filter_single_image = spy
        try:
            quiet(tiltstack.dose_filter, stack_xyz, px, doses)
        finally:
            tiltstack.dose_filter_single_image = real_single
        check(len(seen) == n, tag + ": single-image filter not called once per tilt")
        fa_orig = orig_frequency_array(w, h, px)
        fa_ref = np.fft.fftshift(
            np.sqrt(np.fft.fftfreq(w, d=px)[None, :] ** 2 + np.fft.fftfreq(h, d=px)[:, None] ** 2)
        )
        for i, (d, fa) in enumerate(seen):
            check(d == float(doses[i]), tag + f": dose of image {i} not paired with image {i}")
            check(fa.shape == (h, w), tag + ": frequency array has the wrong shape")
            check(fa.shape == (h, w) and np.allclose(fa, fa_orig, rtol=1e-15, atol=0), tag + ": frequency array differs from original loop")
            check(fa.shape == (h, w) and np.allclose(fa, fa_ref, rtol=1e-13, atol=1e-18), tag + ": frequency array differs from fftfreq reference")
            check(fa.shape == (h, w) and fa[h // 2, w // 2] == 0.0, tag + ": zero frequency not at the centre")

    # --- single-image function directly (it is public and used by the tests), against original and reference
    for k in range(60):
        h = int(rng.integers(4, 65))
        w = int(rng.integers(4, 65))
        px = float(rng.uniform(0.5, 10))
        dose = float(rng.choice([0.0, 300.0, rng.uniform(0, 300)]))
        img = rng.normal(size=(h, w)) * 7 + 3
        fa = orig_frequency_array(w, h, px)
        got = tiltstack.dose_filter_single_image(img, dose, fa)
        exp = orig_dose_filter_single_image(img, dose, fa)
        check(got.shape == (h, w) and got.dtype == np.float64, f"single {k}: wrong shape/dtype")
        check(np.allclose(got, exp, rtol=0, atol=1e-12 * 40), f"single {k}: differs from original")
        check(np.allclose(got, ref_filter_zyx(img[None], px, [dose])[0], rtol=0, atol=1e-10 * 40), f"single {k}: differs from reference")
        # float32 image and numpy-scalar dose
        got32 = tiltstack.dose_filter_single_image(img.astype(np.float32), np.float32(dose), fa)
        exp32 = orig_dose_filter_single_image(img.astype(np.float32), np.float32(dose), fa)
        check(got32.dtype == exp32.dtype and np.allclose(got32, exp32, rtol=0, atol=1e-10 * 40), f"single {k}: float32 image differs from original")

    # --- writing out: the filtered stack that is written equals the returned one
    stack_zyx, px, doses = random_case(rng, 1)
    s32 = np.ascontiguousarray(stack_zyx.transpose(2, 1, 0)).astype(np.float32)
    with tempfile.TemporaryDirectory() as td:
        path = os.path.join(td, "filtered.mrc")
        got = quiet(tiltstack.dose_filter, s32, px, doses, output_file=path)
        from cryocat import cryomap

        back = cryomap.read(path)
        check(back.shape == got.shape and np.array_equal(np.asarray(back), got), "written stack differs from returned stack")

    if FAILS:
        print(f"FAILED: {len(FAILS)} check(s)")
        sys.exit(1)
    print(f"PASS ({n_cases} random stacks, all checks)")


if __name__ == "__main__":
    main()
