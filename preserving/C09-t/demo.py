"""C09 / change a -- clean_by_distance_to_points prints a "most affected" summary built from a local list that is
sorted in place.  The demo checks the property (cleaning against reference points removes exactly the particles whose
complete position x+shift lies within the radius of a point of the same tomogram; survivors are not altered) against a
brute-force computation, compares the function of the tree with a verbatim copy of the original one and verifies that
the caller's objects (motl table for inplace=False, the points table) are left untouched.

run:  cd /tmp/wt11/C09 && /venv/bin/python /tmp/seedsV/C09/a/demo.py
"""
import os
import sys

sys.path.insert(0, os.getcwd())

import contextlib
import io

import numpy as np
import pandas as pd
from scipy.spatial import KDTree

from cryocat import cryomotl
from cryocat.cryomotl import Motl


# ----------------------------------------------------------------------------------------------------------------------
# verbatim copy of the original method (HEAD d4d8304)
def orig_clean_by_distance_to_points(self, points, radius_in_voxels, feature_id="tomo_id", inplace=True, output_file=None):
    # Parse tomograms
    features = self.get_unique_values(feature_id)

    # Initialize clean motl
    cleaned_df = pd.DataFrame()

    # Loop through and clean
    for f in features:
        # Parse tomogram
        feature_m = self.get_motl_subset(f, feature_id=feature_id, reset_index=True)

        # Parse positions
        coord1 = feature_m.get_coordinates()
        coord2 = points.loc[points[feature_id] == f, ["x", "y", "z"]].values

        # Create a KDTree from coord1
        tree = KDTree(coord1)

        # Query points from coord2 within the radius
        indices_to_remove = set()  # Use a set to store unique indices
        for point in coord2:
            indices = tree.query_ball_point(point, r=radius_in_voxels)  # Returns indices as array
            indices_to_remove.update(indices)  # Add indices to the set

        # Convert to a sorted list for consistent ordering
        indices_to_remove = sorted(indices_to_remove)
        cfm = feature_m.df.drop(index=indices_to_remove)
        cleaned_df = pd.concat([cleaned_df, cfm], ignore_index=True)

    cleaned_df.reset_index(drop=True, inplace=True)
    cleaned_motl = Motl(cleaned_df)

    if output_file:
        cleaned_motl.write_out(output_file)

    print(f"{self.df.shape[0]-cleaned_motl.df.shape[0]} particles were removed.")

    if inplace:
        self.df = cleaned_df
    else:
        return cleaned_motl


# ----------------------------------------------------------------------------------------------------------------------
def make_motl(rng, n, tomo_ids, integer=False, feature="tomo_id"):
    df = pd.DataFrame(0.0, index=np.arange(n), columns=Motl.motl_columns)
    df["score"] = rng.random(n)
    df["subtomo_id"] = np.arange(1, n + 1, dtype=float)
    df["tomo_id"] = rng.choice(tomo_ids, size=n).astype(float)
    df["object_id"] = rng.integers(1, 4, size=n).astype(float)
    df["class"] = rng.integers(1, 3, size=n).astype(float)
    if integer:
        df[["x", "y", "z"]] = rng.integers(-3, 14, size=(n, 3)).astype(float)
        df[["shift_x", "shift_y", "shift_z"]] = rng.integers(-2, 3, size=(n, 3)).astype(float)
    else:
        df[["x", "y", "z"]] = rng.uniform(-10.0, 60.0, size=(n, 3))
        df[["shift_x", "shift_y", "shift_z"]] = rng.uniform(-3.0, 3.0, size=(n, 3)) * rng.integers(0, 2, size=(n, 1))
    df[["phi", "psi", "theta"]] = rng.uniform(-180, 180, size=(n, 3))
    df["geom1"] = rng.integers(0, 100, size=n).astype(float)
    return df


def make_points(rng, m, tomo_ids, integer=False, feature="tomo_id"):
    pts = pd.DataFrame(
        {
            feature: rng.choice(tomo_ids, size=m).astype(float),
            "x": rng.integers(-3, 14, size=m).astype(float) if integer else rng.uniform(-10, 60, size=m),
            "y": rng.integers(-3, 14, size=m).astype(float) if integer else rng.uniform(-10, 60, size=m),
            "z": rng.integers(-3, 14, size=m).astype(float) if integer else rng.uniform(-10, 60, size=m),
        }
    )
    # an index that is not 0..m-1, the function must not depend on it
    pts.index = rng.permutation(m) + 7
    return pts


def expected_keep(df, points, radius, feature="tomo_id"):
    """Brute force: (ordered list of kept row labels, number of particles too close to the limit to decide).
    Order of the result = tomograms in order of first appearance, rows in table order."""
    pos = df[["x", "y", "z"]].to_numpy() + df[["shift_x", "shift_y", "shift_z"]].to_numpy()
    fv = df[feature].to_numpy()
    pf = points[feature].to_numpy()
    pp = points[["x", "y", "z"]].to_numpy()
    keep = np.ones(len(df), dtype=bool)
    undecided = np.zeros(len(df), dtype=bool)
    for k in range(len(df)):
        same = pp[pf == fv[k]]
        if len(same) == 0:
            continue
        d = np.sqrt(((same - pos[k]) ** 2).sum(axis=1))
        if np.any((np.abs(d - radius) < 1e-9) & (d != radius)):  # exact hits (3-4-5) are decidable, near hits are not
            undecided[k] = True
        if np.any(d <= radius):
            keep[k] = False
    order = []
    for f in pd.unique(df[feature]):
        order.extend(np.flatnonzero((fv == f) & keep).tolist())
    return order, undecided


def same_table(a, b):
    if list(a.columns) != list(b.columns) or a.shape != b.shape:
        return False
    if not np.array_equal(a.index.to_numpy(), b.index.to_numpy()):
        return False
    return np.array_equal(a.to_numpy(dtype=float), b.to_numpy(dtype=float), equal_nan=True)


def quiet(fn, *args, **kwargs):
    with contextlib.redirect_stdout(io.StringIO()):
        return fn(*args, **kwargs)


def main():
    rng = np.random.default_rng(909)
    failures = []
    n_cases = 0
    n_removed_total = 0

    cases = []
    for trial in range(140):
        n_tomo = int(rng.integers(1, 5))
        tomo_ids = rng.choice(np.arange(1, 40), size=n_tomo, replace=False)
        integer = trial % 3 == 0
        n = int(rng.integers(1, 60))
        m = int(rng.integers(0, 25))
        # points may also name tomograms that the motl does not have
        point_tomos = np.concatenate([tomo_ids, [77]]) if trial % 4 == 0 else tomo_ids
        df = make_motl(rng, n, tomo_ids, integer=integer)
        pts = make_points(rng, m, point_tomos, integer=integer)
        if integer:
            radius = float(rng.choice([0.0, 1.0, 3.0, 5.0, 13.0]))  # 3-4-5, 5-12-13: particles exactly on the sphere
        else:
            radius = float(rng.uniform(0.0, 25.0))
        cases.append((df, pts, radius, "tomo_id"))
    # hand made edge cases: particle exactly on a point, exactly on the radius, shift moving it in / out, other tomogram
    df = make_motl(rng, 6, [5.0], integer=True)
    df["tomo_id"] = [5.0, 5.0, 5.0, 9.0, 5.0, 9.0]
    df[["x", "y", "z"]] = [[0, 0, 0], [3, 4, 0], [3, 4, 1], [0, 0, 0], [10, 0, 0], [-3, -4, 0]]
    df[["shift_x", "shift_y", "shift_z"]] = [[0, 0, 0], [0, 0, 0], [0, 0, 0], [0, 0, 0], [-5, 0, 0], [0, 0, 0]]
    pts = pd.DataFrame({"tomo_id": [5.0, 9.0], "x": [0.0, 0.0], "y": [0.0, 0.0], "z": [0.0, 50.0]})
    cases.append((df, pts, 5.0, "tomo_id"))
    cases.append((df, pts, 0.0, "tomo_id"))
    # grouping by another feature
    df2 = make_motl(rng, 40, [1.0, 2.0])
    pts2 = make_points(rng, 12, [1.0, 2.0, 3.0], feature="object_id")
    cases.append((df2, pts2, 18.0, "object_id"))

    for df, pts, radius, feature in cases:
        n_cases += 1
        order, undecided = expected_keep(df, pts, radius, feature)
        if undecided.any():
            continue
        expected = df.iloc[order].reset_index(drop=True)

        df_before = df.copy(deep=True)
        pts_before = pts.copy(deep=True)

        # --- inplace=False on the tree's function, twice on the same object
        m = Motl(df)
        for rep in range(2):
            res = quiet(m.clean_by_distance_to_points, pts, radius, feature_id=feature, inplace=False)
            if not same_table(res.df, expected):
                failures.append(f"case {n_cases} rep {rep}: result differs from the brute-force expectation")
            if not (same_table(m.df, df_before) and m.df is df):
                failures.append(f"case {n_cases} rep {rep}: motl changed by inplace=False")
            if not (same_table(pts, pts_before) and list(pts.columns) == list(pts_before.columns)):
                failures.append(f"case {n_cases} rep {rep}: points table changed")

        # --- original function on the same input
        res_o = quiet(orig_clean_by_distance_to_points, Motl(df.copy(deep=True)), pts, radius, feature_id=feature, inplace=False)
        if not same_table(res.df, res_o.df) or list(res.df.dtypes) != list(res_o.df.dtypes):
            failures.append(f"case {n_cases}: tree function and original function disagree (inplace=False)")

        # --- inplace=True, then a second call (idempotent: nothing within the radius is left)
        m1 = Motl(df.copy(deep=True))
        m2 = Motl(df.copy(deep=True))
        r1 = quiet(m1.clean_by_distance_to_points, pts, radius, feature_id=feature)
        r2 = quiet(orig_clean_by_distance_to_points, m2, pts, radius, feature_id=feature)
        if r1 is not None or r2 is not None:
            failures.append(f"case {n_cases}: inplace=True returned something")
        if not same_table(m1.df, expected) or not same_table(m1.df, m2.df):
            failures.append(f"case {n_cases}: inplace result wrong / differs from the original")
        if len(m1.df) > 0:
            quiet(m1.clean_by_distance_to_points, pts, radius, feature_id=feature)
            if not same_table(m1.df, expected):
                failures.append(f"case {n_cases}: second inplace call changed the survivors")
        if not same_table(pts, pts_before):
            failures.append(f"case {n_cases}: points table changed by inplace call")
        n_removed_total += len(df) - len(expected)

    # the printed total is still there and still first
    buf = io.StringIO()
    with contextlib.redirect_stdout(buf):
        Motl(cases[-3][0].copy()).clean_by_distance_to_points(cases[-3][1], 5.0)
    first = buf.getvalue().splitlines()[0]
    if first != "3 particles were removed.":
        failures.append(f"unexpected first log line: {first!r}")

    if failures:
        print("FAIL")
        for f in failures[:20]:
            print("  ", f)
        sys.exit(1)
    print(f"PASS ({n_cases} cases, {n_removed_total} particles removed in total)")


if __name__ == "__main__":
    main()
