import sys, os

sys.path.insert(0, os.getcwd())

import decimal
import re
import warnings

warnings.simplefilter("ignore")

import numpy as np
import pandas as pd
from scipy.spatial.transform import Rotation as rot

from cryocat.cryomotl import Motl

COLS = Motl.motl_columns
FAIL = []


def check(cond, msg):
    if not cond:
        FAIL.append(msg)
        if len(FAIL) < 20:
            print("FAIL:", msg)


# ----------------------------------------------------------------------------------------------------------------
# verbatim copies of the original (HEAD) implementations, as free functions
# ----------------------------------------------------------------------------------------------------------------
def orig_update_coordinates(self):
    def round_and_recenter(row):
        new_row = row.copy()
        shifted_x = row["x"] + row["shift_x"]
        shifted_y = row["y"] + row["shift_y"]
        shifted_z = row["z"] + row["shift_z"]
        new_row["x"] = float(decimal.Decimal(shifted_x).to_integral_value(rounding=decimal.ROUND_HALF_UP))
        new_row["y"] = float(decimal.Decimal(shifted_y).to_integral_value(rounding=decimal.ROUND_HALF_UP))
        new_row["z"] = float(decimal.Decimal(shifted_z).to_integral_value(rounding=decimal.ROUND_HALF_UP))
        new_row["shift_x"] = shifted_x - new_row["x"]
        new_row["shift_y"] = shifted_y - new_row["y"]
        new_row["shift_z"] = shifted_z - new_row["z"]
        return new_row

    self.df = self.df.apply(round_and_recenter, axis=1)
    warnings.warn("The coordinates for subtomogram extraction were changed, new extraction is necessary!")


def orig_split(self, symmetry, xyz_shift):
    if isinstance(symmetry, str):
        nfold = int(re.findall(r"\d+", symmetry)[-1])
        if symmetry.lower().startswith("c"):
            s_type = 1  # c symmetry
        elif symmetry.lower().startswith("d"):
            s_type = 2  # d symmetry
        else:
            ValueError("Unknown symmetry - currently only c and are supported!")
    elif isinstance(symmetry, (int, float)):
        s_type = 1  # c symmetry
        nfold = symmetry
    else:
        ValueError("The symmetry has to be specified as a string (starting with c or d) or as a number (float, int)!")

    inplane_step = 360 / nfold

    if s_type == 1:
        n_subunits = nfold
        phi_angles = np.arange(n_subunits) * inplane_step
        new_angles = np.zeros((n_subunits, 3))
        new_angles[:, 0] = phi_angles
    elif s_type == 2:
        n_subunits = nfold * 2
        in_plane_offset = int(inplane_step / 2)
        new_angles = np.zeros((n_subunits, 3))
        new_angles[0::2, 0] = np.arange(0, 360, int(inplane_step))
        new_angles[1::2, 0] = np.arange(0 + in_plane_offset, 360 + in_plane_offset, int(inplane_step))
        new_angles[1::2, 1] = 180

        phi_angles = new_angles[:, 0].copy()

    phi_angles = phi_angles.reshape(
        n_subunits,
    )

    starting_vector = np.array(xyz_shift)
    rho = np.sqrt(starting_vector[0] ** 2 + starting_vector[1] ** 2)
    the = np.arctan2(starting_vector[1], starting_vector[0])

    rot_rho = np.full((n_subunits,), rho)
    rep_the = np.full((n_subunits,), the) + np.deg2rad(phi_angles)
    rep_z = np.full((n_subunits,), starting_vector[2])

    if s_type == 2:
        rep_z[1::2] *= -1

    center_shift = np.zeros([rot_rho.shape[0], 3])
    center_shift[:, 0] = rot_rho * np.cos(rep_the)
    center_shift[:, 1] = rot_rho * np.sin(rep_the)
    center_shift[:, 2] = rep_z

    new_motl_df = pd.concat([self.df] * n_subunits)

    new_motl_df["geom5"] = new_motl_df["subtomo_id"]
    new_motl_df = new_motl_df.sort_values(by="subtomo_id")
    new_motl_df["geom2"] = np.tile(np.arange(1, n_subunits + 1).reshape(n_subunits, 1), (len(self.df), 1))

    euler_angles = new_motl_df[["phi", "theta", "psi"]]
    rotations = rot.from_euler(seq="zxz", angles=euler_angles, degrees=True)
    center_shift = np.tile(center_shift, (len(self.df), 1))
    new_angles = np.tile(new_angles, (len(self.df), 1))
    new_motl_df.loc[:, ["shift_x", "shift_y", "shift_z"]] = new_motl_df.loc[
        :, ["shift_x", "shift_y", "shift_z"]
    ] + rotations.apply(center_shift)

    new_rotations = rotations * rot.from_euler(seq="zxz", angles=new_angles, degrees=True)
    new_motl_df.loc[:, ["phi", "theta", "psi"]] = new_rotations.as_euler(seq="zxz", degrees=True)

    new_motl_df["subtomo_id"] = np.arange(1, len(new_motl_df) + 1)
    new_motl = Motl(new_motl_df)
    orig_update_coordinates(new_motl)
    new_motl.df.reset_index(inplace=True, drop=True)
    return new_motl


# ----------------------------------------------------------------------------------------------------------------
# helpers
# ----------------------------------------------------------------------------------------------------------------
def same_frame(a, b, what):
    """bitwise identical frames: labels, order, dtypes, values (including the sign of zero)"""
    check(list(a.columns) == list(b.columns), f"{what}: column order")
    check(a.index.equals(b.index) and type(a.index) is type(b.index), f"{what}: index")
    check(a.index.names == b.index.names and a.columns.names == b.columns.names, f"{what}: axis names")
    check(list(a.dtypes) == list(b.dtypes), f"{what}: dtypes")
    if a.shape != b.shape:
        check(False, f"{what}: shape")
        return
    for c in a.columns:
        va, vb = a[c].to_numpy(), b[c].to_numpy()
        if va.dtype.kind == "f":
            same = np.array_equal(va, vb, equal_nan=True) and np.array_equal(np.signbit(va), np.signbit(vb))
        else:
            same = np.array_equal(va, vb)
        check(same, f"{what}: values of column {c}")


def Rz(deg):
    a = np.deg2rad(deg)
    return np.array([[np.cos(a), -np.sin(a), 0.0], [np.sin(a), np.cos(a), 0.0], [0.0, 0.0, 1.0]])


def Rx(deg):
    a = np.deg2rad(deg)
    return np.array([[1.0, 0.0, 0.0], [0.0, np.cos(a), -np.sin(a)], [0.0, np.sin(a), np.cos(a)]])


def orientation(phi, theta, psi):
    # extrinsic zxz: first phi about z, then theta about x, then psi about z
    return Rz(psi) @ Rx(theta) @ Rz(phi)


def random_motl(rng, n_particles, kind):
    df = pd.DataFrame(np.zeros((n_particles, len(COLS))), columns=COLS)
    df["score"] = rng.random(n_particles)
    df["geom1"] = rng.integers(0, 5, n_particles).astype(float)
    df["geom2"] = rng.integers(0, 5, n_particles).astype(float)
    df["geom3"] = rng.normal(size=n_particles)
    df["geom4"] = rng.integers(0, 9, n_particles).astype(float)
    df["geom5"] = rng.integers(0, 9, n_particles).astype(float)
    df["tomo_id"] = rng.integers(1, 4, n_particles).astype(float)
    df["object_id"] = rng.integers(1, 6, n_particles).astype(float)
    df["subtomo_mean"] = rng.integers(0, 3, n_particles).astype(float)
    df["class"] = rng.integers(1, 4, n_particles).astype(float)
    ids = rng.permutation(np.arange(1, 3 * n_particles + 1))[:n_particles].astype(float)
    if kind % 3 == 0:
        ids = np.sort(ids)
    df["subtomo_id"] = ids
    if kind % 4 == 0:
        df[["x", "y", "z"]] = rng.integers(-30, 500, (n_particles, 3)).astype(float)
        df[["shift_x", "shift_y", "shift_z"]] = rng.choice([-0.5, 0.0, 0.5, 0.25, -1.5, 2.5], (n_particles, 3))
    elif kind % 4 == 1:
        df[["x", "y", "z"]] = rng.uniform(-50, 500, (n_particles, 3))
        df[["shift_x", "shift_y", "shift_z"]] = rng.uniform(-8, 8, (n_particles, 3))
    else:
        df[["x", "y", "z"]] = rng.integers(0, 1000, (n_particles, 3)).astype(float)
        df[["shift_x", "shift_y", "shift_z"]] = rng.normal(scale=3, size=(n_particles, 3))
    if kind % 5 == 0:
        df["phi"] = rng.choice([0.0, 90.0, -90.0, 180.0, 360.0, 45.0], n_particles)
        df["theta"] = rng.choice([0.0, 90.0, 180.0, 30.0], n_particles)
        df["psi"] = rng.choice([0.0, -180.0, 270.0, 12.5], n_particles)
    else:
        df["phi"] = rng.uniform(-360, 360, n_particles)
        df["theta"] = rng.uniform(0, 180, n_particles)
        df["psi"] = rng.uniform(-360, 360, n_particles)
    if kind % 2 == 1:
        df.index = pd.Index(rng.permutation(np.arange(10, 10 + 2 * n_particles))[:n_particles], name="row")
    if kind % 7 == 3:
        # integer-typed bookkeeping columns, as in hand-made lists
        for c in ["tomo_id", "object_id", "class", "geom1"]:
            df[c] = df[c].astype("int64")
    return df


OFFSETS = [
    np.array([10, 0, 0]),
    np.array([10.0, 0.0, 0.0]),
    np.array([0.0, 0.0, 7.5]),  # on the axis
    np.array([0.0, 0.0, 0.0]),
    np.array([0.3, 0.4, 0.0]),
    np.array([-3.25, 8.5, -2.0]),
    [1, -2, 3],
    (0.5, 0.5, 0.5),
]


def check_property(src_df, n, sym, s, out):
    s = np.asarray(s, dtype=float)
    o = out.df
    N = len(src_df)
    tag = f"n={n} sym={sym!r} s={s.tolist()} N={N}"
    check(len(o) == N * n, f"{tag}: number of output particles {len(o)}")
    if len(o) != N * n:
        return
    check(isinstance(o.index, pd.RangeIndex) and o.index.start == 0 and o.index.step == 1, f"{tag}: index reset")
    check(o["subtomo_id"].is_unique, f"{tag}: subtomo_id unique")
    check(np.array_equal(np.sort(o["subtomo_id"].to_numpy()), np.arange(1, N * n + 1)), f"{tag}: subtomo_id 1..N*n")
    pos = o[["x", "y", "z"]].to_numpy(dtype=float)
    sh = o[["shift_x", "shift_y", "shift_z"]].to_numpy(dtype=float)
    check(np.all(pos == np.round(pos)), f"{tag}: integer coordinates")
    check(np.all(np.abs(sh) <= 0.5), f"{tag}: |shift| <= 0.5")
    others = ["score", "geom1", "tomo_id", "object_id", "subtomo_mean", "geom3", "geom4", "class"]
    for _, parent in src_df.iterrows():
        sub = o[o["geom5"] == parent["subtomo_id"]]
        check(len(sub) == n, f"{tag}: {len(sub)} subunits for parent {parent['subtomo_id']}")
        if len(sub) != n:
            continue
        check(sorted(sub["geom2"].tolist()) == list(range(1, n + 1)), f"{tag}: geom2 is 1..n")
        for c in others:
            check(np.all(sub[c].to_numpy(dtype=float) == float(parent[c])), f"{tag}: field {c} carried over")
        R = orientation(parent["phi"], parent["theta"], parent["psi"])
        centre = np.array([parent["x"] + parent["shift_x"], parent["y"] + parent["shift_y"], parent["z"] + parent["shift_z"]])
        for _, row in sub.iterrows():
            k = int(row["geom2"]) - 1
            Rk_expected = R @ Rz(360.0 * k / n)
            Rk = orientation(row["phi"], row["theta"], row["psi"])
            check(np.allclose(Rk, Rk_expected, atol=1e-8), f"{tag}: orientation of subunit {k}")
            p = np.array([row["x"] + row["shift_x"], row["y"] + row["shift_y"], row["z"] + row["shift_z"]])
            check(np.allclose(p, centre + Rk_expected @ s, atol=1e-7), f"{tag}: position of subunit {k}")
            # maps back to the parent's centre and lies on the orbit about the parent's own z axis
            check(np.allclose(p - Rk @ s, centre, atol=1e-6), f"{tag}: subunit {k} maps back to centre")
            check(np.allclose(R.T @ Rk, Rz(360.0 * k / n), atol=1e-8), f"{tag}: relative rotation about own z")


def run_update_coordinates_checks(rng):
    # update_coordinates against the original and against an independent integer/decimal computation
    for kind in range(28):
        n_particles = [1, 2, 5, 17, 40][kind % 5]
        df = random_motl(rng, n_particles, kind)
        if kind % 6 == 2:
            # exact ties, negative values, negative zero
            vals = np.array([-2.5, -1.5, -0.5, 0.5, 1.5, 2.5, -0.3, 0.3, -0.0, 0.0, 0.49999999999999994, -0.49999999999999994])
            df["x"] = rng.choice(vals, n_particles)
            df["shift_x"] = rng.choice([0.0, -0.0], n_particles)
            df["y"] = rng.integers(-5, 5, n_particles).astype(float)
            df["shift_y"] = rng.choice([0.5, -0.5, 1.5, -1.5], n_particles)
        a, b = Motl(df.copy()), Motl(df.copy())
        before = df.copy()
        a.update_coordinates()
        orig_update_coordinates(b)
        same_frame(a.df, b.df, f"update_coordinates kind={kind}")
        same_frame(df, before, f"update_coordinates kind={kind}: caller's frame untouched")
        for c, sc in zip(["x", "y", "z"], ["shift_x", "shift_y", "shift_z"]):
            tot = (before[c] + before[sc]).to_numpy()
            exp = np.array([float(decimal.Decimal(float(t)).quantize(decimal.Decimal(1), rounding=decimal.ROUND_HALF_UP)) for t in tot])
            check(np.array_equal(a.df[c].to_numpy(), exp), f"update_coordinates kind={kind}: rounding of {c}")
            check(np.array_equal(a.df[sc].to_numpy(), tot - exp), f"update_coordinates kind={kind}: remainder {sc}")
        # repeated call is a fixed point except for the ties at +0.5 / -0.5
        a2 = Motl(a.df.copy())
        a2.update_coordinates()
        b2 = Motl(a.df.copy())
        orig_update_coordinates(b2)
        same_frame(a2.df, b2.df, f"update_coordinates twice kind={kind}")
    # empty list
    e1, e2 = Motl(random_motl(rng, 3, 3).iloc[0:0]), Motl(random_motl(rng, 3, 3).iloc[0:0])
    e1.update_coordinates()
    orig_update_coordinates(e2)
    same_frame(e1.df, e2.df, "update_coordinates empty")


def run_split_checks(rng, thorough=True):
    case = 0
    for n in range(1, 65):
        forms = [f"C{n}", f"c{n}", n, f" C{n}".strip(), f"c0{n}"]
        for rep in range(2 if thorough else 1):
            kind = case
            case += 1
            n_particles = [1, 3, 2, 7, 1, 12][kind % 6]
            if n <= 4 and rep == 1:
                n_particles = 100 if n == 2 else 33
            df = random_motl(rng, n_particles, kind)
            sym = forms[kind % 5]
            s = OFFSETS[kind % len(OFFSETS)] if kind % 3 else rng.normal(scale=12, size=3)
            before = df.copy()
            m = Motl(df)
            out = m.split_in_asymmetric_subunits(sym, s)
            check(type(out) is Motl, "returns Motl")
            same_frame(m.df, before, f"n={n}: input list untouched")
            check_property(before, n, sym, s, out)
            ref = orig_split(Motl(before.copy()), sym, s)
            same_frame(out.df, ref.df, f"split vs original n={n} sym={sym!r}")
            if rep == 0:
                # repeated call on the same object gives the same answer
                out2 = m.split_in_asymmetric_subunits(sym, s)
                same_frame(out2.df, out.df, f"n={n}: repeated call")
    # all spellings give the same result on one list
    df = random_motl(rng, 6, 1)
    for n in [1, 2, 7, 11, 13, 14, 16, 64]:
        res = [Motl(df.copy()).split_in_asymmetric_subunits(f, [4.0, -1.0, 2.0]) for f in [f"C{n}", f"c{n}", n]]
        for r in res[1:]:
            same_frame(r.df, res[0].df, f"spellings n={n}")
    # dihedral branch (outside the property, but must stay what it was)
    for sym in ["D1", "D2", "d3", "D4", "d5", "D6", "D12", "D7", "d11", 3.0, "x3", None, "C0", 0]:
        df = random_motl(rng, 4, 2)
        got = exp = None
        try:
            got = Motl(df.copy()).split_in_asymmetric_subunits(sym, [5.0, 1.0, 2.0])
        except Exception as e:  # noqa
            got = type(e)
        try:
            exp = orig_split(Motl(df.copy()), sym, [5.0, 1.0, 2.0])
        except Exception as e:  # noqa
            exp = type(e)
        if isinstance(exp, Motl) and isinstance(got, Motl):
            same_frame(got.df, exp.df, f"dihedral {sym}")
        elif sym in ("x3", None):
            # not a symmetry at all: only required to fail
            check(isinstance(got, type) and isinstance(exp, type), f"invalid symmetry {sym!r}: {got} vs {exp}")
        else:
            check(got is exp, f"dihedral {sym}: {got} vs {exp}")


def run_dtype_checks(rng):
    # hand-made lists with unusual column types / offsets of unusual type: same result or same failure as before
    mods = {
        "int shifts": {"shift_x": "int64", "shift_y": "int64", "shift_z": "int64"},
        "int angles": {"phi": "int64", "theta": "int64", "psi": "int64"},
        "f32 shifts": {"shift_x": "float32", "shift_y": "float32", "shift_z": "float32"},
        "f32 phi": {"phi": "float32"},
        "int xyz and ids": {"x": "int64", "y": "int64", "z": "int64", "subtomo_id": "int64", "tomo_id": "int32"},
    }
    offsets = [np.array([3, 4, 1]), np.array([3.5, -1, 2], dtype="float32"), [0, 0, 2], np.array([0.3, 0.4, 0.0])]
    for name, types in mods.items():
        for s in offsets:
            for sym in ["C7", 4, "c1"]:
                df = random_motl(rng, 5, 2).astype(types)
                res = []
                for f in (lambda m: m.split_in_asymmetric_subunits(sym, s), lambda m: orig_split(m, sym, s)):
                    try:
                        res.append(f(Motl(df.copy())))
                    except Exception as e:  # noqa
                        res.append(type(e))
                if isinstance(res[0], Motl) and isinstance(res[1], Motl):
                    same_frame(res[0].df, res[1].df, f"dtypes {name} {sym!r}")
                    if name in ("f32 shifts", "int xyz and ids"):
                        check_property(df.astype(float), int(str(sym).lower().lstrip("c")), sym, s, res[0])
                else:
                    check(res[0] is res[1], f"dtypes {name} {sym!r}: {res[0]} vs {res[1]}")


def main():
    rng = np.random.default_rng(20240610)
    run_update_coordinates_checks(rng)
    run_split_checks(rng)
    run_dtype_checks(rng)
    if FAIL:
        print(f"{len(FAIL)} checks failed")
        sys.exit(1)
    print("PASS")


if __name__ == "__main__":
    main()
