import os, sys

sys.path.insert(0, os.getcwd())

import contextlib, io, itertools, shutil, tempfile, textwrap, warnings
import numpy as np
import mrcfile

from cryocat import tiltstack, cryomap, ioutils

assert os.path.abspath(tiltstack.__file__).startswith(os.getcwd()), "run from the worktree"

FAILS = []
N_CHECKS = [0]
TMP = tempfile.mkdtemp(prefix="c15demo_")
ORDERS = ("xyz", "zyx")


def check(cond, msg):
    N_CHECKS[0] += 1
    if not cond:
        FAILS.append(msg)
        if len(FAILS) <= 20:
            print("FAIL:", msg)


def quiet(fn, *args, **kwargs):
    """call a cryoCAT function with its progress prints swallowed"""
    with contextlib.redirect_stdout(io.StringIO()):
        return fn(*args, **kwargs)


def same(a, b):
    a = np.asarray(a)
    b = np.asarray(b)
    if a.shape != b.shape or a.dtype != b.dtype:
        return False
    if a.dtype.kind in "fc":
        return bool(np.array_equal(a, b, equal_nan=True))
    return bool(np.array_equal(a, b))


def outcome(fn, *args, **kwargs):
    """('ok', value) or ('raise', exception type, message) -- for original-vs-patched comparisons"""
    try:
        with warnings.catch_warnings():
            warnings.simplefilter("ignore")
            return ("ok", quiet(fn, *args, **kwargs))
    except Exception as err:  # noqa: BLE001 - the type is what is compared
        return ("raise", type(err), str(err))


def same_outcome(o1, o2):
    if o1[0] != o2[0]:
        return False
    if o1[0] == "raise":
        return o1[1] is o2[1] and o1[2] == o2[2]
    v1, v2 = o1[1], o2[1]
    if isinstance(v1, tuple):
        return isinstance(v2, tuple) and len(v1) == len(v2) and all(same(x, y) for x, y in zip(v1, v2))
    return same(v1, v2)


def read_raw(path):
    """independent reader: the voxels of an MRC file exactly as stored (n, y, x)"""
    with mrcfile.open(path, permissive=True) as m:
        return np.array(m.data)


def make_stack(rng, n, h, w, dtype, integral=False):
    """canonical stack S[n, y, x]"""
    if dtype == np.int16:
        s = rng.integers(-3000, 3000, size=(n, h, w)).astype(np.int16)
        s[rng.random((n, h, w)) < 0.1] = 0
    else:
        if integral:
            s = rng.integers(-500, 500, size=(n, h, w)).astype(np.float32)
        else:
            s = (rng.standard_normal((n, h, w)) * 50).astype(np.float32)
        s[rng.random((n, h, w)) < 0.1] = 0.0
    return s


class Presenter:
    """hands the same canonical stack to the code as array (either axis order) or as MRC file"""

    def __init__(self, stack, tag):
        self.stack = stack
        self.tag = tag
        self.path = os.path.join(TMP, f"in_{tag}.mrc")
        mrcfile.write(self.path, stack, overwrite=True)

    def give(self, as_file, input_order):
        if as_file:
            return self.path
        if input_order == "xyz":
            return np.ascontiguousarray(self.stack.transpose(2, 1, 0))
        return self.stack.copy()


def to_canonical(result, output_order):
    return result.transpose(2, 1, 0) if output_order == "xyz" else result


def ref_bin(stack, b):
    """block means with zero padding up to a multiple of b, cast like the code casts (astype of the stack's dtype)"""
    n, h, w = stack.shape
    hp, wp = -(-h // b) * b, -(-w // b) * b
    padded = np.zeros((n, hp, wp), dtype=np.float64)
    padded[:, :h, :w] = stack
    out = np.zeros((n, hp // b, wp // b), dtype=np.float64)
    for i in range(hp // b):
        for j in range(wp // b):
            out[:, i, j] = padded[:, i * b : (i + 1) * b, j * b : (j + 1) * b].sum(axis=(1, 2)) / (b * b)
    return out


def angles_without_ties(rng, n, kind):
    if kind == 0:  # random order, mixed signs, contains an exact zero
        a = rng.permutation(np.arange(n) - n // 2) * 3.0
    elif kind == 1:  # already ascending
        a = np.sort(rng.uniform(-70, 70, n))
    elif kind == 2:  # descending
        a = np.sort(rng.uniform(-70, 70, n))[::-1].copy()
    elif kind == 3:  # dose-symmetric like 0, 3, -3, 6, -6 ...
        a = np.array([((i + 1) // 2) * 3.0 * (1 if i % 2 else -1) for i in range(n)])
    else:  # integer angles
        a = rng.permutation(np.arange(n) * 2 - n)
    assert len(np.unique(a)) == n
    return a


def property_run(seed, n, h, w, dtype, integral=False):
    """all operations of the property on one stack, over input_order x output_order x array/file x output file"""
    rng = np.random.default_rng(seed)
    S = make_stack(rng, n, h, w, dtype, integral)
    tag = f"{seed}_{n}_{h}_{w}_{np.dtype(dtype).name}"
    pres = Presenter(S, tag)
    angle_kind = seed % 5
    angles = angles_without_ties(rng, n, angle_kind)
    if seed % 3 == 0:
        tlt_in = os.path.join(TMP, f"a_{tag}.tlt")
        np.savetxt(tlt_in, np.asarray(angles, dtype=float), fmt="%.4f")
        angles_for_ref = np.loadtxt(tlt_in, dtype=np.float32, ndmin=1)
    elif seed % 3 == 1:
        tlt_in = list(angles)
        angles_for_ref = angles
    else:
        tlt_in = np.asarray(angles)
        angles_for_ref = angles
    assert len(set(np.asarray(angles_for_ref).tolist())) == n
    order_ref = sorted(range(n), key=lambda i: angles_for_ref[i])

    # index subsets: first, last, first+last, random, all but one, repeated entries, unsorted
    subsets = [[0], [n - 1], [0, n - 1], sorted(rng.choice(n, size=max(1, n // 3), replace=False).tolist())]
    subsets.append([i for i in range(n) if i != n // 2])
    subsets.append([n - 1, 0, n - 1])
    subset = subsets[seed % len(subsets)]

    b = [1, 2, 3, 4][seed % 4]
    nw = [None, w, 1, max(1, w - 1), max(1, w // 2), max(1, w - 3)][seed % 6]
    nh = [h, None, max(1, h // 2), 1, max(1, h - 1), max(1, h - 2)][seed % 6]
    flip_axes = [["x"], ["y"], ["z"], "x", ["x", "y"], ["z", "x", "y"]][seed % 6]

    results = {}
    for as_file, io_, oo, with_out in itertools.product((False, True), ORDERS, ORDERS, (False, True)):
        cfg = f"[{tag} file={as_file} in={io_} out={oo} write={with_out}]"
        kw = dict(input_order=io_, output_order=oo)

        def outp(name):
            return os.path.join(TMP, f"out_{name}.mrc") if with_out else None

        def verify(name, got, expected, approx=False):
            gc = to_canonical(got, oo)
            check(got.dtype == S.dtype, f"{name} dtype {got.dtype} {cfg}")
            if approx:
                check(gc.shape == expected.shape and np.allclose(gc, expected, rtol=1e-5, atol=1e-3), f"{name} values {cfg}")
            else:
                check(same(gc, expected), f"{name} returned array {cfg}")
            if with_out:
                stored = read_raw(outp(name))
                check(same(stored, gc), f"{name} written file differs from returned result {cfg}")
                os.remove(outp(name))
            key = name
            if key in results and approx:
                # float32 block sums depend on the memory layout in the last bit (x,y,n input is a transposed view)
                agree = results[key].shape == gc.shape and np.allclose(results[key], gc, rtol=1e-5, atol=1e-3)
                check(agree, f"{name} differs between presentations {cfg}")
            elif key in results:
                check(same(results[key], gc), f"{name} differs between presentations {cfg}")
            else:
                results[key] = np.array(gc)

        given = pres.give(as_file, io_)
        given_copy = None if as_file else given.copy()

        # sorting
        got = quiet(tiltstack.sort_tilts_by_angle, given, tlt_in, output_file=outp("sort"), **kw)
        verify("sort", got, S[order_ref])

        # removing, 0- and 1-based
        keep = [i for i in range(n) if i not in set(subset)]
        if keep:
            got = quiet(tiltstack.remove_tilts, given, list(subset), numbered_from_1=False, output_file=outp("rm0"), **kw)
            verify("rm0", got, S[keep])
            got = quiet(
                tiltstack.remove_tilts, given, np.asarray(subset) + 1, numbered_from_1=True, output_file=outp("rm1"), **kw
            )
            verify("rm1", got, S[keep])
            got = quiet(tiltstack.remove_tilts, given, [i + 1 for i in subset], output_file=outp("rm1d"), **kw)
            verify("rm1d", got, S[keep])

        # even / odd
        prefix = os.path.join(TMP, "out_eo") if with_out else None
        ev, od = quiet(tiltstack.split_stack_even_odd, given, output_file_prefix=prefix, **kw)
        evc, odc = to_canonical(ev, oo), to_canonical(od, oo)
        merged = np.empty_like(S)
        check(evc.shape[0] == (n + 1) // 2 and odc.shape[0] == n // 2, f"even/odd counts {cfg}")
        if evc.shape[0] == (n + 1) // 2 and odc.shape[0] == n // 2:
            merged[0::2] = evc
            merged[1::2] = odc
            check(same(merged, S), f"even/odd do not interleave back {cfg}")
        check(ev.dtype == S.dtype and od.dtype == S.dtype, f"even/odd dtype {cfg}")
        if with_out:
            check(same(read_raw(prefix + "_even.mrc"), evc), f"even file {cfg}")
            check(same(read_raw(prefix + "_odd.mrc"), odc), f"odd file {cfg}")
            os.remove(prefix + "_even.mrc")
            os.remove(prefix + "_odd.mrc")

        # flipping: concrete definition, twice = identity, each single axis
        got = quiet(tiltstack.flip_along_axes, given, flip_axes, output_file=outp("flip"), **kw)
        exp = S
        for a in flip_axes if isinstance(flip_axes, list) else [flip_axes]:
            exp = {"x": exp[:, ::-1, :], "y": exp[:, :, ::-1], "z": exp[::-1, :, :]}[a]
        verify("flip", got, exp)
        for a in ("x", "y", "z"):
            once = quiet(tiltstack.flip_along_axes, given, a, **kw)
            twice = quiet(tiltstack.flip_along_axes, np.ascontiguousarray(once), [a], input_order=oo, output_order=oo)
            check(same(to_canonical(twice, oo), S), f"flip {a} twice is not the identity {cfg}")
            both = quiet(tiltstack.flip_along_axes, given, [a, a], **kw)
            check(same(to_canonical(both, oo), S), f"flip [{a},{a}] is not the identity {cfg}")
            axis_np = {"x": 1, "y": 2, "z": 0}[a]
            check(same(to_canonical(once, oo), np.flip(S, axis=axis_np)), f"flip {a} {cfg}")

        # centred crop
        cw = w if nw is None else nw
        ch = h if nh is None else nh
        sw, sh = w // 2 - cw // 2, h // 2 - ch // 2
        got = quiet(tiltstack.crop, given, new_width=nw, new_height=nh, output_file=outp("crop"), **kw)
        verify("crop", got, S[:, sh : sh + ch, sw : sw + cw])

        # binning
        got = quiet(tiltstack.bin, given, b, output_file=outp("bin"), **kw)
        means = ref_bin(S, b)
        if S.dtype == np.int16 or integral:
            # sums of whole numbers are exact in any order, so the block mean is one well-defined double
            verify("bin", got, means.astype(S.dtype))
        else:
            verify("bin", got, means.astype(S.dtype), approx=True)

        # the caller's array is left alone
        if not as_file:
            check(same(given, given_copy), f"input array modified {cfg}")
    # the input file is left alone
    check(same(read_raw(pres.path), S), f"input file modified [{tag}]")
    os.remove(pres.path)


def property_suite():
    rng = np.random.default_rng(20240615)
    cases = [
        (2, 4, 5, np.float32),
        (2, 5, 4, np.int16),
        (3, 4, 40, np.int16),
        (3, 40, 4, np.float32),
        (25, 7, 6, np.int16),
        (25, 6, 9, np.float32),
        (5, 12, 9, np.int16),
        (6, 9, 12, np.float32),
        (4, 8, 6, np.int16),
        (7, 11, 10, np.float32),
    ]
    for _ in range(14):
        n = int(rng.integers(2, 26))
        h = int(rng.integers(4, 41))
        w = int(rng.integers(4, 41))
        if h == w:
            w = w + 1 if w < 40 else w - 1
        cases.append((n, h, w, [np.float32, np.int16][int(rng.integers(0, 2))]))
    for seed, (n, h, w, dt) in enumerate(cases):
        if n * h * w > 9000:  # keep the run short: shrink the number of tilts, not the image shape
            n = max(2, 9000 // (h * w))
        property_run(seed, n, h, w, dt, integral=(seed % 2 == 0))


def original(module, source):
    """the original function text, evaluated in a copy of the module's namespace"""
    ns = dict(vars(module))
    exec(textwrap.dedent(source), ns)
    return ns


def finish():
    shutil.rmtree(TMP, ignore_errors=True)
    if FAILS:
        print(f"FAIL ({len(FAILS)} of {N_CHECKS[0]} checks)")
        sys.exit(1)
    print(f"PASS ({N_CHECKS[0]} checks)")
    sys.exit(0)


# ---------------------------------------------------------------------------------------------------------------------
# change (a): flip_along_axes dispatches through the table _FLIP_SLICES instead of an if/elif chain
# ---------------------------------------------------------------------------------------------------------------------
ORIGINAL_FLIP = '''
def flip_along_axes(tilt_stack, axes, output_file=None, input_order="xyz", output_order="xyz"):
    ts = TiltStack(tilt_stack=tilt_stack, input_order=input_order, output_order=output_order)

    if not isinstance(axes, list):
        axes = [axes]

    for a in axes:
        if a == "x":
            ts.data = ts.data[:, ::-1, :]
        elif a == "y":
            ts.data = ts.data[:, :, ::-1]
        elif a == "z":
            ts.data = ts.data[::-1, :, :]
        else:
            raise ValueError(f"The axes can be 'x', 'y', or 'z'. Provided axis {a} not supported.")

    ts.write_out(output_file)

    return ts.correct_order()
'''


def compare_flip_with_original():
    orig = original(tiltstack, ORIGINAL_FLIP)["flip_along_axes"]
    rng = np.random.default_rng(7)
    axes_inputs = [
        "x",
        "y",
        "z",
        ["x"],
        ["y"],
        ["z"],
        [],  # nothing to flip
        ["x", "x"],
        ["x", "y"],
        ["y", "x"],
        ["z", "y", "x"],
        ["x", "y", "z", "x", "y", "z"],
        ["z", "z", "z"],
        [np.str_("x"), np.str_("z")],  # numpy strings, e.g. taken from an array of names
        # not supported: the same ValueError, same message, and before anything is written
        "X",
        "",
        "xy",
        " x",
        ["x", "w"],
        ["w", "x"],
        [None],
        None,
        [0],
        0,
        [1.5],
        ("x", "y"),  # a tuple is not a list: wrapped as one entry, not supported
        [("x",)],
        [["x"]],  # unhashable entry: cannot be looked up, still the ValueError
        [{"x": 1}],
        [b"x"],
    ]
    for n, h, w, dt in [(2, 4, 7, np.float32), (5, 9, 4, np.int16), (3, 6, 5, np.float32)]:
        S = make_stack(rng, n, h, w, dt)
        pres = Presenter(S, f"flipcmp_{n}_{h}_{w}")
        for axes, as_file, io_, oo, with_out in itertools.product(axes_inputs, (False, True), ORDERS, ORDERS, (False, True)):
            given = pres.give(as_file, io_)
            f_new = os.path.join(TMP, "cmp_new.mrc") if with_out else None
            f_old = os.path.join(TMP, "cmp_old.mrc") if with_out else None
            for f in (f_new, f_old):
                if f and os.path.exists(f):
                    os.remove(f)
            o_new = outcome(tiltstack.flip_along_axes, given, axes, output_file=f_new, input_order=io_, output_order=oo)
            o_old = outcome(orig, given, axes, output_file=f_old, input_order=io_, output_order=oo)
            cfg = f"[axes={axes!r} file={as_file} in={io_} out={oo} write={with_out}]"
            check(same_outcome(o_new, o_old), f"flip_along_axes differs from the original {cfg}: {o_new[:1]} / {o_old[:1]}")
            if with_out:
                check(os.path.exists(f_new) == os.path.exists(f_old), f"output file written in one version only {cfg}")
                if os.path.exists(f_new) and os.path.exists(f_old):
                    check(same(read_raw(f_new), read_raw(f_old)), f"written files differ {cfg}")
        # repeated calls on the same objects: the table is shared state, it must not be changed by use
        given = pres.give(False, "zyx")
        first = quiet(tiltstack.flip_along_axes, given, ["x", "z"], input_order="zyx", output_order="zyx")
        for _ in range(3):
            again = quiet(tiltstack.flip_along_axes, given, ["x", "z"], input_order="zyx", output_order="zyx")
            check(same(first, again), "repeated flip gives a different result")
        check(same(first, S[::-1, ::-1, :]), "flip x,z")
    table = getattr(tiltstack, "_FLIP_SLICES", None)
    if table is not None:  # patched tree: same keys as the branches of the chain, nothing else
        check(sorted(table) == ["x", "y", "z"], "keys of the table")


property_suite()
compare_flip_with_original()
finish()
