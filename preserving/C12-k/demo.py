"""C12 / change a -- kind 4 (tables instead of literals): the file-name conventions of cryomap.read / cryomap.write and
the name of the band-pass control file ("band.em") become module-level constants (MRC_READ_PATTERN,
MRC_WRITE_EXTENSIONS used with str.endswith(tuple), EM_EXTENSION, BAND_MASK_FILE); in cryomask the blur factor 5.0 of
preprocess_params and the isinstance type tuples of get_correct_format become BLUR_FACTOR / SEQUENCE_TYPES / SCALAR_TYPES.

The demo (i) checks the property (documented radial low/high/band-pass gains, linearity, real output, circular shifts,
complement, band = difference of low-passes, resolution -> round(box*pixel/resolution)) against a hand-written model of
the gain, and (ii) compares every function touched with the text of the original function on the same inputs --
including what this idiom is notorious for: every accepted / rejected file extension of read and write (.mrc .rec .em
.st .ali, numeric suffixes, "", ".EM", ".mrcs", "a.em.1"), the bytes of the files written (output maps and band.em), all
input types of get_correct_format (bool, float, np.int64, 1- and 3-sequences, wrong lengths) and the outward blur radius.
Run:  cd /tmp/wt7/C12 && /venv/bin/python /tmp/seedsS/C12/a/demo.py     (DEMO_SEED=<int> for another random stream)
"""
import sys, os

sys.path.insert(0, os.getcwd())
import warnings

warnings.filterwarnings("ignore")
import io, contextlib, tempfile, types, itertools, hashlib
import numpy as np

from cryocat import cryomap, cryomask

# --------------------------------------------------------------------------------------------------------------------
# Text of the ORIGINAL functions (unmodified tree, docstrings dropped).  They are executed in copies of the module
# namespaces so that "original" results can be compared with the results of the functions in the tree.
# --------------------------------------------------------------------------------------------------------------------
ORIG_MAP_SRC = r'''
def pixels2resolution(fourier_pixels, edge_size, pixel_size, print_out=True):
    res = edge_size * pixel_size / fourier_pixels
    if print_out:
        print(f'The target resolution is {res} Angstroms.')
    return res


def resolution2pixels(resolution, edge_size, pixel_size, print_out=True):
    pixels = round(edge_size * pixel_size / resolution)
    if print_out:
        print(f'The target resolution corresponds to {pixels} pixels.')
    return pixels


def get_filter_radius(edge_size, fourier_pixels, target_resolution, pixel_size):
    if fourier_pixels is not None:
        radius = fourier_pixels
        if pixel_size is not None:
            _ = pixels2resolution(fourier_pixels=fourier_pixels, edge_size=edge_size, pixel_size=pixel_size)
    elif target_resolution is not None and pixel_size is not None:
        radius = resolution2pixels(target_resolution, edge_size=edge_size, pixel_size=pixel_size)
    else:
        raise ValueError('Either target_voxels or target_resolution in combination with pixel_size have to be specified!')
    return radius


def bandpass(input_map, lp_fourier_pixels=None, lp_target_resolution=None, hp_fourier_pixels=None, hp_target_resolution=None, pixel_size=None, lp_gaussian=3, hp_gaussian=2, output_name=None):
    input_map = read(input_map)
    lp_radius = get_filter_radius(input_map.shape[0], fourier_pixels=lp_fourier_pixels, target_resolution=lp_target_resolution, pixel_size=pixel_size)
    hp_radius = get_filter_radius(input_map.shape[0], fourier_pixels=hp_fourier_pixels, target_resolution=hp_target_resolution, pixel_size=pixel_size)
    outer_mask = cryomask.spherical_mask(input_map.shape, lp_radius, gaussian=lp_gaussian, gaussian_outwards=False)
    inner_mask = cryomask.spherical_mask(input_map.shape, hp_radius, gaussian=hp_gaussian, gaussian_outwards=False)
    band_mask = fft.ifftshift(outer_mask - inner_mask)
    write(outer_mask - inner_mask, 'band.em', data_type=np.single)
    bandpass_filtered = np.real(fft.ifftn(fft.fftn(input_map) * band_mask))
    if output_name is not None:
        write(bandpass_filtered, output_name, data_type=np.single)
    return bandpass_filtered


def lowpass(input_map, fourier_pixels=None, target_resolution=None, pixel_size=None, gaussian=3, output_name=None):
    input_map = read(input_map)
    radius = get_filter_radius(input_map.shape[0], fourier_pixels=fourier_pixels, target_resolution=target_resolution, pixel_size=pixel_size)
    lowpass_filter = fft.ifftshift(cryomask.spherical_mask(input_map.shape, radius, gaussian=gaussian, gaussian_outwards=False))
    filtered_map = np.real(fft.ifftn(fft.fftn(input_map) * lowpass_filter))
    if output_name is not None:
        write(filtered_map, output_name, data_type=np.single)
    return filtered_map


def highpass(input_map, fourier_pixels=None, target_resolution=None, pixel_size=None, gaussian=2, output_name=None):
    input_map = read(input_map)
    radius = get_filter_radius(input_map.shape[0], fourier_pixels=fourier_pixels, target_resolution=target_resolution, pixel_size=pixel_size)
    highpass_filter = fft.ifftshift(np.ones(input_map.shape) - cryomask.spherical_mask(input_map.shape, radius, gaussian=gaussian, gaussian_outwards=False))
    filtered_map = np.real(fft.ifftn(fft.fftn(input_map) * highpass_filter))
    if output_name is not None:
        write(filtered_map, output_name, data_type=np.single)
    return filtered_map


def read(input_map, transpose=True, data_type=None):
    if isinstance(input_map, str):

        def valid_mrc(filename):
            pattern = '\\.(mrc|ali|rec|st)(\\.\\d+)?$'
            return bool(re.search(pattern, filename))
        if valid_mrc(input_map):
            data = mrcfile.open(input_map).data
        elif input_map.endswith('.em'):
            data = emfile.read(input_map)[1]
        else:
            raise ValueError('The input map file name', input_map, 'is neither em or mrc file!')
        if transpose:
            data = data.transpose(2, 1, 0)
    elif isinstance(input_map, np.ndarray):
        data = np.array(input_map)
    else:
        raise ValueError(f'Input map must be path to valid file or nparray')
    data = np.array(data, copy=True)
    if data_type is not None:
        data = data.astype(data_type)
    return data


def write(data_to_write, file_name, transpose=True, data_type=None, overwrite=True):
    if data_type is not None:
        data_to_write = data_to_write.astype(data_type)
    if transpose and data_to_write.ndim == 3:
        data_to_write = data_to_write.transpose(2, 1, 0)
    if data_to_write.dtype == np.float64:
        data_to_write = data_to_write.astype(np.float32)
    if file_name.endswith('.mrc') or file_name.endswith('.rec'):
        mrcfile.write(name=file_name, data=data_to_write, overwrite=overwrite)
    elif file_name.endswith('.em'):
        emfile.write(file_name, data=data_to_write, overwrite=overwrite)
    else:
        raise ValueError('The output file name', file_name, 'has to end with .mrc, .rec or .em!')
'''

ORIG_MASK_SRC = r'''
def add_gaussian(input_mask, sigma):
    if sigma == 0:
        return input_mask
    else:
        return filters.gaussian(input_mask, sigma=sigma)


def write_out(input_mask, output_name):
    if output_name is not None:
        cryomap.write(input_mask, output_name, data_type=np.single)


def rotate(input_mask, angles):
    if angles is None or not np.any(angles):
        return input_mask
    else:
        return cryomap.rotate(input_mask, rotation_angles=angles)


def postprocess(input_mask, gaussian, angles, output_name):
    mask = add_gaussian(input_mask, gaussian)
    mask = rotate(mask, angles)
    write_out(mask, output_name)
    return mask


def spherical_mask(mask_size, radius=None, center=None, gaussian=0.0, gaussian_outwards=True, output_name=None):
    mask_size = get_correct_format(mask_size)
    center = get_correct_format(center, reference_size=mask_size)
    if radius is None:
        radius = np.amin(mask_size) // 2
    radius = preprocess_params(radius, gaussian, gaussian_outwards)
    x, y, z = np.mgrid[0:mask_size[0]:1, 0:mask_size[1]:1, 0:mask_size[2]:1]
    mask = np.sqrt((x - center[0]) ** 2 + (y - center[1]) ** 2 + (z - center[2]) ** 2)
    mask[mask > radius] = 0
    mask[mask > 0] = 1
    if radius >= 0:
        mask[center[0], center[1], center[2]] = 1
    mask = postprocess(mask, gaussian, np.asarray([0, 0, 0]), output_name)
    return mask


def get_correct_format(input_value, reference_size=None):

    def format_input(unformatted_value):
        if isinstance(unformatted_value, (tuple, list, np.ndarray)):
            if len(unformatted_value) == 3:
                return np.asarray(unformatted_value).astype(int)
            elif len(unformatted_value) == 1:
                return np.full((3,), unformatted_value).astype(int)
            else:
                raise ValueError('The size have to be a single number or have to have length of 3!')
        elif isinstance(unformatted_value, (float, int)):
            return np.full((3,), unformatted_value).astype(int)
    if input_value is not None:
        size_correct_format = format_input(input_value)
    elif reference_size is not None:
        box_size = format_input(reference_size)
        size_correct_format = box_size // 2
    else:
        raise ValueError('Either input_size or referene_size have to be specified')
    return size_correct_format


def preprocess_params(radius, gaussian, gaussian_outwards):
    blur_factor = 5.0
    if gaussian != 0.0 and gaussian_outwards:
        new_radius = np.ceil(radius + gaussian * blur_factor).astype(int)
    else:
        new_radius = radius
    return new_radius
'''


def build_originals():
    mask_ns = dict(vars(cryomask))
    map_ns = dict(vars(cryomap))
    # constants the patched modules may have added must not leak into the originals: the original text does not use them
    exec(compile(ORIG_MASK_SRC, "<orig cryomask>", "exec"), mask_ns)
    exec(compile(ORIG_MAP_SRC, "<orig cryomap>", "exec"), map_ns)
    pub = lambda ns: {k: v for k, v in ns.items() if not k.startswith("__")}
    omask = types.SimpleNamespace(**pub(mask_ns))
    omap = types.SimpleNamespace(**pub(map_ns))
    mask_ns["cryomap"] = omap  # original write_out -> original write
    map_ns["cryomask"] = omask  # original lowpass -> original spherical_mask
    return omap, omask


OMAP, OMASK = build_originals()

TOL = 1e-9
failures = []
n_checks = 0


def check(cond, msg):
    global n_checks
    n_checks += 1
    if not cond:
        failures.append(msg)
        if len(failures) <= 25:
            print("FAIL:", msg)


@contextlib.contextmanager
def quiet():
    buf = io.StringIO()
    with contextlib.redirect_stdout(buf):
        yield buf


# --------------------------------------------------------------------------------------------------------------------
# independent model of the documented gain
# --------------------------------------------------------------------------------------------------------------------
def freq_index(shape):
    """signed integer frequency of every DFT bin, FFT order"""
    axes = []
    for n in shape:
        k = np.arange(n)
        k = np.where(k < (n + 1) // 2, k, k - n)  # 0..ceil(n/2)-1, -floor(n/2)..-1
        axes.append(k)
    return np.meshgrid(*axes, indexing="ij")


def gauss_blur_edge(vol, sigma):
    """separable Gaussian, kernel cut at int(4*sigma+0.5), edge replication -- written out by hand"""
    w = int(4.0 * sigma + 0.5)
    xs = np.arange(-w, w + 1)
    ker = np.exp(-0.5 * (xs / float(sigma)) ** 2)
    ker /= ker.sum()
    out = vol.astype(float)
    for ax in range(vol.ndim):
        pad = [(0, 0)] * vol.ndim
        pad[ax] = (w, w)
        p = np.pad(out, pad, mode="edge")
        acc = np.zeros_like(out)
        n = out.shape[ax]
        for j, wt in enumerate(ker):
            sl = [slice(None)] * vol.ndim
            sl[ax] = slice(j, j + n)
            acc += wt * p[tuple(sl)]
        out = acc
    return out


def model_gain(shape, cutoff, sigma):
    kx, ky, kz = freq_index(shape)
    r2 = kx * kx + ky * ky + kz * kz
    hard = (r2 <= cutoff * cutoff).astype(float)
    if sigma == 0:
        return hard, np.sqrt(r2)
    centered = np.fft.fftshift(hard)
    return np.fft.ifftshift(gauss_blur_edge(centered, sigma)), np.sqrt(r2)


def apply_gain(x, gain):
    return np.real(np.fft.ifftn(np.fft.fftn(x) * gain))


def measured_gain(filt, shape):
    """gain of a linear shift-invariant filter = DFT of its impulse response"""
    d = np.zeros(shape)
    d[0, 0, 0] = 1.0
    return np.fft.fftn(filt(d))


def hermitian_part(g):
    """(g[k] + g[-k]) / 2 -- what a real-valued output sees"""
    gm = g
    for ax in range(g.ndim):
        gm = np.roll(np.flip(gm, axis=ax), 1, axis=ax)
    return 0.5 * (g + gm)


def plane_wave(shape, k, phase):
    grids = np.meshgrid(*[np.arange(n) for n in shape], indexing="ij")
    arg = sum(2.0 * np.pi * ki * g / n for ki, g, n in zip(k, grids, shape))
    return np.cos(arg + phase)


# --------------------------------------------------------------------------------------------------------------------
# the property, checked against the model for one implementation (module-like object M)
# --------------------------------------------------------------------------------------------------------------------
def check_property(M, tag, rng, shapes, full):
    for shape in shapes:
        n0 = shape[0]
        cutoffs = sorted({1, 2, max(1, n0 // 4), max(1, n0 // 2 - 1), n0 // 2, n0 / 2})
        sigmas = [0, 0.0, 1, 2, 3, 4, 0.5, 1.5] if full else [0, 1, 3, 4]
        x = rng.standard_normal(shape)
        y = rng.standard_normal(shape)
        x0 = x.copy()
        for cutoff, sigma in itertools.product(cutoffs, sigmas):
            if not full and rng.random() < 0.5:
                continue
            lbl = f"{tag} shape={shape} cutoff={cutoff} sigma={sigma!r}"
            gain, rad = model_gain(shape, cutoff, sigma)
            kx, ky, kz = freq_index(shape)
            with quiet():
                lp = M.lowpass(x, fourier_pixels=cutoff, gaussian=sigma)
                hp = M.highpass(x, fourier_pixels=cutoff, gaussian=sigma)
            check(np.array_equal(x, x0), lbl + ": input map modified")
            check(lp.dtype == np.float64 and np.isrealobj(lp) and lp.shape == tuple(shape), lbl + ": lowpass not a real map")
            check(hp.dtype == np.float64 and np.isrealobj(hp) and hp.shape == tuple(shape), lbl + ": highpass not a real map")
            # the documented gain
            check(np.allclose(lp, apply_gain(x, gain), atol=TOL, rtol=0), lbl + ": lowpass differs from the model gain")
            check(np.allclose(hp, x - apply_gain(x, gain), atol=TOL, rtol=0), lbl + ": highpass is not the complement")
            check(np.allclose(lp + hp, x, atol=TOL, rtol=0), lbl + ": lowpass + highpass != input")
            # DFT of the output against DFT of the input
            gsym = hermitian_part(gain)
            check(
                np.allclose(np.fft.fftn(lp), gsym * np.fft.fftn(x), atol=1e-7, rtol=0),
                lbl + ": DFT(lowpass) != gain * DFT(input)",
            )
            # range / plateau / monotone of the model gain as measured on the implementation
            with quiet():
                mg = measured_gain(lambda d: M.lowpass(d, fourier_pixels=cutoff, gaussian=sigma), shape)
            check(np.allclose(mg.imag, 0, atol=1e-9), lbl + ": impulse gain not real")
            check(np.allclose(mg, gsym, atol=1e-9, rtol=0), lbl + ": impulse gain differs from model")
            g = mg.real
            check(g.min() >= -1e-9 and g.max() <= 1 + 1e-9, lbl + ": gain outside [0,1]")
            if sigma == 0:
                exact = np.round(g)
                check(np.allclose(g, exact, atol=1e-10), lbl + ": hard edge gain not 0/1")
                check(np.array_equal(exact == 1, rad <= cutoff), lbl + ": hard edge not at the cutoff radius")
            else:
                # The blur is separable and cut at w = int(4*sigma+0.5) voxels per axis: beyond cutoff +- (w*sqrt(3)+1)
                # the plateau is exact, beyond the documented cutoff +- (4*sigma+1) it holds within the tail weight of
                # the Gaussian (< 2e-3); the zero plateau is exact on the axes.
                w = int(4.0 * sigma + 0.5)
                inside = rad <= cutoff - 4 * sigma - 1
                outside = rad >= cutoff + 4 * sigma + 1
                on_axis = ((kx != 0).astype(int) + (ky != 0) + (kz != 0)) <= 1
                for arr, nm in ((gain, "model gain"), (g, "gain")):
                    check(np.all(np.abs(arr[inside] - 1) < 2e-3), lbl + f": {nm} not 1 inside")
                    check(np.all(np.abs(arr[outside]) < 2e-3), lbl + f": {nm} not 0 outside")
                    check(np.all(np.abs(arr[rad <= cutoff - w * np.sqrt(3)] - 1) < 1e-12), lbl + f": {nm} not exactly 1 deep inside")
                    check(np.all(np.abs(arr[outside & on_axis]) < 1e-12), lbl + f": {nm} not exactly 0 outside on the axes")
                    check(np.all(np.abs(arr[rad >= cutoff + w * np.sqrt(3) + 1]) < 1e-12), lbl + f": {nm} not exactly 0 far outside")
            # non-increasing along the positive axis rays (as long as the sphere does not touch the faces of the box, where
            # the edge replication of the blur is one-sided)
            if cutoff < min((n - 1) // 2 for n in shape):
                for ax in range(3):
                    idx = [0, 0, 0]
                    ray = []
                    for k in range((shape[ax] + 1) // 2):
                        idx[ax] = k
                        ray.append(g[tuple(idx)])
                    check(np.all(np.diff(ray) <= 1e-12), lbl + f": gain increases along axis {ax}")
            # linearity and circular shifts
            a, b = rng.uniform(-3, 3, 2)
            with quiet():
                lpy = M.lowpass(y, fourier_pixels=cutoff, gaussian=sigma)
                lpc = M.lowpass(a * x + b * y, fourier_pixels=cutoff, gaussian=sigma)
                hpy = M.highpass(y, fourier_pixels=cutoff, gaussian=sigma)
                hpc = M.highpass(a * x + b * y, fourier_pixels=cutoff, gaussian=sigma)
            check(np.allclose(lpc, a * lp + b * lpy, atol=1e-8, rtol=0), lbl + ": lowpass not linear")
            check(np.allclose(hpc, a * hp + b * hpy, atol=1e-8, rtol=0), lbl + ": highpass not linear")
            sh = tuple(int(rng.integers(-n, n + 1)) for n in shape)
            with quiet():
                lps = M.lowpass(np.roll(x, sh, axis=(0, 1, 2)), fourier_pixels=cutoff, gaussian=sigma)
                hps = M.highpass(np.roll(x, sh, axis=(0, 1, 2)), fourier_pixels=cutoff, gaussian=sigma)
            check(np.allclose(lps, np.roll(lp, sh, axis=(0, 1, 2)), atol=TOL, rtol=0), lbl + ": lowpass / shift")
            check(np.allclose(hps, np.roll(hp, sh, axis=(0, 1, 2)), atol=TOL, rtol=0), lbl + ": highpass / shift")
            # repeated call on the same object
            with quiet():
                lp2 = M.lowpass(x, fourier_pixels=cutoff, gaussian=sigma)
            check(np.array_equal(lp, lp2), lbl + ": second call differs")

        # default widths: lowpass 3, highpass 2, bandpass 3 / 2
        c = max(1, n0 // 3)
        g3, _ = model_gain(shape, c, 3)
        g2, _ = model_gain(shape, c, 2)
        with quiet():
            check(np.allclose(M.lowpass(x, fourier_pixels=c), apply_gain(x, g3), atol=TOL, rtol=0), f"{tag} {shape}: default lowpass width is not 3")
            check(np.allclose(M.highpass(x, fourier_pixels=c), x - apply_gain(x, g2), atol=TOL, rtol=0), f"{tag} {shape}: default highpass width is not 2")

        # band-pass = difference of its two low-passes
        bands = [(n0 // 2, 1, 0, 0), (n0 // 2, 2, 3, 2), (max(2, n0 // 3), 1, 1, 0), (max(2, n0 // 2 - 1), 2, 0, 1.5), (n0 // 2, max(1, n0 // 4), 4, 4)]
        for lpr, hpr, lg, hg in bands:
            lbl = f"{tag} shape={shape} band lp={lpr}/{lg} hp={hpr}/{hg}"
            with quiet():
                bp = M.bandpass(x, lp_fourier_pixels=lpr, hp_fourier_pixels=hpr, lp_gaussian=lg, hp_gaussian=hg)
                l1 = M.lowpass(x, fourier_pixels=lpr, gaussian=lg)
                l2 = M.lowpass(x, fourier_pixels=hpr, gaussian=hg)
            go, _ = model_gain(shape, lpr, lg)
            gi, _ = model_gain(shape, hpr, hg)
            check(np.allclose(bp, l1 - l2, atol=TOL, rtol=0), lbl + ": bandpass != lowpass - lowpass")
            check(np.allclose(bp, apply_gain(x, go - gi), atol=TOL, rtol=0), lbl + ": bandpass differs from model")
            check(bp.dtype == np.float64 and np.isrealobj(bp), lbl + ": bandpass not real")
            check(np.array_equal(x, x0), lbl + ": input modified by bandpass")
        with quiet():
            bpd = M.bandpass(x, lp_fourier_pixels=n0 // 2, hp_fourier_pixels=1)
        go, _ = model_gain(shape, n0 // 2, 3)
        gi, _ = model_gain(shape, 1, 2)
        check(np.allclose(bpd, apply_gain(x, go - gi), atol=TOL, rtol=0), f"{tag} {shape}: default bandpass widths are not 3 / 2")

        # pure plane waves
        kall = list(itertools.product(*[range(-(n // 2), (n + 1) // 2) for n in shape]))
        if shape == (8, 8, 8) and full:
            ks = kall  # every integer frequency
        else:
            ks = [kall[i] for i in rng.choice(len(kall), size=12, replace=False)]
            ks += [(0, 0, 0), (-(shape[0] // 2), 0, 0), (0, (shape[1] - 1) // 2, 0), (1, 0, 0), (0, 0, -1)]
        for sigma, cutoff in ((0, max(1, n0 // 4)), (1, max(1, n0 // 3)), (3, n0 // 2)):
            gain, rad = model_gain(shape, cutoff, sigma)
            gsym = hermitian_part(gain)
            for k in ks:
                w = plane_wave(shape, k, rng.uniform(0, 2 * np.pi))
                with quiet():
                    lw = M.lowpass(w, fourier_pixels=cutoff, gaussian=sigma)
                    hw = M.highpass(w, fourier_pixels=cutoff, gaussian=sigma)
                gk = gsym[tuple(ki % n for ki, n in zip(k, shape))]
                lbl = f"{tag} shape={shape} wave k={k} cutoff={cutoff} sigma={sigma}"
                check(np.allclose(lw, gk * w, atol=1e-9, rtol=0), lbl + ": lowpass of a plane wave")
                check(np.allclose(hw, (1 - gk) * w, atol=1e-9, rtol=0), lbl + ": highpass of a plane wave")
                if sigma == 0:
                    r2 = sum(ki * ki for ki in k)
                    want = 1.0 if r2 <= cutoff * cutoff else 0.0
                    check(abs(gk - want) < 1e-12, lbl + ": hard gain of the wave")

        # cutoff as resolution + pixel size
        for _ in range(6 if full else 3):
            px = float(rng.choice([0.5, 1.0, 1.35, 2.17, 3.42, 7.89]))
            res = float(rng.uniform(2.2 * px, n0 * px))
            want = round(n0 * px / res)
            with quiet():
                got = M.resolution2pixels(res, n0, px)
                back = M.pixels2resolution(max(want, 1), n0, px)
                rr = M.get_filter_radius(n0, None, res, px)
                rp = M.get_filter_radius(n0, want, None, None)
                rpp = M.get_filter_radius(n0, want, res * 3, px)  # pixels win over the resolution
            check(got == want and isinstance(got, int), f"{tag}: resolution2pixels({res},{n0},{px}) = {got}, want {want}")
            check(back == n0 * px / max(want, 1), f"{tag}: pixels2resolution")
            check(rr == want and rp == want and rpp == want, f"{tag}: get_filter_radius {rr} {rp} {rpp} want {want}")
            if want < 1:
                continue
            for sigma in (0, 2):
                gain, _ = model_gain(shape, want, sigma)
                with quiet():
                    a1 = M.lowpass(x, target_resolution=res, pixel_size=px, gaussian=sigma)
                    a2 = M.highpass(x, target_resolution=res, pixel_size=px, gaussian=sigma)
                    a3 = M.lowpass(x, fourier_pixels=want, pixel_size=px, gaussian=sigma)
                check(np.allclose(a1, apply_gain(x, gain), atol=TOL, rtol=0), f"{tag} {shape}: lowpass by resolution {res}/{px}")
                check(np.allclose(a2, x - apply_gain(x, gain), atol=TOL, rtol=0), f"{tag} {shape}: highpass by resolution {res}/{px}")
                check(np.array_equal(a1, a3), f"{tag} {shape}: pixels+pixel size differs from resolution+pixel size")
            hres = res * 4
            hwant = round(n0 * px / hres)
            if hwant >= 1:
                with quiet():
                    b1 = M.bandpass(x, lp_target_resolution=res, hp_target_resolution=hres, pixel_size=px)
                go, _ = model_gain(shape, want, 3)
                gi, _ = model_gain(shape, hwant, 2)
                check(np.allclose(b1, apply_gain(x, go - gi), atol=TOL, rtol=0), f"{tag} {shape}: bandpass by resolution")
        # exact .5 thresholds of round()
        for edge, px, res, want in ((10, 1.0, 4.0, 2), (14, 1.0, 4.0, 4), (12, 0.5, 4.0, 2), (9, 1.0, 2.0, 4), (11, 1.0, 2.0, 6)):
            with quiet():
                check(M.resolution2pixels(res, edge, px) == want == round(edge * px / res), f"{tag}: round at .5 ({edge},{px},{res})")


# --------------------------------------------------------------------------------------------------------------------
# tree (possibly patched) against the original text, same inputs, exact comparison
# --------------------------------------------------------------------------------------------------------------------
def outcome(fn, *args, **kw):
    buf = io.StringIO()
    try:
        with contextlib.redirect_stdout(buf):
            val = fn(*args, **kw)
        return ("ok", val, buf.getvalue())
    except Exception as err:  # noqa
        return ("raise", (type(err).__name__, repr(err.args)), buf.getvalue())


def same(a, b):
    if a[0] != b[0] or a[2] != b[2]:
        return False
    if a[0] == "raise":
        return a[1] == b[1]
    va, vb = a[1], b[1]
    if isinstance(va, np.ndarray) or isinstance(vb, np.ndarray):
        return (
            isinstance(va, np.ndarray)
            and isinstance(vb, np.ndarray)
            and va.dtype == vb.dtype
            and va.shape == vb.shape
            and np.array_equal(va, vb, equal_nan=True)
        )
    return type(va) is type(vb) and va == vb


def file_digest(path):
    if not os.path.exists(path):
        return None
    if path.endswith((".mrc", ".rec")):
        # the MRC header carries a time stamp label: compare mode, dimensions and voxels instead of raw bytes
        import mrcfile

        with mrcfile.open(path, permissive=True) as mrc:
            data = np.array(mrc.data)
            head = (int(mrc.header.mode), int(mrc.header.nx), int(mrc.header.ny), int(mrc.header.nz))
        return (head, str(data.dtype), data.shape, hashlib.sha256(data.tobytes()).hexdigest())
    with open(path, "rb") as fh:
        return hashlib.sha256(fh.read()).hexdigest()


def compare(name, args=(), kw=None, new_mod=None, old_mod=None, files=()):
    kw = kw or {}
    for f in files + ("band.em",):
        if os.path.exists(f):
            os.remove(f)
    new = outcome(getattr(new_mod, name), *args, **kw)
    dn = {f: file_digest(f) for f in files + ("band.em",)}
    for f in files + ("band.em",):
        if os.path.exists(f):
            os.remove(f)
    old = outcome(getattr(old_mod, name), *args, **kw)
    do = {f: file_digest(f) for f in files + ("band.em",)}
    check(same(new, old), f"tree vs original: {name}{args[1:] if args and isinstance(args[0], np.ndarray) else args} {kw}: {new[0]} / {old[0]}")
    check(dn == do, f"tree vs original: files written by {name} {kw} differ")
    return new


def compare_all(rng):
    M, K = cryomap, cryomask
    shapes = [(8, 8, 8), (9, 9, 9), (13, 10, 8), (8, 12, 17), (16, 16, 16), (21, 21, 21), (32, 20, 26), (48, 48, 48)]
    for shape in shapes:
        n0 = shape[0]
        x = rng.standard_normal(shape)
        x32 = x.astype(np.float32)
        xi = rng.integers(-5, 6, shape)
        cut = [1, 2, n0 // 2, n0 / 2, max(1, n0 // 3)]
        gs = [0, 0.0, False, 1, 2, 3, 4, 0.5, 2.5, np.float64(0), np.float64(3), np.int64(0), np.int64(2)]
        for c in cut:
            for g in gs:
                compare("lowpass", (x,), dict(fourier_pixels=c, gaussian=g), M, OMAP)
                compare("highpass", (x,), dict(fourier_pixels=c, gaussian=g), M, OMAP)
            # defaults left out
            compare("lowpass", (x,), dict(fourier_pixels=c), M, OMAP)
            compare("highpass", (x,), dict(fourier_pixels=c), M, OMAP)
            compare("lowpass", (x, c), {}, M, OMAP)
            compare("highpass", (x, c), {}, M, OMAP)
            compare("lowpass", (x32,), dict(fourier_pixels=c), M, OMAP)
            compare("highpass", (xi,), dict(fourier_pixels=c), M, OMAP)
            compare("lowpass", (x, c, None, None, 0), {}, M, OMAP)  # positional width
            compare("highpass", (x, c, None, None, 0), {}, M, OMAP)
        for lpr, hpr in ((n0 // 2, 1), (n0 // 2, 2), (max(2, n0 // 3), 1), (2, 2), (1, n0 // 2)):
            compare("bandpass", (x,), dict(lp_fourier_pixels=lpr, hp_fourier_pixels=hpr), M, OMAP)
            for lg, hg in ((0, 0), (0, 2), (3, 0), (0.0, 0.0), (3, 2), (1.5, 0.5), (4, 4), (False, 0)):
                compare("bandpass", (x,), dict(lp_fourier_pixels=lpr, hp_fourier_pixels=hpr, lp_gaussian=lg, hp_gaussian=hg), M, OMAP)
            compare("bandpass", (x,), dict(lp_fourier_pixels=lpr, hp_fourier_pixels=hpr, lp_gaussian=0), M, OMAP)
            compare("bandpass", (x,), dict(lp_fourier_pixels=lpr, hp_fourier_pixels=hpr, hp_gaussian=0), M, OMAP)
            compare("bandpass", (x, lpr, None, hpr, None, None, 0, 0), {}, M, OMAP)
        # resolution + pixel size, with the printed message
        for px, res in ((1.0, 4.0), (1.35, 7.7), (2.17, n0 * 2.17 / 2.5), (7.89, 20.0), (0.5, 4.0), (1, 4), (np.float32(1.1), np.float32(5.3))):
            compare("lowpass", (x,), dict(target_resolution=res, pixel_size=px), M, OMAP)
            compare("lowpass", (x,), dict(target_resolution=res, pixel_size=px, gaussian=0), M, OMAP)
            compare("highpass", (x,), dict(target_resolution=res, pixel_size=px), M, OMAP)
            compare("highpass", (x,), dict(target_resolution=res, pixel_size=px, gaussian=0), M, OMAP)
            compare("lowpass", (x,), dict(fourier_pixels=2, pixel_size=px), M, OMAP)
            compare("bandpass", (x,), dict(lp_target_resolution=res, hp_target_resolution=res * 3, pixel_size=px), M, OMAP)
            compare("bandpass", (x,), dict(lp_fourier_pixels=3, hp_target_resolution=res * 3, pixel_size=px, hp_gaussian=0), M, OMAP)
            compare("resolution2pixels", (res, n0, px), {}, M, OMAP)
            compare("resolution2pixels", (res, n0, px), dict(print_out=False), M, OMAP)
            compare("pixels2resolution", (3, n0, px), {}, M, OMAP)
            compare("get_filter_radius", (n0, None, res, px), {}, M, OMAP)
            compare("get_filter_radius", (n0, 3, res, px), {}, M, OMAP)
            compare("get_filter_radius", (n0, 3, None, None), {}, M, OMAP)
            compare("get_filter_radius", (n0, 0, res, None), {}, M, OMAP)
        # failing inputs fail the same way
        compare("get_filter_radius", (n0, None, None, None), {}, M, OMAP)
        compare("get_filter_radius", (n0, None, 4.0, None), {}, M, OMAP)
        compare("get_filter_radius", (n0, None, None, 2.0), {}, M, OMAP)
        compare("lowpass", (x,), {}, M, OMAP)
        compare("highpass", (x,), dict(pixel_size=2.0), M, OMAP)
        compare("bandpass", (x,), dict(lp_fourier_pixels=3), M, OMAP)
        compare("bandpass", (x,), dict(hp_fourier_pixels=3, pixel_size=1.5), M, OMAP)
        compare("lowpass", (list(x),), dict(fourier_pixels=2), M, OMAP)
        compare("lowpass", ("nofile.txt",), dict(fourier_pixels=2), M, OMAP)
        # files: written output, the band mask, reading the maps back
        for ext in (".mrc", ".rec", ".em"):
            out = "out" + ext
            compare("lowpass", (x,), dict(fourier_pixels=2, output_name=out), M, OMAP, files=(out,))
            compare("lowpass", (x,), dict(fourier_pixels=2, gaussian=0, output_name=out), M, OMAP, files=(out,))
            compare("highpass", (x,), dict(fourier_pixels=2, output_name=out), M, OMAP, files=(out,))
            compare("bandpass", (x,), dict(lp_fourier_pixels=3, hp_fourier_pixels=1, output_name=out), M, OMAP, files=(out,))
            compare("write", (x, "in" + ext), {}, M, OMAP, files=("in" + ext,))
            cryomap.write(x, "in" + ext)
            compare("read", ("in" + ext,), {}, M, OMAP)
            compare("read", ("in" + ext,), dict(transpose=False, data_type=np.float64), M, OMAP)
            compare("lowpass", ("in" + ext,), dict(fourier_pixels=2), M, OMAP)
            compare("highpass", ("in" + ext,), dict(fourier_pixels=2, gaussian=0), M, OMAP)
            compare("bandpass", ("in" + ext,), dict(lp_fourier_pixels=3, hp_fourier_pixels=1), M, OMAP)
            compare("write", (x, "in" + ext), dict(transpose=False, data_type=np.float32, overwrite=True), M, OMAP, files=("in" + ext,))
            compare("write", (xi.astype(np.int16), "in" + ext), {}, M, OMAP, files=("in" + ext,))
        for alt in ("a.st", "a.ali", "a.mrc.3", "a.rec.12", "a.st.1"):
            cryomap.write(x, "tmp.mrc")
            os.replace("tmp.mrc", alt)
            compare("read", (alt,), {}, M, OMAP)
            compare("lowpass", (alt,), dict(fourier_pixels=2), M, OMAP)
        for bad in ("a.mrcs", "a.em.1", "a.mrc.x", "a.txt", "", "mrc", "a.EM", "a.st.", "a.rec1"):
            compare("read", (bad,), {}, M, OMAP)
            compare("write", (x, bad), {}, M, OMAP, files=(bad,) if bad else ())
            compare("lowpass", (x,), dict(fourier_pixels=2, output_name=bad), M, OMAP, files=(bad,) if bad else ())
        compare("read", (x,), {}, M, OMAP)
        compare("read", (x,), dict(data_type=np.float32), M, OMAP)
        compare("read", (None,), {}, M, OMAP)

        # the transfer function itself and its helpers
        for r in (None, 0, 1, 2, n0 // 2, n0 / 2, n0, 2.5, -1, np.int64(3), np.float64(2.0)):
            for g in (0, 0.0, 1, 3, 0.5, False):
                for outw in (False, True):
                    compare("spherical_mask", (shape, r), dict(gaussian=g, gaussian_outwards=outw), K, OMASK)
            compare("spherical_mask", (shape, r), {}, K, OMASK)
            compare("spherical_mask", (shape,), dict(radius=r, center=(2, 3, 4)), K, OMASK)
            compare("spherical_mask", (shape,), dict(radius=r, center=[1], gaussian=1, gaussian_outwards=False), K, OMASK)
            compare("spherical_mask", (list(shape), r, None, 0, False), {}, K, OMASK)
            compare("spherical_mask", (np.array(shape), r, None, 2, False), {}, K, OMASK)
        compare("spherical_mask", (n0, 3), {}, K, OMASK)
        compare("spherical_mask", (float(n0), 3), dict(gaussian=1, gaussian_outwards=False), K, OMASK)
        compare("spherical_mask", ([n0], 3), {}, K, OMASK)
        compare("spherical_mask", ((n0, n0), 3), {}, K, OMASK)
        compare("spherical_mask", (None, 3), {}, K, OMASK)
        for ext in (".mrc", ".em", ".rec", ".txt"):
            compare("spherical_mask", (shape, 3), dict(gaussian=0, output_name="m" + ext), K, OMASK, files=("m" + ext,))
            compare("spherical_mask", (shape, 3), dict(gaussian=2, gaussian_outwards=False, output_name="m" + ext), K, OMASK, files=("m" + ext,))
        m = K.spherical_mask(shape, 2)
        for g in (0, 0.0, 1, 2.5, False):
            compare("add_gaussian", (m, g), {}, K, OMASK)
            compare("postprocess", (m, g, np.asarray([0, 0, 0]), None), {}, K, OMASK)
            compare("postprocess", (m, g, None, "p.em"), {}, K, OMASK, files=("p.em",))
        for args in ((3, 0, True), (3, 0.0, True), (3, 2, True), (3, 2, False), (3, 0.5, True), (2.5, 1.5, True), (0, 1, True), (-1, 1, True), (np.array([1, 2, 3]), 1, True)):
            compare("preprocess_params", args, {}, K, OMASK)
        for args in ((5,), (5.7,), ((1, 2, 3),), ([4],), (np.array([1.5, 2.5, 3.5]),), ((1, 2),), (None, 9), (None, (8, 9, 11)), (None, None), ("abc",), (np.int64(4),), (True,)):
            compare("get_correct_format", args, {}, K, OMASK)
    # identity of the returned object when nothing is to be done
    m = K.spherical_mask((8, 8, 8), 2)
    check(K.add_gaussian(m, 0) is m and K.postprocess(m, 0, np.asarray([0, 0, 0]), None) is m, "postprocess without work returns its argument")


def main():
    start = os.getcwd()
    with tempfile.TemporaryDirectory() as tmp:
        os.chdir(tmp)  # bandpass writes band.em into the working directory
        try:
            seed = int(os.environ.get("DEMO_SEED", "20260928"))
            rng = np.random.default_rng(seed)
            full_shapes = [(8, 8, 8), (9, 9, 9), (12, 12, 12), (13, 10, 8), (8, 12, 17)]
            light_shapes = [(16, 16, 16), (21, 21, 21), (32, 20, 26), (17, 30, 24), (48, 48, 48), (47, 47, 47), (20, 48, 9)]
            check_property(cryomap, "tree", rng, full_shapes, True)
            check_property(cryomap, "tree", rng, light_shapes, False)
            # the same checker accepts the original text (so a failure above is a failure of the tree, not of the checker)
            check_property(OMAP, "orig", np.random.default_rng(seed), full_shapes[:3], True)
            compare_all(rng)
        finally:
            os.chdir(start)
    print(f"{n_checks} checks, {len(failures)} failures")
    if failures:
        print("FAIL")
        sys.exit(1)
    print("PASS")


main()
