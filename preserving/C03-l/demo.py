import os
import sys

sys.path.insert(0, os.getcwd())

import inspect
import re
import tempfile
import textwrap
import warnings

import numpy as np
import pandas as pd

warnings.simplefilter("ignore")

from cryocat import cryomotl, starfileio  # noqa: E402
from cryocat.cryomotl import Motl, RelionMotl  # noqa: E402

SEED = int(os.environ.get("DEMO_SEED", "20260928"))
TMP = tempfile.mkdtemp(prefix="c03_demo_")
VERSIONS = (3.0, 3.1, 4.0)
FAILS = []


def check(cond, msg):
    if not cond:
        FAILS.append(msg)
        if len(FAILS) <= 25:
            print("FAIL:", msg)
    return bool(cond)


# ----------------------------------------------------------------------------------------------------------------
# independent statement of the conventions (numpy only, no scipy, no cryocat)
# ----------------------------------------------------------------------------------------------------------------
def _rz(a):
    a = np.deg2rad(np.asarray(a, dtype=float))
    c, s, o, z = np.cos(a), np.sin(a), np.ones_like(a), np.zeros_like(a)
    return np.stack([np.stack([c, -s, z], -1), np.stack([s, c, z], -1), np.stack([z, z, o], -1)], -2)


def _rx(a):
    a = np.deg2rad(np.asarray(a, dtype=float))
    c, s, o, z = np.cos(a), np.sin(a), np.ones_like(a), np.zeros_like(a)
    return np.stack([np.stack([o, z, z], -1), np.stack([z, c, -s], -1), np.stack([z, s, c], -1)], -2)


def _ry(a):
    a = np.deg2rad(np.asarray(a, dtype=float))
    c, s, o, z = np.cos(a), np.sin(a), np.ones_like(a), np.zeros_like(a)
    return np.stack([np.stack([c, z, s], -1), np.stack([z, o, z], -1), np.stack([-s, z, c], -1)], -2)


def particle_rotation(phi, theta, psi):
    """cryoCAT: extrinsic zxz (phi, theta, psi) -> R = Rz(psi) Rx(theta) Rz(phi)"""
    return _rz(psi) @ _rx(theta) @ _rz(phi)


def relion_rotation(rot, tilt, psi):
    """RELION: ZYZ (rot, tilt, psi) -> A = Rz(rot) Ry(tilt) Rz(psi)"""
    return _rz(rot) @ _ry(tilt) @ _rz(psi)


def inverse_defect(motl_angles, relion_angles):
    """max | R_particle @ A_relion - I | per list (0 when the one is the inverse of the other)"""
    motl_angles = np.asarray(motl_angles, dtype=float).reshape(-1, 3)
    relion_angles = np.asarray(relion_angles, dtype=float).reshape(-1, 3)
    if motl_angles.shape[0] == 0:
        return 0.0
    r = particle_rotation(motl_angles[:, 0], motl_angles[:, 1], motl_angles[:, 2])
    a = relion_rotation(relion_angles[:, 0], relion_angles[:, 1], relion_angles[:, 2])
    return float(np.abs(r @ a - np.eye(3)).max())


def rotation_distance(angles1, angles2):
    a1 = np.asarray(angles1, dtype=float).reshape(-1, 3)
    a2 = np.asarray(angles2, dtype=float).reshape(-1, 3)
    if a1.shape[0] == 0:
        return 0.0
    r1 = particle_rotation(a1[:, 0], a1[:, 1], a1[:, 2])
    r2 = particle_rotation(a2[:, 0], a2[:, 1], a2[:, 2])
    return float(np.abs(r1 - r2).max())


# ----------------------------------------------------------------------------------------------------------------
# generators
# ----------------------------------------------------------------------------------------------------------------
def random_angles(rng, n, mode):
    ang = np.column_stack([rng.uniform(-180, 180, n), rng.uniform(0, 180, n), rng.uniform(-180, 180, n)])
    if mode == "wide":  # outside the canonical ranges
        ang = np.column_stack([rng.uniform(-720, 720, n), rng.uniform(-540, 540, n), rng.uniform(-720, 720, n)])
    elif mode == "poles":  # gimbal lock
        ang[:, 1] = rng.choice([0.0, 180.0, -180.0, 360.0], n)
    elif mode == "mixed":
        k = rng.integers(0, 5, n)
        ang[k == 0, 1] = 0.0
        ang[k == 1, 1] = 180.0
        ang[k == 2, 0] = 0.0
        ang[k == 3] = 0.0
    elif mode == "grid":
        vals = np.array([-360.0, -270.0, -180.0, -90.0, 0.0, 90.0, 180.0, 270.0, 360.0])
        ang = vals[rng.integers(0, len(vals), (n, 3))]
    return ang


def random_motl_df(rng, n, mode="canonical", ids="random", index="default", integer_pos=False):
    df = pd.DataFrame(np.zeros((n, len(Motl.motl_columns))), columns=Motl.motl_columns)
    df["score"] = rng.uniform(-1, 1, n)
    df["tomo_id"] = np.sort(rng.integers(0, 400, n)).astype(float)
    if ids == "random":
        df["subtomo_id"] = np.sort(rng.choice(np.arange(1, 5000), n, replace=False)).astype(float)
    elif ids == "sequential":
        df["subtomo_id"] = np.arange(1, n + 1, dtype=float)
    elif ids == "odd":
        df["subtomo_id"] = (2 * np.arange(n) + 1).astype(float)
    elif ids == "even":
        df["subtomo_id"] = (2 * np.arange(n) + 2).astype(float)
    elif ids == "unsorted":
        df["subtomo_id"] = rng.permutation(np.arange(1, n + 1) * 3).astype(float)
    df["object_id"] = rng.integers(0, 30, n).astype(float)
    df["geom2"] = rng.integers(0, 7, n).astype(float)
    pos = rng.uniform(-2000, 4000, (n, 3))
    if integer_pos:
        pos = np.round(pos)
    df[["x", "y", "z"]] = pos
    sh = rng.uniform(-12, 12, (n, 3))
    sh[rng.random((n, 3)) < 0.15] = 0.0
    df[["shift_x", "shift_y", "shift_z"]] = sh
    ang = random_angles(rng, n, mode)
    df["phi"], df["theta"], df["psi"] = ang[:, 0], ang[:, 1], ang[:, 2]
    df["class"] = rng.integers(0, 9, n).astype(float)
    if index == "shuffled":
        df.index = rng.permutation(n) + 17
    elif index == "offset":
        df.index = np.arange(n) * 3 + 100
    return df


def independent_relion_df(rng, n, version, pixel_size, mode="canonical", halfsets="both", with_pixel_column=False,
                          numeric_names=False, unique_ids=True):
    """RELION particle table written the way RELION documents it (not by cryoCAT code)."""
    d = {}
    tomo = np.sort(rng.integers(1, 300, n))
    if unique_ids:
        sub = np.sort(rng.choice(np.arange(1, 9000), n, replace=False))
    else:
        sub = rng.integers(1, max(2, n // 2 + 1), n)
    coord = rng.uniform(-500, 5000, (n, 3))
    origin_px = rng.uniform(-9, 9, (n, 3))
    origin_px[rng.random((n, 3)) < 0.15] = 0.0
    ang = random_angles(rng, n, mode)
    ang_rln = np.column_stack([ang[:, 0], ang[:, 1], ang[:, 2]])
    d["rlnCoordinateX"], d["rlnCoordinateY"], d["rlnCoordinateZ"] = coord[:, 0], coord[:, 1], coord[:, 2]
    d["rlnAngleRot"], d["rlnAngleTilt"], d["rlnAnglePsi"] = ang_rln[:, 0], ang_rln[:, 1], ang_rln[:, 2]
    if version >= 4.0:
        if numeric_names:
            d["rlnTomoName"] = tomo.astype(float)
            d["rlnTomoParticleName"] = sub.astype(float)
        else:
            d["rlnTomoName"] = ["TS_%03d" % t for t in tomo]
            d["rlnTomoParticleName"] = ["TS_%03d/%d" % (t, s) for t, s in zip(tomo, sub)]
    else:
        if numeric_names:
            d["rlnMicrographName"] = tomo.astype(float)
            d["rlnImageName"] = sub.astype(float)
        else:
            d["rlnMicrographName"] = ["/data/tomos/%04d_7.8A.rec" % t for t in tomo]
            d["rlnImageName"] = ["/data/run5/subtomo/%04d/%04d_%07d_2.6A.mrc" % (t, t, s) for t, s in zip(tomo, sub)]
    if version >= 3.1:
        origin = origin_px * pixel_size  # Angstrom
        names = ["rlnOriginXAngst", "rlnOriginYAngst", "rlnOriginZAngst"]
        d["rlnOpticsGroup"] = np.ones(n, dtype=int)
    else:
        origin = origin_px
        names = ["rlnOriginX", "rlnOriginY", "rlnOriginZ"]
    for i, nm in enumerate(names):
        d[nm] = origin[:, i]
    d["rlnClassNumber"] = rng.integers(0, 6, n)
    if halfsets == "both":
        hs = rng.integers(1, 3, n)
        if n >= 2 and len(set(hs)) < 2:
            hs[0], hs[-1] = 1, 2
        d["rlnRandomSubset"] = hs
    elif halfsets == "one":
        d["rlnRandomSubset"] = np.ones(n, dtype=int)
    elif halfsets == "two":
        d["rlnRandomSubset"] = np.full(n, 2, dtype=int)
    elif halfsets == "alternating":
        d["rlnRandomSubset"] = (np.arange(n) % 2) + 1
    elif halfsets == "alternating2":
        d["rlnRandomSubset"] = ((np.arange(n) + 1) % 2) + 1
    if with_pixel_column and version < 4.0:
        d["rlnPixelSize"] = np.full(n, float(pixel_size))
    d["rlnMaxValueProbDistribution"] = rng.uniform(0, 1, n)
    rdf = pd.DataFrame(d)
    truth = {
        "tomo": tomo.astype(float),
        "sub": sub.astype(float),
        "coord": coord,
        "shift": -origin_px,
        "angles": ang_rln,
        "class": np.asarray(d["rlnClassNumber"], dtype=float),
        "halfset": None if halfsets == "none" else np.asarray(d["rlnRandomSubset"]),
    }
    return rdf, truth


def expected_halfset_ids(hs):
    """smallest strictly increasing numbers whose parity follows the half-set (1 -> odd, 2 -> even)"""
    out = []
    c = 0
    for h in hs:
        want = 1 if h % 2 == 1 else 0
        c += 1
        if c % 2 != want:
            c += 1
        out.append(c)
    return np.asarray(out, dtype=float)


def independent_star_text(rdf, version, pixel_size, optics):
    """minimal STAR writer (independent of cryocat.starfileio)"""
    lines = ["", "# version 30001", ""]
    if optics and version >= 3.1:
        lines += ["data_optics", "", "loop_"]
        cols = ["rlnOpticsGroup", "rlnOpticsGroupName", "rlnSphericalAberration", "rlnVoltage", "rlnImagePixelSize",
                "rlnImageSize", "rlnImageDimensionality"]
        lines += ["_%s #%d" % (c, i + 1) for i, c in enumerate(cols)]
        lines += ["1 opticsGroup1 2.700000 300.000000 %.6f 64 3" % pixel_size, "", ""]
    lines += ["data_" if version < 3.1 else "data_particles", "", "loop_"]
    lines += ["_%s #%d" % (c, i + 1) for i, c in enumerate(rdf.columns)]
    for row in rdf.itertuples(index=False):
        items = []
        for v in row:
            if isinstance(v, (float, np.floating)):
                items.append("%.6f" % v)
            else:
                items.append(str(v))
        lines.append(" ".join(items))
    lines += ["", ""]
    return "\n".join(lines)


def independent_star_parse(path):
    """minimal STAR reader (independent of cryocat.starfileio): {specifier: DataFrame of strings}"""
    blocks = {}
    cur, cols, rows, in_loop = None, [], [], False
    with open(path) as f:
        text = f.read()
    for raw in text.split("\n"):
        line = raw.split("#")[0].strip() if not raw.strip().startswith("_") else raw.strip()
        if line == "":
            continue
        if line.startswith("data_"):
            if cur is not None:
                blocks[cur] = pd.DataFrame(rows, columns=cols)
            cur, cols, rows, in_loop = line, [], [], False
        elif line == "loop_":
            in_loop = True
        elif line.startswith("_"):
            cols.append(line.split()[0][1:])
        else:
            rows.append(line.split())
    if cur is not None:
        blocks[cur] = pd.DataFrame(rows, columns=cols)
    return blocks


# ----------------------------------------------------------------------------------------------------------------
# the property
# ----------------------------------------------------------------------------------------------------------------
FORMATS = [
    ("", ""),
    ("/tomos/$xxxx.rec", "/sub/$xxxx/$xxxx_$yyyyyyy_2.6A.mrc"),
    ("TS_$xxx", "TS_$xxx/$yyyyy"),
    ("/t/$xx_$xxxx.rec", "/s/$yy_$yyyyyy_1.0A.mrc"),
]


def names_to_ids(rdf, version, tomo_format, subtomo_format):
    """independent reading of the generated names"""
    tname = "rlnTomoName" if version >= 4.0 else "rlnMicrographName"
    sname = "rlnTomoParticleName" if version >= 4.0 else "rlnImageName"
    tomo, sub = [], []
    for t, s in zip(rdf[tname].tolist(), rdf[sname].tolist()):
        if tomo_format == "":
            tomo.append(float(t))
        else:
            pre, post = longest_split(tomo_format, "x")
            tomo.append(float(str(t)[len(pre): len(str(t)) - len(post)]))
        if subtomo_format == "":
            sub.append(float(s))
        else:
            pre, post = longest_split(subtomo_format, "y")
            # the tomo sequence in the prefix may have been replaced; cut from the right and take trailing digits
            core = str(s)[: len(str(s)) - len(post)]
            sub.append(float(re.search(r"(\d+)$", core).group(1)))
    return np.asarray(tomo), np.asarray(sub)


def longest_split(fmt, letter):
    seqs = re.findall(r"\$" + letter + "+", fmt)
    longest = max(seqs, key=len)
    # python's sorted(key=len)[-1] takes the LAST of the longest; all longest are replaced anyway; take the last one
    pos = fmt.rfind(longest)
    return fmt[:pos], fmt[pos + len(longest):]


def check_export(motl_df, version, pixel_size, fmt, tag):
    src = motl_df.reset_index(drop=True)
    m = RelionMotl(motl_df.copy(), version=version, pixel_size=pixel_size, binning=1.0)
    rdf = m.create_relion_df(tomo_format=fmt[0], subtomo_format=fmt[1])
    n = src.shape[0]
    ok = check(rdf.shape[0] == n, f"{tag}: number of rows")
    if not ok:
        return None, None
    pos = src[["x", "y", "z"]].to_numpy() + src[["shift_x", "shift_y", "shift_z"]].to_numpy()
    check(np.array_equal(rdf[["rlnCoordinateX", "rlnCoordinateY", "rlnCoordinateZ"]].to_numpy(dtype=float), pos),
          f"{tag}: rlnCoordinate = x + shift")
    onames = ["rlnOriginX", "rlnOriginY", "rlnOriginZ"] if version < 3.1 else \
        ["rlnOriginXAngst", "rlnOriginYAngst", "rlnOriginZAngst"]
    other = ["rlnOriginXAngst", "rlnOriginYAngst", "rlnOriginZAngst"] if version < 3.1 else \
        ["rlnOriginX", "rlnOriginY", "rlnOriginZ"]
    check(all(c in rdf.columns for c in onames) and not any(c in rdf.columns for c in other),
          f"{tag}: origin columns of the version")
    check(np.all(rdf[onames].to_numpy(dtype=float) == 0.0), f"{tag}: zero origin shifts")
    d = inverse_defect(src[["phi", "theta", "psi"]].to_numpy(),
                       rdf[["rlnAngleRot", "rlnAngleTilt", "rlnAnglePsi"]].to_numpy(dtype=float))
    check(d < 1e-9, f"{tag}: ZYZ rotation is the inverse of the zxz rotation (defect {d:.2e})")
    tilt = rdf["rlnAngleTilt"].to_numpy(dtype=float)
    check(np.all((tilt >= -1e-9) & (tilt <= 180 + 1e-9)), f"{tag}: tilt in [0,180]")
    check(np.array_equal(rdf["rlnClassNumber"].to_numpy(dtype=float), src["class"].to_numpy()), f"{tag}: class")
    tomo, sub = names_to_ids(rdf, version, fmt[0], fmt[1])
    check(np.array_equal(tomo, src["tomo_id"].to_numpy()), f"{tag}: tomogram number in the names")
    check(np.array_equal(sub, src["subtomo_id"].to_numpy()), f"{tag}: subtomogram number in the names")
    hs = rdf["rlnRandomSubset"].to_numpy(dtype=float)
    want = np.where(src["subtomo_id"].to_numpy() % 2 == 1, 1.0, 2.0)
    check(np.array_equal(hs, want), f"{tag}: half-set 1/2 = odd/even subtomogram number")
    if version < 4.0:
        check(np.all(rdf["rlnPixelSize"].to_numpy(dtype=float) == float(pixel_size)), f"{tag}: rlnPixelSize")
    else:
        check("rlnPixelSize" not in rdf.columns, f"{tag}: no rlnPixelSize in 4.0")
    expected_cols = {3.0: RelionMotl.columns_v3_0, 3.1: RelionMotl.columns_v3_1, 4.0: RelionMotl.columns_v4}[version]
    check(set(expected_cols) <= set(rdf.columns), f"{tag}: columns of the version present")
    return m, rdf


def check_import_values(m, truth, version, tag, tol=0.0, renumbered=None):
    df = m.df
    n = len(truth["tomo"])
    if not check(df.shape[0] == n, f"{tag}: number of rows"):
        return
    check(np.allclose(df[["x", "y", "z"]].to_numpy(), truth["coord"], rtol=0, atol=tol), f"{tag}: x,y,z = rlnCoordinate")
    check(np.allclose(df[["shift_x", "shift_y", "shift_z"]].to_numpy(), truth["shift"], rtol=0, atol=max(tol, 1e-9) * 10),
          f"{tag}: shift = -origin (/ pixel size for >= 3.1)")
    d = inverse_defect(df[["phi", "theta", "psi"]].to_numpy(), truth["angles"])
    check(d < max(1e-9, tol * 1), f"{tag}: zxz rotation is the inverse of the ZYZ rotation (defect {d:.2e})")
    check(np.array_equal(df["tomo_id"].to_numpy(dtype=float), truth["tomo"]), f"{tag}: tomo_id")
    check(np.array_equal(df["class"].to_numpy(dtype=float), truth["class"]), f"{tag}: class")
    check(np.array_equal(df["geom3"].to_numpy(dtype=float), truth["sub"]), f"{tag}: subtomogram number in geom3")
    hs = truth["halfset"]
    unique = len(np.unique(truth["sub"])) == n
    if hs is not None and len(np.unique(hs)) == 2:
        check(np.array_equal(df["subtomo_id"].to_numpy(dtype=float), expected_halfset_ids(hs)),
              f"{tag}: half-set renumbering (1 -> odd, 2 -> even, increasing)")
        check(np.array_equal(df["subtomo_id"].to_numpy(dtype=float) % 2 == 1, hs % 2 == 1), f"{tag}: parity")
    elif unique:
        check(np.array_equal(df["subtomo_id"].to_numpy(dtype=float), truth["sub"]), f"{tag}: subtomo_id")
    else:
        check(np.array_equal(df["subtomo_id"].to_numpy(dtype=float), np.arange(1, n + 1)), f"{tag}: renumbered ids")
    check(np.array_equal(m.relion_df["ccSubtomoID"].to_numpy(dtype=float), df["subtomo_id"].to_numpy(dtype=float)),
          f"{tag}: ccSubtomoID")


def check_roundtrip_memory(motl_df, m, rdf, version, pixel_size, tag):
    src = motl_df.reset_index(drop=True)
    back = RelionMotl(rdf.copy(), version=version, pixel_size=pixel_size)
    pos0 = src[["x", "y", "z"]].to_numpy() + src[["shift_x", "shift_y", "shift_z"]].to_numpy()
    pos1 = back.df[["x", "y", "z"]].to_numpy() + back.df[["shift_x", "shift_y", "shift_z"]].to_numpy()
    check(np.allclose(pos0, pos1, rtol=0, atol=1e-9), f"{tag}: position after export+import")
    d = rotation_distance(src[["phi", "theta", "psi"]].to_numpy(), back.df[["phi", "theta", "psi"]].to_numpy())
    check(d < 1e-9, f"{tag}: orientation after export+import (distance {d:.2e})")
    check(np.array_equal(back.df["tomo_id"].to_numpy(dtype=float), src["tomo_id"].to_numpy()), f"{tag}: tomo_id back")
    check(np.array_equal(back.df["class"].to_numpy(dtype=float), src["class"].to_numpy()), f"{tag}: class back")
    check(np.array_equal(back.df["geom3"].to_numpy(dtype=float), src["subtomo_id"].to_numpy()), f"{tag}: geom3 back")
    check(np.array_equal(back.df["subtomo_id"].to_numpy(dtype=float) % 2, src["subtomo_id"].to_numpy() % 2),
          f"{tag}: parity of the subtomogram number back")
    return back


def check_roundtrip_file(motl_df, version, pixel_size, fmt, optics, tag):
    src = motl_df.reset_index(drop=True)
    m = RelionMotl(motl_df.copy(), version=version, pixel_size=pixel_size, binning=1.0)
    path = os.path.join(TMP, "rt_%s.star" % re.sub(r"[^0-9a-zA-Z]+", "_", tag))
    m.write_out(path, write_optics=optics, tomo_format=fmt[0], subtomo_format=fmt[1])
    blocks = independent_star_parse(path)
    spec = "data_" if version < 3.1 else "data_particles"
    if not check(spec in blocks, f"{tag}: particle block {spec} in the file ({list(blocks)})"):
        return
    if optics:
        check("data_optics" in blocks and blocks["data_optics"].shape[0] == 1, f"{tag}: optics block written")
        check(abs(float(blocks["data_optics"]["rlnImagePixelSize"][0]) - pixel_size) < 1e-6, f"{tag}: optics pixel size")
    else:
        check("data_optics" not in blocks, f"{tag}: no optics block")
    fdf = blocks[spec]
    pos = src[["x", "y", "z"]].to_numpy() + src[["shift_x", "shift_y", "shift_z"]].to_numpy()
    fpos = fdf[["rlnCoordinateX", "rlnCoordinateY", "rlnCoordinateZ"]].to_numpy(dtype=float)
    check(fpos.shape == pos.shape and np.allclose(fpos, pos, rtol=0, atol=6e-7), f"{tag}: coordinates in the file")
    d = inverse_defect(src[["phi", "theta", "psi"]].to_numpy(),
                       fdf[["rlnAngleRot", "rlnAngleTilt", "rlnAnglePsi"]].to_numpy(dtype=float))
    check(d < 1e-6, f"{tag}: angles in the file (defect {d:.2e})")
    onames = ["rlnOriginX", "rlnOriginY", "rlnOriginZ"] if version < 3.1 else \
        ["rlnOriginXAngst", "rlnOriginYAngst", "rlnOriginZAngst"]
    check(np.all(fdf[onames].to_numpy(dtype=float) == 0), f"{tag}: zero origins in the file")
    check(np.array_equal(fdf["rlnClassNumber"].to_numpy(dtype=float), src["class"].to_numpy()), f"{tag}: class in file")
    want = np.where(src["subtomo_id"].to_numpy() % 2 == 1, 1.0, 2.0)
    check(np.array_equal(fdf["rlnRandomSubset"].to_numpy(dtype=float), want), f"{tag}: half-sets in the file")
    tomo, sub = names_to_ids(fdf, version, fmt[0], fmt[1])
    check(np.array_equal(tomo, src["tomo_id"].to_numpy()) and np.array_equal(sub, src["subtomo_id"].to_numpy()),
          f"{tag}: names in the file")
    # and back through cryoCAT's reader; version and pixel size found in the file
    back = RelionMotl(path)
    check(back.version == version, f"{tag}: version detected from the file ({back.version})")
    pos1 = back.df[["x", "y", "z"]].to_numpy() + back.df[["shift_x", "shift_y", "shift_z"]].to_numpy()
    check(np.allclose(pos, pos1, rtol=0, atol=6e-7), f"{tag}: position after file round trip")
    d = rotation_distance(src[["phi", "theta", "psi"]].to_numpy(), back.df[["phi", "theta", "psi"]].to_numpy())
    check(d < 1e-6, f"{tag}: orientation after file round trip (distance {d:.2e})")
    check(np.array_equal(back.df["tomo_id"].to_numpy(dtype=float), src["tomo_id"].to_numpy()), f"{tag}: tomo_id (file)")
    check(np.array_equal(back.df["class"].to_numpy(dtype=float), src["class"].to_numpy()), f"{tag}: class (file)")
    check(np.array_equal(back.df["geom3"].to_numpy(dtype=float), src["subtomo_id"].to_numpy()), f"{tag}: geom3 (file)")
    return back


def check_import(rng, n, version, pixel_size, tag, through_file=False, optics=False, **kw):
    rdf, truth = independent_relion_df(rng, n, version, pixel_size, **kw)
    if through_file:
        path = os.path.join(TMP, "in_%s.star" % re.sub(r"[^0-9a-zA-Z]+", "_", tag))
        with open(path, "w") as f:
            f.write(independent_star_text(rdf, version, pixel_size, optics))
        if (version >= 3.1 and optics) or (version == 3.1 and kw.get("with_pixel_column")):
            m = RelionMotl(path)  # version and pixel size from the file
        else:
            m = RelionMotl(path, pixel_size=pixel_size)
        check(m.version == version, f"{tag}: detected version {m.version}")
        truth = dict(truth)
        tol = 2e-6
        check_import_values(m, truth, version, tag, tol=tol)
    else:
        m = RelionMotl(rdf.copy(), version=version, pixel_size=pixel_size)
        check_import_values(m, truth, version, tag)
        # version detection from the columns alone
        m2 = RelionMotl(rdf.copy(), pixel_size=pixel_size)
        check(m2.version == version, f"{tag}: version from the columns ({m2.version})")
        check(m2.df.equals(m.df), f"{tag}: same result with detected version")
    return m, rdf, truth


def run_property(rng, rounds=1):
    counter = 0
    sizes = [1, 2, 3, 7, 50, 300]
    modes = ["canonical", "wide", "poles", "mixed", "grid"]
    for r in range(rounds):
        for version in VERSIONS:
            for n in sizes:
                for mode in modes:
                    counter += 1
                    ps = float(rng.choice([0.5, 1.0, 1.35, 2.176, 7.8, 13.33]))
                    fmt = FORMATS[counter % len(FORMATS)]
                    readable = fmt in (FORMATS[0], FORMATS[2] if version >= 4.0 else FORMATS[1])
                    ids = ["random", "sequential", "odd", "even", "unsorted"][counter % 5]
                    index = ["default", "shuffled", "offset"][counter % 3]
                    mdf = random_motl_df(rng, n, mode=mode, ids=ids, index=index)
                    tag = f"export v{version} n={n} {mode} ids={ids} idx={index} fmt={counter % len(FORMATS)}"
                    m, rdf = check_export(mdf, version, ps, fmt, tag)
                    if m is None:
                        continue
                    # repeated call on the same object gives the same table
                    rdf2 = m.create_relion_df(tomo_format=fmt[0], subtomo_format=fmt[1])
                    check(rdf.equals(rdf2), f"{tag}: repeated export identical")
                    if not readable:  # names that cryoCAT's own reader does not understand: take the usual ones
                        fmt = FORMATS[2] if version >= 4.0 else FORMATS[1]
                        rdf = m.create_relion_df(tomo_format=fmt[0], subtomo_format=fmt[1])
                    check_roundtrip_memory(mdf, m, rdf, version, ps, "mem " + tag)
                    if n in (1, 3, 50) or (n == 300 and mode == "wide"):
                        optics = bool((counter // 2) % 2) and version >= 3.1
                        check_roundtrip_file(mdf, version, ps, fmt, optics, f"file v{version} n={n} {mode} {counter}")
                    # import of independently written RELION data
                    hs = ["both", "one", "two", "alternating", "alternating2", "none"][counter % 6]
                    itag = f"import v{version} n={n} {mode} hs={hs} ps={ps}"
                    check_import(rng, n, version, ps, itag, mode=mode, halfsets=hs,
                                 with_pixel_column=bool(counter % 2), unique_ids=(counter % 7 != 0),
                                 numeric_names=(counter % 11 == 0))
                    if n in (1, 2, 50):
                        check_import(rng, n, version, ps, "file-" + itag + f" {counter}", through_file=True,
                                     optics=bool(counter % 2), mode=mode, halfsets=hs,
                                     with_pixel_column=(counter % 4 == 0))
    return counter


def outcome(fn, *a, **k):
    """result or the exception type -- to compare two implementations also where they raise"""
    try:
        return ("ok", fn(*a, **k))
    except BaseException as e:  # noqa: BLE001
        return ("raise", type(e).__name__)


def same(a, b):
    if type(a) is not type(b):
        return False
    if isinstance(a, pd.DataFrame):
        return a.equals(b) and list(a.columns) == list(b.columns) and a.index.equals(b.index) and \
            [str(t) for t in a.dtypes] == [str(t) for t in b.dtypes]
    if isinstance(a, np.ndarray):
        return a.shape == b.shape and a.dtype == b.dtype and np.array_equal(a, b, equal_nan=a.dtype.kind == "f")
    if isinstance(a, (tuple, list)):
        return len(a) == len(b) and all(same(x, y) for x, y in zip(a, b))
    if isinstance(a, float) and a != a:
        return b != b
    return a == b


def original_function(src, name, extra_globals=None):
    """compile the stored text of the original function in the namespace of cryocat.cryomotl"""
    ns = dict(vars(cryomotl))
    if extra_globals:
        ns.update(extra_globals)
    exec(textwrap.dedent(src), ns)
    return ns[name]


# ----------------------------------------------------------------------------------------------------------------
# change (b): specifier lookups with try / list.index / except ValueError -- patched against the original text
# ----------------------------------------------------------------------------------------------------------------
ORIG_GET_DATA_PARTICLES_ID = '''
def _get_data_particles_id(input_list):
    if "data_particles" in input_list:
        return input_list.index("data_particles")
    elif "data_" in input_list:
        return input_list.index("data_")
    else:
        for index, item in enumerate(input_list):
            if "data_" in item and item!="data_optics":
                return index

        raise UserInputError("The starfile does not contain particle list.")
'''

ORIG_GET_OPTICS_ID = '''
def _get_optics_id(input_list):
    if "data_optics" in input_list:
        return input_list.index("data_optics")
    else:
        return None
'''

ORIG_GET_SPECIFIER_ID = '''
def get_specifier_id(speficiers, specifier_id):
    if specifier_id in speficiers:
        return speficiers.index(specifier_id)
    else:
        return None
'''


def compare_with_original(rng):
    import itertools

    orig_data = original_function(ORIG_GET_DATA_PARTICLES_ID, "_get_data_particles_id")
    orig_optics = original_function(ORIG_GET_OPTICS_ID, "_get_optics_id")
    orig_spec = original_function(ORIG_GET_SPECIFIER_ID, "get_specifier_id")

    words = ["data_particles", "data_", "data_optics", "data_general", "data_images", "data", "Data_", "data_particle",
             "xdata_particles", "data_particles ", "", "data_optics2", "data_stopgap_motivelist", "optics", "data_model"]
    lists = [[], ["data_"], ["data_particles"], ["data_optics"], ["data_optics", "data_particles"],
             ["data_particles", "data_optics"], ["data_optics", "data_"], ["data_", "data_particles"],
             ["data_particles", "data_"], ["data_optics", "data_optics"], ["data_particles", "data_particles"],
             ["data_", "data_"], ["data_optics", "data_images"], ["data_images", "data_optics"],
             ["data_optics", "data_optics", "data_images", "data_particles"], ["data"], [""], ["optics"],
             ["data_general", "data_optics", "data_particles"], ["data_optics", "data_general"]]
    for k in (1, 2, 3):
        lists += [list(c) for c in itertools.product(words[:8], repeat=k)][:400]
    for _ in range(400):
        lists.append([words[i] for i in rng.integers(0, len(words), rng.integers(0, 7))])
    # tuples (also have .index), plain strings (substring search, the notorious twin of "in"), other element types
    odd = [tuple(l) for l in lists[:40]] + ["data_particles", "data_", "data_optics", "xxdata_opticsxx", "", "abc",
                                            "data_x"] + \
          [[None], [3, "data_"], [3.0, None], ["data_optics", None], [b"data_", "data_particles"],
           [["data_"]], [("data_particles",)]]
    # things that are no sequences of specifiers at all (never produced by Starfile.read) are refused, not searched
    for l in (None, 5, {"data_": 1}, {"data_optics"}):
        for fn in (RelionMotl._get_data_particles_id, RelionMotl._get_optics_id,
                   lambda x: starfileio.Starfile.get_specifier_id(x, "data_optics")):
            p = outcome(fn, l)
            check(p[0] == "raise" or p == ("ok", None), f"{l!r}: a non-list must not be given an index ({p})")
    for l in lists + odd:
        for orig, new, nm in ((orig_data, RelionMotl._get_data_particles_id, "_get_data_particles_id"),
                              (orig_optics, RelionMotl._get_optics_id, "_get_optics_id")):
            o, p = outcome(orig, l), outcome(new, l)
            check(same(o, p), f"{nm}({l!r}): original {o} != patched {p}")
        for w in words[:6] + [None, 3]:
            o, p = outcome(orig_spec, l, w), outcome(starfileio.Starfile.get_specifier_id, l, w)
            check(same(o, p), f"get_specifier_id({l!r}, {w!r}): original {o} != patched {p}")
    # the input list is not changed by the search
    l = ["data_optics", "data_particles"]
    RelionMotl._get_data_particles_id(l), RelionMotl._get_optics_id(l), starfileio.Starfile.get_specifier_id(l, "x")
    check(l == ["data_optics", "data_particles"], "specifier list untouched")
    # the error for a file without particles is the same one
    from cryocat.exceptions import UserInputError
    for l in ([], ["data_optics"], ["optics", "model"]):
        try:
            RelionMotl._get_data_particles_id(l)
            check(False, f"{l}: no error")
        except UserInputError as e:
            check(str(e) == "The starfile does not contain particle list.", f"{l}: message {e}")
        except Exception as e:  # noqa: BLE001
            check(False, f"{l}: {type(e).__name__}")

    # whole files with both implementations: block order, optics on/off, extra blocks, repeated reads
    patched = (RelionMotl.__dict__["_get_data_particles_id"], RelionMotl.__dict__["_get_optics_id"],
               starfileio.Starfile.__dict__["get_specifier_id"])

    def run_all(use_original):
        if use_original:
            RelionMotl._get_data_particles_id = staticmethod(orig_data)
            RelionMotl._get_optics_id = staticmethod(orig_optics)
            starfileio.Starfile.get_specifier_id = staticmethod(orig_spec)
        out = []
        r = np.random.default_rng(SEED + 7)
        try:
            for v in VERSIONS:
                for n in (1, 2, 40):
                    for optics in (False, True):
                        for variant in ("plain", "particles_first", "extra_block", "named_block"):
                            rin, _ = independent_relion_df(r, n, v, 2.5, mode="mixed", with_pixel_column=True)
                            text = independent_star_text(rin, v, 2.5, optics)
                            if variant == "particles_first" and optics and v >= 3.1:
                                head, tail = text.split("data_particles")
                                text = "\n\ndata_particles" + tail + "\n" + head[head.index("data_optics"):]
                            elif variant == "extra_block":
                                text = "\ndata_general\n\nloop_\n_rlnFinalResolution #1\n3.4\n\n" + text
                            elif variant == "named_block":
                                text = text.replace("data_particles", "data_images") if v >= 3.1 else \
                                    text.replace("\ndata_\n", "\ndata_images\n")
                            path = os.path.join(TMP, "cmpb_%s_%s_%d_%s_%s.star" % (use_original, v, n, optics, variant))
                            with open(path, "w") as f:
                                f.write(text)
                            for rep in range(2):
                                res = outcome(lambda: RelionMotl(path, pixel_size=None if optics and v >= 3.1 else 2.5,
                                                                 binning=1.0))
                                if res[0] == "ok":
                                    m = res[1]
                                    out += [m.df, m.relion_df, m.version, m.optics_data,
                                            np.asarray(m.pixel_size, dtype=float)]
                                    # optics taken from a file / written back
                                    for wo in (False, True):
                                        o2 = os.path.join(TMP, "cmpb_out_%s.star" % use_original)
                                        w = outcome(lambda: m.write_out(o2, write_optics=wo, use_original_entries=False,
                                                                        optics_data=path if wo and optics else None))
                                        out.append(w[0] if w[0] == "ok" else w)
                                        if w[0] == "ok":
                                            with open(o2) as f:
                                                out.append(f.read())
                                else:
                                    out.append(res)
                            out.append(outcome(starfileio.Starfile.get_frame_and_comments, path, "data_optics"))
                            out.append(outcome(starfileio.Starfile.get_frame_and_comments, path, "data_particles"))
                            out.append(outcome(starfileio.Starfile.get_frame_and_comments, path, "data_"))
                            out.append(outcome(starfileio.Starfile.remove_lines, path, [0], None, "data_nothing"))
                            if n > 1:
                                out.append(outcome(starfileio.Starfile.remove_lines, path, [0], None,
                                                   "data_particles" if v >= 3.1 else "data_"))
        finally:
            RelionMotl._get_data_particles_id, RelionMotl._get_optics_id = patched[:2]
            starfileio.Starfile.get_specifier_id = patched[2]
        return out

    a, b = run_all(True), run_all(False)
    n_ok = sum(1 for x in a if isinstance(x, pd.DataFrame))
    check(n_ok > 200, f"whole files: only {n_ok} tables produced")
    check(len(a) == len(b) and all(same(x, y) for x, y in zip(a, b)), "whole files: original and patched differ")


if __name__ == "__main__":
    rng = np.random.default_rng(SEED)
    cases = run_property(rng)
    compare_with_original(rng)
    import shutil

    shutil.rmtree(TMP, ignore_errors=True)
    if FAILS:
        print(f"FAIL ({len(FAILS)} checks failed, {cases} property cases)")
        sys.exit(1)
    print(f"PASS ({cases} property cases, patched and original functions agree)")
