"""C02 / change b -- Token.parse_rows: the `end` flag and the for / else of the row loop replaced by `while True` + the length of
the row, `range(len(columns))` by direct iteration; Starfile.read: numeric conversion of the blocks by a comprehension.

Checks (clean tree and patched tree alike):
 1. round trip: Starfile.write -> independent tokenizer of the text -> Starfile.read gives the same blocks, labels, rows, values;
 2. hand-built STAR texts with comments / blank lines / tabs / CRLF are read into what an independent tokenizer finds;
 3. Token.parse_rows / Starfile.read of the tree return exactly what the ORIGINAL parse_rows / read kept below return (tables,
    dtypes, comments, remaining tokens, exceptions), also for short / long rows, 0 columns and malformed files;
 4. the caller's tables / lists are left untouched, repeated calls give the same result.
"""
import os
import sys

sys.path.insert(0, os.getcwd())

import copy
import random
import re
import tempfile

import numpy as np
import pandas as pd

from cryocat import starfileio
from cryocat.starfileio import Starfile, Token, TokenType

FAIL = []


def check(cond, msg):
    if not cond:
        FAIL.append(msg)
        if len(FAIL) < 15:
            print("FAIL:", msg)


# ------------------------------------------------------------------------------------------------ original function text
def original_parse_rows(tokens, columns):
    comments = Token.parse_newline_or_comments(tokens)
    end = False
    rows = []
    while not end:
        data = []
        for i in range(len(columns)):
            token = Token.check_then_consume(tokens, TokenType.LITERAL)
            if token is None:
                end = True
                break
            else:
                data.append(token.value)
        else:
            Token.consume(tokens, TokenType.NEWLINE)
            rows.append(data)
    return comments, pd.DataFrame(rows, columns=columns)


def original_read(file_path, data_id=None):
    with open(file_path, mode="r") as file:
        raw_starfile = file.read()

    tokens = Token.tokenize(raw_starfile)
    frames = []
    comments = []
    specifiers = []
    while Token.lookahead(tokens, TokenType.LITERAL, [TokenType.NEWLINE, TokenType.COMMENT]):
        specifier_comments, specifier = Token.parse_specifier(tokens)
        column_comments, columns = Token.parse_columns(tokens)
        rows_comments, data = original_parse_rows(tokens, columns)
        comments.append(specifier_comments + column_comments + rows_comments)
        specifiers.append(specifier)
        frames.append(data)
    Token.parse_newline_or_comments(tokens)
    if len(tokens) > 0:
        raise IOError(f"Expected a specifier or an end of token but got {tokens[0].token_type}")

    def to_numeric_if_possible(column):
        try:
            return pd.to_numeric(column)
        except (ValueError, TypeError):
            return column

    for i, f in enumerate(frames):
        frames[i] = f.apply(to_numeric_if_possible)

    if data_id is not None:
        return frames[data_id], specifiers[data_id], comments[data_id]
    else:
        return frames, specifiers, comments


def tok_key(tokens):
    return [(t.token_type, t.value, t.location) for t in tokens]


def outcome(fn, *args):
    try:
        return ("ok", fn(*args))
    except Exception as e:  # noqa
        return ("exc", type(e).__name__, str(e))


def same_read(o, m):
    """outcome of original_read against outcome of Starfile.read"""
    if o[0] != m[0]:
        return False
    if o[0] == "exc":
        return o == m
    (fo, so, co), (fm, sm, cm) = o[1], m[1]
    if isinstance(fo, pd.DataFrame):
        fo, so, co, fm, sm, cm = [fo], [so], [co], [fm], [sm], [cm]
    return so == sm and co == cm and len(fo) == len(fm) and all(frames_equal(x, y) and list(x.index) == list(y.index) for x, y in zip(fo, fm))


def compare_parse_rows(text, columns, tag):
    """Token.parse_rows of the tree against the original on the same token queue: result, exception, what is left."""
    t1, t2 = Token.tokenize(text), Token.tokenize(text)
    c1, c2 = list(columns), list(columns)
    o = outcome(original_parse_rows, t1, c1)
    m = outcome(Token.parse_rows, t2, c2)
    check(c1 == list(columns) and c2 == list(columns), f"{tag}: the list of columns was modified")
    check(tok_key(t1) == tok_key(t2), f"{tag}: parse_rows leaves other tokens in the queue than the original")
    if o[0] == "exc" or m[0] == "exc":
        check(o == m, f"{tag}: parse_rows outcome {m} != original {o}")
        return
    check(o[1][0] == m[1][0], f"{tag}: parse_rows comments differ")
    check(frames_equal(o[1][1], m[1][1]), f"{tag}: parse_rows table differs from the original")


# ------------------------------------------------------------------------------------------------ independent tokenizer
def independent_parse(text):
    """blocks = [(specifier, [labels], [[row tokens]])] found without any cryocat code."""
    words = []  # (word, line number)
    for ln, raw in enumerate(re.split(r"\n", text)):
        body = raw.split("#", 1)[0]
        for w in body.split():
            words.append((w, ln))
    blocks = []
    i = 0
    while i < len(words):
        spec = words[i][0]
        assert spec.startswith("data_"), spec
        i += 1
        assert words[i][0] == "loop_"
        i += 1
        labels = []
        while i < len(words) and words[i][0].startswith("_"):
            labels.append(words[i][0][1:])
            i += 1
        rows = {}
        order = []
        while i < len(words) and not words[i][0].startswith("data_"):
            ln = words[i][1]
            if ln not in rows:
                rows[ln] = []
                order.append(ln)
            rows[ln].append(words[i][0])
            i += 1
        blocks.append((spec, labels, [rows[k] for k in order]))
    return blocks


def is_number(tok):
    try:
        float(tok)
        return True
    except ValueError:
        return False


def compare_read_with_blocks(frames, specifiers, blocks, tag):
    check(list(specifiers) == [b[0] for b in blocks], f"{tag}: specifiers {specifiers} != {[b[0] for b in blocks]}")
    check(len(frames) == len(blocks), f"{tag}: number of frames")
    for f, (spec, labels, rows) in zip(frames, blocks):
        check(list(f.columns) == labels, f"{tag}/{spec}: labels {list(f.columns)} != {labels}")
        check(len(f) == len(rows), f"{tag}/{spec}: {len(f)} rows != {len(rows)}")
        if len(f) != len(rows) or list(f.columns) != labels:
            continue
        check(list(f.index) == list(range(len(rows))), f"{tag}/{spec}: index")
        for j, lab in enumerate(labels):
            toks = [r[j] for r in rows]
            col = f.iloc[:, j]
            if len(toks) and all(is_number(t) for t in toks):
                check(pd.api.types.is_numeric_dtype(col.dtype), f"{tag}/{spec}/{lab}: numeric column read as {col.dtype}")
                exp = np.array([float(t) for t in toks])
                check(np.allclose(col.to_numpy(dtype=float), exp, rtol=1e-12, atol=1e-12), f"{tag}/{spec}/{lab}: numbers differ")
                if all(re.fullmatch(r"[+-]?\d+", t) for t in toks):
                    check(pd.api.types.is_integer_dtype(col.dtype), f"{tag}/{spec}/{lab}: integer column read as {col.dtype}")
            elif len(toks):
                check(not pd.api.types.is_numeric_dtype(col.dtype), f"{tag}/{spec}/{lab}: text column read as {col.dtype}")
                check([str(v) for v in col.tolist()] == toks, f"{tag}/{spec}/{lab}: text differs")


# ------------------------------------------------------------------------------------------------ generators
ALPHA = "abcdefghijklmnopqrstuvwxyzABCDEFGHIJKLMNOPQRSTUVWXYZ"
REST = ALPHA + "0123456789_-./:@+=[]()"
FORBIDDEN = {"nan", "inf", "infinity", "na", "none", "null", "true", "false", "loop_"}


def text_token(rng):
    while True:
        t = rng.choice(ALPHA) + "".join(rng.choice(REST) for _ in range(rng.randint(0, 12)))
        if t.lower() not in FORBIDDEN and not t.startswith("data_"):
            return t


def random_table(rng, nrows, ncols):
    data = {}
    names = set()
    for c in range(ncols):
        while True:
            name = rng.choice(["rln", "", "x_", "col"]) + rng.choice(ALPHA) + "".join(
                rng.choice(ALPHA + "0123456789_") for _ in range(rng.randint(0, 10))
            )
            if name not in names:
                names.add(name)
                break
        kind = rng.choice(["int", "float", "text", "floatint", "small"])
        if kind == "int":
            col = np.array([rng.randint(-10**6, 10**6) for _ in range(nrows)], dtype=np.int64)
        elif kind == "float":
            col = np.array([rng.uniform(-1e4, 1e4) for _ in range(nrows)], dtype=float)
        elif kind == "floatint":
            col = np.array([float(rng.randint(-50, 50)) for _ in range(nrows)], dtype=float)
        elif kind == "small":
            col = np.array([rng.choice([0.0, 1e-7, -4e-7, 5.5e-6, 1.23456789e-3, 1e-5]) for _ in range(nrows)], dtype=float)
        else:
            col = [text_token(rng) for _ in range(nrows)]
        data[name] = col
    return pd.DataFrame(data)


SPECS = ["data_", "data_particles", "data_optics", "data_stopgap_motivelist", "data_stopgap_wedgelist"]


def random_case(rng):
    nblocks = rng.randint(1, 4)
    frames, specs = [], []
    for b in range(nblocks):
        last = b == nblocks - 1
        nrows = rng.choice([1, 1, 2, 3, 7, 20, 200]) if rng.random() < 0.5 else rng.randint(1, 40)
        if last and rng.random() < 0.2:
            nrows = 0
        frames.append(random_table(rng, nrows, rng.choice([1, 2, 3, 5, 12, 30])))
        specs.append(rng.choice(SPECS))
    return frames, specs


def frames_equal(a, b):
    if list(a.columns) != list(b.columns) or len(a) != len(b):
        return False
    if [str(x) for x in a.dtypes] != [str(x) for x in b.dtypes]:
        return False
    return a.equals(b)


# ------------------------------------------------------------------------------------------------ 1. round trip
def roundtrip_checks(rng, tmp, n):
    for k in range(n):
        frames, specs = random_case(rng)
        number_columns = rng.random() < 0.5
        keep_objs = list(frames)
        keep = [f.copy(deep=True) for f in frames]
        keep_specs = list(specs)
        arg_frames = list(frames)
        p = os.path.join(tmp, f"rt{k}.star")
        Starfile.write(arg_frames, p, specifiers=specs, number_columns=number_columns)
        # caller's tables untouched
        for o, c in zip(keep_objs, keep):
            check(frames_equal(o, c), f"rt{k}: a caller's table was modified by write")
        check(specs == keep_specs, f"rt{k}: specifiers modified")
        with open(p) as fh:
            text = fh.read()
        blocks = independent_parse(text)
        tag = f"rt{k}"
        # text of the written file against the tables
        check([b[0] for b in blocks] == specs, f"{tag}: block names in the file")
        for (spec, labels, rows), f in zip(blocks, keep):
            check(labels == [str(c) for c in f.columns], f"{tag}: labels in the file")
            check(len(rows) == len(f), f"{tag}: rows in the file")
        # header style
        for spec in specs:
            pass
        numbered = re.findall(r"^_\S+ #(\d+)$", text, flags=re.M)
        plain = re.findall(r"^_\S+$", text, flags=re.M)
        exp_numbered = sum(len(f.columns) for f, s in zip(keep, specs) if number_columns and "stopgap" not in s)
        exp_plain = sum(len(f.columns) for f, s in zip(keep, specs) if not (number_columns and "stopgap" not in s))
        check(len(numbered) == exp_numbered and len(plain) == exp_plain, f"{tag}: header style")
        # read back
        r1 = Starfile.read(p)
        r2 = Starfile.read(p)
        compare_read_with_blocks(r1[0], r1[1], blocks, tag)
        check(r1[1] == specs, f"{tag}: specifiers read back")
        for fr, f in zip(r1[0], keep):
            check(list(fr.columns) == list(f.columns), f"{tag}: columns read back")
            check(len(fr) == len(f), f"{tag}: rows read back")
            if len(fr) != len(f) or len(f) == 0:
                continue
            for c in f.columns:
                if pd.api.types.is_numeric_dtype(f[c].dtype):
                    check(pd.api.types.is_numeric_dtype(fr[c].dtype), f"{tag}/{c}: numeric column read as {fr[c].dtype}")
                    check(
                        np.allclose(fr[c].to_numpy(dtype=float), np.round(f[c].to_numpy(dtype=float), 6), rtol=1e-12, atol=1e-12),
                        f"{tag}/{c}: values differ after rounding to 6 decimals",
                    )
                else:
                    check([str(v) for v in fr[c].tolist()] == list(f[c]), f"{tag}/{c}: text changed")
        # repeated call, same result
        check(r1[1] == r2[1] and r1[2] == r2[2] and all(frames_equal(x, y) for x, y in zip(r1[0], r2[0])), f"{tag}: second read differs")
        # data_id variant
        j = rng.randrange(len(specs))
        fj, sj, cj = Starfile.read(p, data_id=j)
        check(sj == specs[j] and frames_equal(fj, r1[0][j]) and cj == r1[2][j], f"{tag}: data_id read differs")
        # tokens of the written text: tree against original
        check(same_read(outcome(original_read, p), outcome(Starfile.read, p)), f"{tag}: read differs from the original read")
        check(same_read(outcome(original_read, p, j), outcome(Starfile.read, p, j)), f"{tag}: read(data_id) differs from the original read")


# ------------------------------------------------------------------------------------------------ 2. hand-built texts
def ws(rng):
    return "".join(rng.choice([" ", " ", "\t", "  "]) for _ in range(rng.randint(1, 4)))


def maybe_junk(rng, lines):
    for _ in range(rng.choice([0, 0, 1, 2, 3])):
        r = rng.random()
        if r < 0.4:
            lines.append("")
        elif r < 0.6:
            lines.append(rng.choice(["  ", "\t", " \t "]))
        elif r < 0.8:
            lines.append("# " + rng.choice(["version 30001", "a comment  with   spaces ", "_notalabel", "data_fake loop_", "#"]))
        else:
            lines.append(ws(rng) + "#" + rng.choice(["indented comment", "", " x # y"]))


def build_text(rng):
    nblocks = rng.randint(1, 4)
    blocks = []
    lines = []
    for b in range(nblocks):
        last = b == nblocks - 1
        spec = rng.choice(SPECS)
        ncols = rng.randint(1, 8)
        nrows = 0 if (last and rng.random() < 0.15) else rng.randint(1, 12)
        kinds = [rng.choice(["int", "float", "text", "mixed"]) for _ in range(ncols)]
        labels = []
        while len(labels) < ncols:
            l = rng.choice(["rln", "", "my_"]) + text_token(rng).replace("#", "")
            if l not in labels:
                labels.append(l)
        rows = []
        for r in range(nrows):
            row = []
            for kd in kinds:
                if kd == "int":
                    row.append(str(rng.randint(-999, 999)))
                elif kd == "float":
                    row.append(rng.choice(["%.6f", "%.3e", "%g", "%r"]) % rng.uniform(-100, 100))
                elif kd == "text":
                    row.append(text_token(rng))
                else:
                    row.append(text_token(rng) if (r == 0 or rng.random() < 0.4) else str(rng.randint(0, 9)))
            rows.append(row)
        blocks.append((spec, labels, rows))
        maybe_junk(rng, lines)
        lines.append(rng.choice(["", "", " ", "\t"]) + spec + rng.choice(["", "", "  ", "\t", " # block comment"]))
        maybe_junk(rng, lines)
        lines.append(rng.choice(["", "", "  "]) + "loop_" + rng.choice(["", "", " ", "\t "]))
        numbered = rng.random() < 0.5
        for i, l in enumerate(labels, 1):
            tail = (rng.choice([" ", "\t", "   "]) + "#" + str(i) + rng.choice(["", " ", "  extra"])) if numbered else rng.choice(["", "", " ", "\t"])
            lines.append(rng.choice(["", "", " "]) + "_" + l + tail)
        maybe_junk(rng, lines)
        for row in rows:
            lines.append(rng.choice(["", "", " ", "\t", "   "]) + ws(rng).join(row) + rng.choice(["", "", " ", "\t", "  \t "]))
        if not last:
            maybe_junk(rng, lines)
            if not lines[-1].strip() == "" and not lines[-1].lstrip().startswith("#"):
                lines.append("")
    if rng.random() < 0.5:
        maybe_junk(rng, lines)
    eol = rng.choice(["\n", "\r\n"])
    text = eol.join(lines)
    if rng.random() < 0.6:
        text += eol
    return text, blocks


def handbuilt_checks(rng, tmp, n):
    for k in range(n):
        text, blocks = build_text(rng)
        tag = f"hb{k}"
        ind = independent_parse(text)
        check(ind == blocks, f"{tag}: the independent tokenizer does not find the constructed blocks (demo bug)")
        p = os.path.join(tmp, f"hb{k}.star")
        with open(p, "w", newline="") as fh:
            fh.write(text)
        try:
            frames, specs, comments = Starfile.read(p)
        except Exception as e:  # noqa
            check(False, f"{tag}: read raised {type(e).__name__}: {e}")
            continue
        compare_read_with_blocks(frames, specs, ind, tag)
        check(len(comments) == len(blocks), f"{tag}: comments list length")
        # tree reader against the original one, twice
        o = outcome(original_read, p)
        check(same_read(o, outcome(Starfile.read, p)), f"{tag}: read differs from the original read")
        check(same_read(o, outcome(Starfile.read, p)), f"{tag}: second read differs from the original read")


# ------------------------------------------------------------------------------------------------ 3. row parser / reader on odd texts
def fuzz_rows(rng, tmp, n):
    """row sections that end in every possible way: short rows, long rows, blank line, comment, end of text, next block;
    0..4 columns; and whole files made of such pieces (also malformed ones: the same exception is expected)."""
    words = ["1", "2.5", "abc", "x_y", "-3", "1e-3", "data_next", "loop_", "_lab", "#c", "# c d", "\n", "\n", "\n\n", " ", "\t"]
    fixed = [
        ("", 0), ("", 2), ("\n", 0), ("\n\n", 1), ("1 2\n3 4\n", 2), ("1 2\n3\n", 2), ("1 2\n3", 2), ("1 2 3\n", 2), ("1 2", 2),
        ("1\n2\n\n3\n", 1), ("# c\n\n1 2\n#d\n3 4\n", 2), ("1 2 #c\n", 2), ("1 2\ndata_x\nloop_\n_a\n1\n", 2),
        ("1\ndata_x\n", 1), ("a b\n", 0), ("\n\n\na", 0), ("1 2\n_a\n", 2), ("1 2\nloop_\n", 2), ("1 2 3 4\n5 6\n", 2),
    ]
    for k in range(n):
        if k < len(fixed):
            text, nc = fixed[k]
        else:
            nc = rng.randint(0, 4)
            if k % 2:
                text = " ".join(rng.choice(words) for _ in range(rng.randint(0, 25)))
            else:
                # mostly well-formed rows of nc literals, now and then a short / long row, a comment or a blank line
                text = ""
                for _ in range(rng.randint(0, 8)):
                    n = nc if rng.random() < 0.8 else rng.randint(0, 5)
                    text += rng.choice(["", "", " ", "\t"]) + "  ".join(rng.choice(words[:6]) for _ in range(n))
                    text += rng.choice(["\n", "\n", "\n", " \n", " #c\n", "\n\n", "\n# c\n"])
                text += rng.choice(["", "", "data_next\nloop_\n_a\n1\n", "7", "7 8 9"])
        compare_parse_rows(text, [f"c{i}" for i in range(nc)], f"rows{k}")
    heads = ["data_\n\nloop_\n_a #1\n_b #2\n", "data_x\nloop_\n_a\n", "data_stopgap_m\n\nloop_\n_a\n_b\n_c\n\n", "data_y\nloop_\n", "data_z\n", "loop_\n_a\n", "# only a comment\n", ""]
    for k in range(n // 4):
        text = ""
        for _ in range(rng.randint(0, 3)):
            text += rng.choice(heads)
            for _ in range(rng.randint(0, 5)):
                text += " ".join(rng.choice(["1", "2.5", "abc", "-7", "q"]) for _ in range(rng.randint(1, 4))) + rng.choice(["\n", "\n", "\n", " #c\n", "\n\n", ""])
            text += rng.choice(["\n", "", "# end\n"])
        p = os.path.join(tmp, f"fz{k}.star")
        with open(p, "w") as fh:
            fh.write(text)
        o = outcome(original_read, p)
        m = outcome(Starfile.read, p)
        check(same_read(o, m), f"file{k}: read differs from the original on {text!r}")
        if o[0] == "ok" and len(o[1][0]):
            j = rng.randrange(len(o[1][0]))
            check(same_read(outcome(original_read, p, j), outcome(Starfile.read, p, j)), f"file{k}: read(data_id={j}) differs")


def main():
    rng = random.Random(20260928)
    with tempfile.TemporaryDirectory() as tmp:
        roundtrip_checks(rng, tmp, 120)
        handbuilt_checks(rng, tmp, 400)
        fuzz_rows(rng, tmp, 2000)
    if FAIL:
        print(f"{len(FAIL)} failures")
        sys.exit(1)
    print("PASS")


if __name__ == "__main__":
    main()
