"""C20 demo -- membrane thickness pairs: one-to-one, forward, within range and cone.
Change c: find_matches_parallel (numba kernel) flattened with guard clauses, hoisted components, dead code removed.

Run: cd /tmp/wt6/C20 && /venv/bin/python /tmp/seedsP/C20/c/demo.py
Checks, over 54 random two-sheet scenes (flat / tilted / curved, 20..600 points, float64 and float32, shuffled labels,
some unlabelled points, voxel sizes, max thickness, max angle 1..30 deg, both directions) and 10 integer-lattice scenes with
exactly tied distances: the property against a brute-force oracle, rigid-motion / voxel-scaling / direction-swap relations,
repeated calls, and output-by-output equality with verbatim copies of the HEAD versions of measure_thickness_cpu,
process_matches_cpu2cpu and find_matches_parallel.  Prints PASS and exits 0 when everything holds.
"""
import os, sys
sys.path.insert(0, os.getcwd())
import logging, time, math
import numpy as np
import numba
from numba import prange
from scipy.spatial import KDTree as ScipyKDTree
from scipy.spatial.transform import Rotation
import cryocat.memthick as mt

assert os.path.abspath(mt.__file__).startswith(os.getcwd()), mt.__file__

LOG = logging.getLogger("c20demo")
LOG.addHandler(logging.NullHandler())
LOG.propagate = False
LOG.setLevel(logging.CRITICAL)

FAIL = []


def check(cond, msg):
    if not cond:
        FAIL.append(msg)
        if len(FAIL) < 20:
            print("FAIL:", msg)


# ----------------------------------------------------------------------------------------------------------------
# scene generation
# ----------------------------------------------------------------------------------------------------------------
def unit(v):
    return v / np.linalg.norm(v, axis=1, keepdims=True)


def make_scene(rng, n, shape, paired, angle_deg, dtype=np.float64, unlabelled=0):
    """Two roughly parallel sheets, jittered, normals with angular noise, labels in arbitrary order."""
    n1 = int(n * rng.uniform(0.35, 0.65))
    n2 = n - n1
    t = rng.uniform(3.0, 5.0)  # separation in voxels
    dens = rng.uniform(0.15, 0.5)
    L = math.sqrt(max(n1, n2) / dens)

    def surf(xy):
        x, y = xy[:, 0], xy[:, 1]
        if shape == "flat":
            z = np.zeros_like(x); fx = np.zeros_like(x); fy = np.zeros_like(x)
        elif shape == "tilted":
            a, b = 0.4, -0.25
            z = a * x + b * y; fx = np.full_like(x, a); fy = np.full_like(x, b)
        else:
            w = L / 2.5
            z = 2.0 * np.sin(x / w) + 1.5 * np.cos(y / w)
            fx = 2.0 / w * np.cos(x / w); fy = -1.5 / w * np.sin(y / w)
        p = np.stack([x, y, z], 1)
        nrm = unit(np.stack([-fx, -fy, np.ones_like(x)], 1))
        return p, nrm

    xy1 = rng.uniform(0, L, (n1, 2))
    p1, nr1 = surf(xy1)
    if paired:
        k = min(n1, n2)
        xy2 = np.concatenate([xy1[:k], rng.uniform(0, L, (n2 - k, 2))])
        lat = t * math.tan(math.radians(angle_deg)) * 0.6
    else:
        xy2 = rng.uniform(0, L, (n2, 2))
        lat = 0.0
    p2, nr2 = surf(xy2)
    p2 = p2 + t * nr2
    p2[:, :2] += rng.normal(0, 1, (n2, 2)) * lat
    p1 = p1 + rng.normal(0, 0.05, p1.shape)
    p2 = p2 + rng.normal(0, 0.05, p2.shape)
    sig = math.radians(angle_deg) * rng.choice([0.0, 0.2, 0.5])
    nr1 = unit(nr1 + rng.normal(0, 1, nr1.shape) * sig)
    back = -1.0 if rng.random() < 0.85 else 1.0
    nr2 = unit(back * nr2 + rng.normal(0, 1, nr2.shape) * sig)
    pts = np.concatenate([p1, p2]); nrm = np.concatenate([nr1, nr2])
    lab = np.concatenate([np.ones(n1, int), np.full(n2, 2)])
    if unlabelled:
        extra = rng.uniform(0, L, (unlabelled, 3))
        pts = np.concatenate([pts, extra]); nrm = np.concatenate([nrm, unit(rng.normal(0, 1, (unlabelled, 3)))])
        lab = np.concatenate([lab, np.zeros(unlabelled, int)])
    perm = rng.permutation(len(pts))
    pts, nrm, lab = pts[perm], nrm[perm], lab[perm]
    pts = np.ascontiguousarray(pts.astype(dtype)); nrm = np.ascontiguousarray(nrm.astype(dtype))
    return pts, nrm, lab == 1, lab == 2, t


def make_lattice(rng, k, m, gap, shuffle=True):
    """Integer lattice sheets (k x m, non-square): many exactly tied distances."""
    gx, gy = np.meshgrid(np.arange(k, dtype=float), np.arange(m, dtype=float), indexing="ij")
    base = np.stack([gx.ravel(), gy.ravel(), np.zeros(k * m)], 1)
    top = base.copy(); top[:, 2] = gap
    pts = np.concatenate([base, top])
    nrm = np.concatenate([np.tile([0.0, 0.0, 1.0], (k * m, 1)), np.tile([0.0, 0.0, -1.0], (k * m, 1))])
    lab = np.concatenate([np.ones(k * m, int), np.full(k * m, 2)])
    if shuffle:
        perm = rng.permutation(len(pts)); pts, nrm, lab = pts[perm], nrm[perm], lab[perm]
    return np.ascontiguousarray(pts), np.ascontiguousarray(nrm), lab == 1, lab == 2


# ----------------------------------------------------------------------------------------------------------------
# independent oracle: brute force over all source x target pairs, greedy by (distance, source, target)
# ----------------------------------------------------------------------------------------------------------------
def admissible(points, normals, src_mask, tgt_mask, max_vox, max_angle_deg, strict):
    S = np.flatnonzero(src_mask); T = np.flatnonzero(tgt_mask)
    P = np.asarray(points); N = np.asarray(normals)
    d = P[T][None, :, :] - P[S][:, None, :]
    dx, dy, dz = d[..., 0], d[..., 1], d[..., 2]
    dist = np.sqrt(dx * dx + dy * dy + dz * dz)
    nx, ny, nz = N[S][:, 0:1], N[S][:, 1:2], N[S][:, 2:3]
    proj = dx * nx + dy * ny + dz * nz
    cosm = np.cos(np.radians(max_angle_deg))
    inr = dist < max_vox if strict else dist <= max_vox
    adm = inr & (proj > 0) & (proj > cosm * dist)
    return S, T, dist, proj, adm


def oracle(points, normals, src_mask, tgt_mask, voxel, max_nm, max_angle_deg, strict=False):
    n = len(points)
    S, T, dist, proj, adm = admissible(points, normals, src_mask, tgt_mask, max_nm / voxel, max_angle_deg, strict)
    ii, jj = np.nonzero(adm)
    cand = sorted((float(dist[i, j]), int(S[i]), int(T[j]), int(i), int(j)) for i, j in zip(ii, jj))
    thick = np.zeros(n, np.float32); valid = np.zeros(n, bool); pairs = np.zeros(n, np.int32)
    used = set()
    for dd, s, t, i, j in cand:
        if valid[s] or t in used:
            continue
        valid[s] = True; used.add(t); pairs[s] = t; thick[s] = dist[i, j]
    ncand = adm.sum(1).max() if adm.size else 0
    return thick * voxel, valid, pairs, ncand


def check_property(tag, points, normals, src_mask, tgt_mask, voxel, max_nm, max_angle_deg, res, strict=False):
    thick, valid, pairs = res
    n = len(points)
    check(thick.shape == (n,) and valid.shape == (n,) and pairs.shape == (n,), f"{tag}: shapes")
    check(valid.dtype == np.bool_ and pairs.dtype == np.int32, f"{tag}: dtypes {valid.dtype} {pairs.dtype}")
    check(thick.dtype == (np.float32 if isinstance(voxel, float) and not isinstance(voxel, np.floating) else thick.dtype),
          f"{tag}: thickness dtype {thick.dtype}")
    check(not np.any(valid & ~src_mask), f"{tag}: a non-source point is matched")
    tg = pairs[valid]
    check(np.all(tgt_mask[tg]), f"{tag}: a partner is not a target point")
    check(len(np.unique(tg)) == len(tg), f"{tag}: a target is used twice")
    check(np.all(thick[~valid] == 0) and np.all(pairs[~valid] == 0), f"{tag}: unmatched entries not zero")
    P = np.asarray(points, float); N = np.asarray(normals, float)
    v = P[tg] - P[valid]
    dd = np.linalg.norm(v, axis=1)
    check(np.allclose(thick[valid], dd * voxel, rtol=2e-6, atol=0), f"{tag}: thickness != distance * voxel")
    check(np.all(thick[valid] <= max_nm * (1 + 2e-6)), f"{tag}: thickness above maximum")
    pr = np.einsum("ij,ij->i", v, N[valid])
    check(np.all(pr > 0), f"{tag}: target behind the source")
    ang = np.degrees(np.arccos(np.clip(pr / np.maximum(dd, 1e-300) / np.linalg.norm(N[valid], axis=1), -1, 1)))
    check(np.all(ang <= max_angle_deg + 1e-5), f"{tag}: target outside the cone (max {ang.max() if len(ang) else 0:.3f})")
    # greedy maximality
    S, T, dist, proj, adm = admissible(points, normals, src_mask, tgt_mask, max_nm / voxel, max_angle_deg, strict)
    used = np.zeros(n, bool); used[tg] = True
    free_s = ~valid[S]; free_t = ~used[T]
    check(not np.any(adm & free_s[:, None] & free_t[None, :]), f"{tag}: admissible pair of unmatched points left over")
    dmatch = np.full(n, np.inf); dmatch[valid] = dd
    closer = adm & free_t[None, :] & (dist < dmatch[S][:, None] * (1 - 1e-9))
    check(not np.any(closer), f"{tag}: matched source has a closer admissible unmatched target")


def same(tag, r1, r2, exact=True):
    t1, v1, p1 = r1; t2, v2, p2 = r2
    check(np.array_equal(v1, v2), f"{tag}: valid_mask differs")
    check(np.array_equal(p1, p2), f"{tag}: point_pairs differ")
    if exact:
        check(t1.dtype == t2.dtype and np.array_equal(t1, t2), f"{tag}: thickness differs")
    else:
        check(np.allclose(t1, t2, rtol=3e-6, atol=0), f"{tag}: thickness differs beyond tolerance")


def kernel_pipeline(kernel, process, points, normals, s1, s2, voxel, max_nm, max_angle_deg, direction="1to2", max_matches=25):
    """numba candidate kernel -> flat list -> one-to-one assignment"""
    src, tgt = (s2, s1) if direction == "2to1" else (s1, s2)
    n = len(points)
    md = np.zeros((n, max_matches), np.float64); mi = np.zeros((n, max_matches), np.int64); mc = np.zeros(n, np.int64)
    kernel(points, normals, src, tgt, np.flatnonzero(tgt), max_nm / voxel, np.cos(np.radians(max_angle_deg)), md, mi, mc)
    flat = [(md[i, j], i, mi[i, j]) for i in range(n) for j in range(mc[i])]
    return process(flat, n, voxel), (md, mi, mc)


def scenes(seed, count):
    rng = np.random.default_rng(seed)
    shapes = ["flat", "tilted", "curved"]
    for k in range(count):
        n = int(rng.choice([20, 21, 37, 64, 150, 333, 600])) if k % 3 else int(rng.integers(20, 601))
        angle = float(rng.choice([1.0, 2.0, 5.0, 10.0, 17.5, 30.0])) if k % 2 else float(rng.uniform(1, 30))
        shape = shapes[k % 3]
        paired = bool(k % 4 != 3)
        dtype = np.float32 if k % 7 == 5 else np.float64
        pts, nrm, s1, s2, t = make_scene(rng, n, shape, paired, angle, dtype, unlabelled=(5 if k % 5 == 4 else 0))
        voxel = float(rng.choice([0.5, 0.783, 1.0, 1.35, 2.6]))
        max_nm = float(t * voxel * rng.uniform(0.9, 1.6))
        direction = "2to1" if k % 2 == 0 else "1to2"
        yield k, rng, pts, nrm, s1, s2, voxel, max_nm, angle, direction


# ----------------------------------------------------------------------------------------------------------------
# verbatim copies of the functions as they are at HEAD (renamed), for output-by-output comparison
# ----------------------------------------------------------------------------------------------------------------
@numba.njit(parallel=True)
def ORIG_KERNEL(
    points,
    normals,
    source_mask,
    target_mask,
    target_indices,
    max_thickness_voxels,
    max_angle_cos,
    match_distances,
    match_indices,
    match_counts,
):
    """
    Parallelized function to find matches between points on different surfaces.

    Parameters
    ----------
    points : ndarray
        Point coordinates
    normals : ndarray
        Normal vectors
    source_mask : ndarray
        Mask for source points
    target_mask : ndarray
        Mask for target points
    target_indices : ndarray
        Indices of target points
    max_thickness_voxels : float
        Maximum thickness in voxel units
    max_angle_cos : float
        Cosine of maximum angle
    match_distances : ndarray
        Output array for match distances
    match_indices : ndarray
        Output array for match indices
    match_counts : ndarray
        Output array for match counts
    """
    n_points = len(points)
    max_matches = match_distances.shape[1]

    # For each source point, find valid matches
    for i in prange(n_points):
        if not source_mask[i]:
            continue

        point = points[i]
        normal = normals[i]
        match_count = 0

        # Check each potential target
        for j in range(len(target_indices)):
            target_idx = target_indices[j]

            # Vector from source to target
            dx = points[target_idx, 0] - point[0]
            dy = points[target_idx, 1] - point[1]
            dz = points[target_idx, 2] - point[2]

            # Euclidean distance
            dist = np.sqrt(dx * dx + dy * dy + dz * dz)

            # Check if within max thickness
            if dist < max_thickness_voxels:
                # Project vector onto normal
                proj = dx * normal[0] + dy * normal[1] + dz * normal[2]

                # Only consider points in the direction of the normal
                if proj > 0:
                    # Calculate lateral distance (perpendicular to normal)
                    lateral_dx = dx - proj * normal[0]
                    lateral_dy = dy - proj * normal[1]
                    lateral_dz = dz - proj * normal[2]
                    lateral_dist_sq = lateral_dx**2 + lateral_dy**2 + lateral_dz**2

                    # Check if within cone angle
                    if proj > max_angle_cos * dist:
                        if match_count < max_matches:
                            match_distances[i, match_count] = dist
                            match_indices[i, match_count] = target_idx
                            match_count += 1

        match_counts[i] = match_count


def ORIG_MEASURE(
    points,
    normals,
    surface1_mask,
    surface2_mask,
    voxel_size,
    max_thickness_nm=8.0,
    max_angle_degrees=5.0,
    direction="1to2",
    num_threads=None,
    logger=None,
    max_matches_per_point=25,
):
    """CPU-based thickness measurement with parallelization."""
    log_msg = lambda msg: logger.info(msg) if logger else print(msg)

    # Set number of threads if specified
    if num_threads is not None:
        numba.set_num_threads(num_threads)
        log_msg(f"Using {num_threads} CPU threads")
    else:
        log_msg(f"Using all available CPU threads (numba default)")

    # Switch source and target surfaces if direction is 2to1
    if direction == "2to1":
        log_msg("Measuring thickness from surface 2 to surface 1...")
        source_mask, target_mask = surface2_mask, surface1_mask
    else:
        log_msg("Measuring thickness from surface 1 to surface 2...")
        source_mask, target_mask = surface1_mask, surface2_mask

    n_points = len(points)
    max_angle_cos = np.cos(np.radians(max_angle_degrees))

    # Convert max thickness from nm to voxels
    max_thickness_voxels = max_thickness_nm / voxel_size

    log_msg(f"Starting CPU thickness measurement with {n_points} points...")
    log_msg(f"Source points: {np.sum(source_mask)}, Target points: {np.sum(target_mask)}")
    log_msg(f"Max thickness: {max_thickness_nm} nm ({max_thickness_voxels:.2f} voxels)")
    log_msg(f"Max angle: {max_angle_degrees} degrees")

    # Get indices of target points
    target_indices = np.where(target_mask)[0]
    log_msg(f"Number of target points: {len(target_indices)}")

    # Get target points
    target_points = points[target_indices]

    # Get source points and indices
    source_indices = np.where(source_mask)[0]
    source_points = points[source_indices]

    log_msg(f"Number of source points: {len(source_points)}")

    # Use SciPy's KDTree for CPU implementation
    log_msg("Using SciPy KDTree implementation with query_ball_point")

    # Build KD-tree
    log_msg("Building KD-tree for target points...")
    target_tree = ScipyKDTree(target_points)

    # Pre-filter matches using ball query
    log_msg("Pre-filtering potential matches using KD-tree query_ball_point...")
    start_time = time.time()

    # Query ball point for each source point
    log_msg(f"Querying KD-tree for {len(source_points)} source points...")
    neighbor_lists = target_tree.query_ball_point(source_points, max_thickness_voxels)

    # Process the results
    flat_matches = []
    for i, neighbors in enumerate(neighbor_lists):
        source_idx = source_indices[i]
        source_normal = normals[source_idx]
        source_point = points[source_idx]

        valid_matches = 0

        for n in neighbors:
            # Get original index
            target_idx = target_indices[n]
            target_point = points[target_idx]

            # Vector from source to target
            dx = target_point[0] - source_point[0]
            dy = target_point[1] - source_point[1]
            dz = target_point[2] - source_point[2]

            # Distance
            dist = np.sqrt(dx * dx + dy * dy + dz * dz)

            # Project vector onto normal
            proj = dx * source_normal[0] + dy * source_normal[1] + dz * source_normal[2]

            # Only consider points in the direction of the normal
            if proj > 0:
                # Calculate lateral distance
                lateral_dx = dx - proj * source_normal[0]
                lateral_dy = dy - proj * source_normal[1]
                lateral_dz = dz - proj * source_normal[2]
                lateral_dist_sq = lateral_dx**2 + lateral_dy**2 + lateral_dz**2

                # Check if within cone angle
                if proj > max_angle_cos * dist:
                    flat_matches.append((dist, source_idx, target_idx))
                    valid_matches += 1

                    # Limit matches per point
                    if valid_matches >= max_matches_per_point:
                        break

    log_msg(f"KD-tree pre-filtering completed in {time.time() - start_time:.2f} seconds")
    log_msg(f"Found {len(flat_matches)} potential matches across all source points")

    # Process matches to ensure one-to-one matching
    log_msg("Processing matches to ensure one-to-one matching...")
    thickness_results, valid_mask, point_pairs = ORIG_PROCESS(flat_matches, n_points, voxel_size)

    log_msg(f"Found {np.sum(valid_mask)} valid thickness measurements")
    if np.sum(valid_mask) > 0:
        log_msg(f"Mean thickness: {np.mean(thickness_results[valid_mask]):.2f} nm")
        log_msg(
            f"Min: {np.min(thickness_results[valid_mask]):.2f} nm, Max: {np.max(thickness_results[valid_mask]):.2f} nm"
        )

    return thickness_results, valid_mask, point_pairs


def ORIG_PROCESS(flat_matches, n_points, voxel_size):
    """
    Process matches on CPU to ensure one-to-one matching and convert to physical units.

    Parameters
    ----------
    flat_matches : list
        List of tuples (distance, source_idx, target_idx)
    n_points : int
        Total number of points
    voxel_size : float
        Voxel size for scaling

    Returns
    -------
    thickness_results : ndarray
        Thickness measurements in physical units
    valid_mask : ndarray
        Boolean mask for valid measurements
    point_pairs : ndarray
        Indices of paired points
    """
    # Create arrays for final results (still in voxel units)
    thickness_results = np.zeros(n_points, dtype=np.float32)
    valid_mask = np.zeros(n_points, dtype=np.bool_)
    point_pairs = np.zeros(n_points, dtype=np.int32)

    # Sort matches by distance
    flat_matches.sort()

    # Track assigned points
    source_assigned = set()
    target_assigned = set()

    # Assign matches
    for dist, source_idx, target_idx in flat_matches:
        if source_idx not in source_assigned and target_idx not in target_assigned:
            # Assign match (still in voxel units)
            thickness_results[source_idx] = dist
            valid_mask[source_idx] = True
            point_pairs[source_idx] = target_idx

            source_assigned.add(source_idx)
            target_assigned.add(target_idx)

    # Convert thickness results to physical units before returning
    thickness_results = thickness_results * voxel_size

    return thickness_results, valid_mask, point_pairs


# ----------------------------------------------------------------------------------------------------------------
# driver
# ----------------------------------------------------------------------------------------------------------------
def measure(fn, pts, nrm, s1, s2, voxel, max_nm, angle, direction, **kw):
    return fn(pts, nrm, s1, s2, voxel, max_thickness_nm=max_nm, max_angle_degrees=angle, direction=direction, logger=LOG, **kw)


def run_scene(tag, rng, pts, nrm, s1, s2, voxel, max_nm, angle, direction, stats, generic=True):
    src, tgt = (s2, s1) if direction == "2to1" else (s1, s2)
    orc = oracle(pts, nrm, src, tgt, voxel, max_nm, angle)
    if orc[3] >= 25:
        stats["skipped"] += 1
        return
    stats["scenes"] += 1
    keep = [a.copy() for a in (pts, nrm, s1, s2)]
    res = measure(mt.measure_thickness_cpu, pts, nrm, s1, s2, voxel, max_nm, angle, direction)
    stats["pairs"] += int(res[1].sum())
    check_property(tag + " cpu", pts, nrm, src, tgt, voxel, max_nm, angle, res)
    same(tag + " cpu vs oracle", res, orc[:3])
    same(tag + " cpu vs original text", res, measure(ORIG_MEASURE, pts, nrm, s1, s2, voxel, max_nm, angle, direction))
    # repeated call on the same objects, inputs untouched
    same(tag + " cpu repeated", res, measure(mt.measure_thickness_cpu, pts, nrm, s1, s2, voxel, max_nm, angle, direction))
    check(all(np.array_equal(a, b) for a, b in zip(keep, (pts, nrm, s1, s2))), f"{tag}: inputs modified")
    # direction swaps the roles of the surfaces
    other = "1to2" if direction == "2to1" else "2to1"
    same(tag + " direction swap", res, measure(mt.measure_thickness_cpu, pts, nrm, s2, s1, voxel, max_nm, angle, other))
    # small per-point limits: compare with the original text only (outside the quantifier, but must not drift)
    for lim in (1, 2, 3):
        same(tag + f" limit {lim}", measure(mt.measure_thickness_cpu, pts, nrm, s1, s2, voxel, max_nm, angle, direction, max_matches_per_point=lim),
             measure(ORIG_MEASURE, pts, nrm, s1, s2, voxel, max_nm, angle, direction, max_matches_per_point=lim))
    # voxel scaling
    r2 = measure(mt.measure_thickness_cpu, pts, nrm, s1, s2, voxel * 2, max_nm * 2, angle, direction)
    same(tag + " voxel x2", (res[0] * np.float32(2), res[1], res[2]), r2)
    if generic:
        r17 = measure(mt.measure_thickness_cpu, pts, nrm, s1, s2, voxel * 1.7, max_nm * 1.7, angle, direction)
        same(tag + " voxel x1.7", (res[0] * np.float32(1.7), res[1], res[2]), r17, exact=False)
        # rigid motion of points and normals
        if pts.dtype == np.float64:
            R = Rotation.random(random_state=int(rng.integers(1 << 30))).as_matrix(); sh = rng.uniform(-50, 50, 3)
            rr = measure(mt.measure_thickness_cpu, np.ascontiguousarray(pts @ R.T + sh), np.ascontiguousarray(nrm @ R.T), s1, s2, voxel, max_nm, angle, direction)
            same(tag + " rigid motion", res, rr, exact=False)
    # numpy scalar voxel size (dtype path)
    for vt in (np.float64, np.float32):
        a = measure(mt.measure_thickness_cpu, pts, nrm, s1, s2, vt(voxel), max_nm, angle, direction)
        b = measure(ORIG_MEASURE, pts, nrm, s1, s2, vt(voxel), max_nm, angle, direction)
        same(tag + f" voxel {vt.__name__}", a, b)
    # numba candidate kernel -> assignment
    orcs = oracle(pts, nrm, src, tgt, voxel, max_nm, angle, strict=True)
    kres, karr = kernel_pipeline(mt.find_matches_parallel, mt.process_matches_cpu2cpu, pts, nrm, s1, s2, voxel, max_nm, angle, direction)
    check_property(tag + " kernel", pts, nrm, src, tgt, voxel, max_nm, angle, kres, strict=True)
    same(tag + " kernel vs oracle", kres, orcs[:3])
    ores, oarr = kernel_pipeline(ORIG_KERNEL, ORIG_PROCESS, pts, nrm, s1, s2, voxel, max_nm, angle, direction)
    same(tag + " kernel vs original text", kres, ores)
    check(all(np.array_equal(a, b) for a, b in zip(karr, oarr)), f"{tag}: kernel candidate arrays differ from original text")
    kl, kla = kernel_pipeline(mt.find_matches_parallel, mt.process_matches_cpu2cpu, pts, nrm, s1, s2, voxel, max_nm, angle, direction, max_matches=2)
    ol, ola = kernel_pipeline(ORIG_KERNEL, ORIG_PROCESS, pts, nrm, s1, s2, voxel, max_nm, angle, direction, max_matches=2)
    same(tag + " kernel limit 2", kl, ol)
    check(all(np.array_equal(a, b) for a, b in zip(kla, ola)), f"{tag}: kernel candidate arrays (limit 2) differ")
    # assignment step alone, on a shuffled candidate list
    md, mi, mc = karr
    flat = [(md[i, j], i, mi[i, j]) for i in range(len(pts)) for j in range(mc[i])]
    order = rng.permutation(len(flat))
    f1 = [flat[i] for i in order]; f2 = list(f1)
    same(tag + " process vs original text", mt.process_matches_cpu2cpu(f1, len(pts), voxel), ORIG_PROCESS(f2, len(pts), voxel))
    check(f1 == f2, f"{tag}: candidate list left in a different state than by the original text")
    same(tag + " process twice", mt.process_matches_cpu2cpu(f1, len(pts), voxel), kres)


def main():
    stats = {"scenes": 0, "skipped": 0, "pairs": 0}
    for k, rng, pts, nrm, s1, s2, voxel, max_nm, angle, direction in scenes(20200, 54):
        run_scene(f"scene{k}", rng, pts, nrm, s1, s2, voxel, max_nm, angle, direction, stats)
    rng = np.random.default_rng(7)
    for k, m, gap, angle, maxv, voxel in [(5, 4, 3.0, 30.0, 4.3, 1.0), (6, 9, 3.0, 26.0, 3.3, 0.783), (7, 3, 4.0, 20.0, 4.3, 2.6),
                                         (10, 11, 2.0, 30.0, 2.5, 1.35), (4, 5, 3.0, 1.0, 3.5, 1.0)]:
        for direction in ("1to2", "2to1"):
            pts, nrm, s1, s2 = make_lattice(rng, k, m, gap)
            run_scene(f"lattice{k}x{m} {direction}", rng, pts, nrm, s1, s2, voxel, maxv * voxel, angle, direction, stats, generic=False)
    # empty assignment input
    e1 = mt.process_matches_cpu2cpu([], 7, 1.5); e2 = ORIG_PROCESS([], 7, 1.5)
    same("empty list", e1, e2)
    print(f"scenes checked: {stats['scenes']}, skipped (>=25 candidates): {stats['skipped']}, pairs formed: {stats['pairs']}")
    check(stats["scenes"] >= 50 and stats["pairs"] > 1000, "too few scenes / pairs exercised")
    if FAIL:
        print(f"{len(FAIL)} check(s) failed")
        sys.exit(1)
    print("PASS")


if __name__ == "__main__":
    main()
