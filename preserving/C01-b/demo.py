"""C01 demo (change b): EM particle lists round-trip losslessly for any table column order.

Checks, for many random and edge-case tables (all 20 motl fields, every kind of column permutation, N >= 1, finite
float64 values inside the float32 range plus NaN holes, default and non-default indices):
  * the bytes on disk are a valid float32 EM volume 1 x N x 20 in canonical field order (independent struct parser),
  * Motl.load / EmMotl(path) return the same particles, same order, float32-rounded values, NaN -> 0,
  * both Motl.write_out(..., 'emmotl') and EmMotl.write_out paths, repeated calls, no mutation of the inputs,
  * Motl.load / Motl.write_out behave exactly like verbatim copies of the ORIGINAL functions kept in this file: same
    class returned, same tables, byte-identical files for all four formats, same UserInputError messages for
    unsupported / differently spelled motl types (load is case sensitive, write_out is not).
Run: cd /tmp/wt6/C01 && /venv/bin/python /tmp/seedsP/C01/b/demo.py
"""
import sys, os

sys.path.insert(0, os.getcwd())

import struct
import tempfile
import warnings
from pathlib import Path

import numpy as np
import pandas as pd

import copy
from cryocat.cryomotl import Motl, EmMotl, RelionMotl, StopgapMotl, DynamoMotl
from cryocat.exceptions import UserInputError

warnings.filterwarnings("ignore")

CANON = [
    "score", "geom1", "geom2", "subtomo_id", "tomo_id", "object_id", "subtomo_mean", "x", "y", "z",
    "shift_x", "shift_y", "shift_z", "geom3", "geom4", "geom5", "phi", "psi", "theta", "class",
]
assert len(CANON) == 20 and len(set(CANON)) == 20


# ----------------------------------------------------------------------------------------------------------------
# verbatim copies of the ORIGINAL Motl.load and Motl.write_out bodies (unmodified tree)
def orig_load(cls, input_motl, motl_type="emmotl"):
    if isinstance(input_motl, Motl):
        return copy.deepcopy(input_motl)

    if motl_type == "emmotl":
        return EmMotl(input_motl)
    elif motl_type == "relion":
        return RelionMotl(input_motl)
    elif motl_type == "stopgap":
        return StopgapMotl(input_motl)
    elif motl_type == "dynamo":
        return DynamoMotl(input_motl)
    else:
        raise UserInputError(f"Provided motl file {input_motl} has format that is currently not supported.")


def orig_motl_write_out(self, output_path, motl_type="emmotl"):
    if motl_type.lower() == "emmotl":
        EmMotl(self.df).write_out(output_path)
    elif motl_type.lower() == "relion":
        RelionMotl(self.df).write_out(output_path)
    elif motl_type.lower() == "stopgap":
        StopgapMotl(self.df).write_out(output_path)
    elif motl_type.lower() == "dynamo":
        DynamoMotl(self.df).write_out(output_path)
    else:
        raise UserInputError(f"Provided motl file {output_path} has format that is currently not supported.")


def outcome(fn, *args):
    """Result of a call or (exception type, message)."""
    try:
        return ("ok", fn(*args))
    except Exception as exc:  # noqa
        return ("err", type(exc).__name__, str(exc))


def check_dispatch(rng, df, exp32, tmp, tag):
    """Current Motl.load / Motl.write_out versus the original function texts."""
    pa = os.path.join(tmp, "disp_a.out")
    pb = os.path.join(tmp, "disp_b.out")
    m = Motl(df)

    # write_out: every spelling of the four formats + unsupported names
    spellings = ["emmotl", "EMMOTL", "EmMotl", "stopgap", "StopGap", "dynamo", "DYNAMO", "relion", "Relion",
                 "", "em", "emmotl ", " emmotl", "mod", "star", "emmotl\n"]
    for sp in spellings:
        for p in (pa, pb):
            if os.path.exists(p):
                os.remove(p)
        r_new = outcome(m.write_out, pa, sp)
        r_old = outcome(orig_motl_write_out, m, pb, sp)
        r_old = tuple(str(x).replace(pb, pa) if isinstance(x, str) else x for x in r_old)
        assert r_new == r_old, f"{tag}: write_out({sp!r}) outcome {r_new} vs original {r_old}"
        assert os.path.exists(pa) == os.path.exists(pb), f"{tag}: write_out({sp!r}) file existence differs"
        if os.path.exists(pa):
            assert Path(pa).read_bytes() == Path(pb).read_bytes(), f"{tag}: write_out({sp!r}) bytes differ"
            if sp.lower() == "emmotl":
                check_file(pa, exp32, tag + f" write_out({sp!r})")
    for bad in (None, 5, ["emmotl"]):
        r_new = outcome(m.write_out, pa, bad)
        r_old = outcome(orig_motl_write_out, m, pa, bad)
        assert r_new == r_old and r_new[0] == "err", f"{tag}: write_out({bad!r}) {r_new} vs {r_old}"
    r_new = outcome(m.write_out, pa)  # default type
    assert r_new == ("ok", None)
    check_file(pa, exp32, tag + " write_out(default)")

    # load: from the file, from the table, from a Motl; exact and inexact spellings, non-string types
    m.write_out(pa, "emmotl")
    sources = [pa, Path(pa), df, m, EmMotl(df)]
    types = ["emmotl", "EMMOTL", "EmMotl", "emmotl ", "", "em", None, 0, ("emmotl",), ["emmotl"], {"emmotl": 1}]
    for src in sources:
        for cls in (Motl, EmMotl, StopgapMotl):
            r_new = outcome(cls.load, src)
            r_old = outcome(orig_load, cls, src)
            assert r_new[0] == r_old[0] == "ok", f"{tag}: load default {r_new} {r_old}"
            assert type(r_new[1]) is type(r_old[1])
            pd.testing.assert_frame_equal(r_new[1].df, r_old[1].df)
            if not isinstance(src, Motl) or isinstance(src, EmMotl):
                assert isinstance(r_new[1], EmMotl)
            if isinstance(src, (str, Path)):
                check_loaded(r_new[1].df, exp32, tag + " dispatch load")
            else:  # tables are taken over in float64, columns as given
                src_df = src if isinstance(src, pd.DataFrame) else src.df
                assert list(r_new[1].df.columns) == list(src_df.columns)
                got = r_new[1].df[CANON].to_numpy()
                want = src_df[CANON].to_numpy()
                if not (isinstance(src, Motl) and not isinstance(src, EmMotl)):
                    want = np.where(np.isnan(want), 0.0, want)
                assert same_bits(got, want), tag + " dispatch load from table"
        for t in types:
            r_new = outcome(Motl.load, src, t)
            r_old = outcome(orig_load, Motl, src, t)
            assert r_new[0] == r_old[0], f"{tag}: load(type={t!r}) {r_new} vs {r_old}"
            if r_new[0] == "err":
                assert r_new == r_old, f"{tag}: load(type={t!r}) {r_new} vs {r_old}"
                assert r_new[1] == "UserInputError"
            else:
                assert type(r_new[1]) is type(r_old[1])
                pd.testing.assert_frame_equal(r_new[1].df, r_old[1].df)
    # other formats through load: same class and table as the original dispatch
    for t, ext in (("stopgap", ".star"), ("dynamo", ".tbl"), ("relion", ".star")):
        pf = os.path.join(tmp, "disp_fmt" + ext)
        w = outcome(orig_motl_write_out, m, pf, t)
        if w[0] != "ok":
            continue
        r_new = outcome(Motl.load, pf, t)
        r_old = outcome(orig_load, Motl, pf, t)
        assert r_new[0] == r_old[0], f"{tag}: load({t}) {r_new} vs {r_old}"
        if r_new[0] == "ok":
            assert type(r_new[1]) is type(r_old[1])
            pd.testing.assert_frame_equal(r_new[1].df, r_old[1].df)
        else:
            assert r_new == r_old
        os.remove(pf)
    for p in (pa, pb):
        if os.path.exists(p):
            os.remove(p)


# ----------------------------------------------------------------------------------------------------------------
def parse_em(path):
    """Independent EM parser: 512 byte header (4 x int8, 3 x int32 dims x,y,z, ...) followed by the raw data."""
    raw = Path(path).read_bytes()
    assert len(raw) >= 512, "file shorter than an EM header"
    machine, version, unused, dtype_code = struct.unpack("<4b", raw[:4])
    xdim, ydim, zdim = struct.unpack("<3i", raw[4:16])
    assert machine == 6, f"machine code {machine}"
    assert dtype_code == 5, f"EM data type code {dtype_code} is not float32"
    assert len(raw) == 512 + 4 * xdim * ydim * zdim, "file size does not match header dims"
    data = np.frombuffer(raw[512:], dtype="<f4").reshape(zdim, ydim, xdim)
    return (zdim, ydim, xdim), data


def expected_f32(table_canon):
    """table_canon: float64 array N x 20 in canonical field order (NaN = missing)."""
    return np.where(np.isnan(table_canon), 0.0, table_canon).astype("<f4")


def same_bits(a, b):
    a = np.ascontiguousarray(a)
    b = np.ascontiguousarray(b)
    return a.shape == b.shape and a.dtype == b.dtype and a.tobytes() == b.tobytes()


def check_file(path, exp32, what):
    shape, data = parse_em(path)
    n = exp32.shape[0]
    assert shape == (1, n, 20), f"{what}: EM shape {shape}, expected (1, {n}, 20)"
    assert same_bits(data[0], exp32), f"{what}: bytes on disk differ from float32 rounding in canonical order"


def check_loaded(df, exp32, what):
    n = exp32.shape[0]
    assert list(df.columns) == CANON, f"{what}: loaded columns {list(df.columns)}"
    assert df.shape == (n, 20), f"{what}: loaded shape {df.shape}"
    assert list(df.index) == list(range(n)), f"{what}: loaded index"
    assert all(str(t) == "float64" for t in df.dtypes), f"{what}: loaded dtypes {set(map(str, df.dtypes))}"
    got = df.to_numpy()
    assert same_bits(np.asarray(got, dtype="<f8"), exp32.astype("<f8")), f"{what}: loaded values differ"
    for j, name in enumerate(CANON):  # per named field
        assert same_bits(df[name].to_numpy().astype("<f8"), exp32[:, j].astype("<f8")), f"{what}: field {name}"


# ----------------------------------------------------------------------------------------------------------------
def random_table(rng, n):
    kind = rng.integers(0, 7)
    if kind == 0:
        t = rng.normal(0, 100, size=(n, 20))
    elif kind == 1:
        t = rng.integers(-500, 500, size=(n, 20)).astype(float)
    elif kind == 2:  # huge / tiny magnitudes inside float32 range (incl. float32 subnormals)
        t = rng.choice([-1.0, 1.0], size=(n, 20)) * 10.0 ** rng.uniform(-44, 38.4, size=(n, 20))
    elif kind == 3:  # exact float32 rounding ties and near-ties
        base = rng.integers(1, 2**23, size=(n, 20)).astype(float) + 2.0**23
        t = (base + 0.5) * 2.0 ** rng.integers(-30, 30, size=(n, 20))
        t[rng.random((n, 20)) < 0.3] *= 1 + 2.0**-40
        t *= rng.choice([-1.0, 1.0], size=(n, 20))
    elif kind == 4:  # repeated values / ties between rows, signed zeros
        t = rng.choice([0.0, -0.0, 1.0, -1.0, 0.1, 359.99999999, 3.4028234e38, -3.4028234e38, 1e-45], size=(n, 20))
    elif kind == 5:  # realistic motl
        t = rng.uniform(-180, 180, size=(n, 20))
        t[:, 3] = np.arange(1, n + 1)
        t[:, 4] = rng.integers(1, 5, size=n)
        t[:, 7:10] = rng.integers(1, 4000, size=(n, 3))
        t[:, 10:13] = rng.uniform(-1, 1, size=(n, 3))
    else:
        t = rng.uniform(-1, 1, size=(n, 20)) * 16777217.0
    holes = rng.choice([0.0, 0.05, 0.3, 0.9])
    t = np.array(t, dtype=float)
    t[rng.random((n, 20)) < holes] = np.nan
    if n > 1 and rng.random() < 0.2:
        t[:, rng.integers(0, 20)] = np.nan  # a completely missing field
    if rng.random() < 0.1:
        t[rng.integers(0, n), :] = np.nan  # a completely missing particle
    return t


def permutation(rng, case):
    choice = case % 6
    if choice == 0:
        return list(range(20))
    if choice == 1:
        return list(range(19, -1, -1))
    if choice == 2:
        return sorted(range(20), key=lambda i: CANON[i])  # alphabetical
    if choice == 3:
        k = int(rng.integers(1, 20))
        return list(range(k, 20)) + list(range(k))  # rotation
    return [int(i) for i in rng.permutation(20)]


def make_index(rng, n, case):
    choice = case % 7
    if choice == 0:
        return None
    if choice == 1:
        return pd.Index(rng.permutation(n) + 10)
    if choice == 2:
        return pd.Index([f"p{i}" for i in rng.permutation(n)])
    if choice == 3:
        return pd.Index(rng.integers(0, 3, size=n))  # duplicated labels
    if choice == 4:
        return pd.Index(np.arange(n)[::-1])  # reversed range: labels != positions
    if choice == 5:
        return pd.Index(rng.normal(size=n))
    return pd.MultiIndex.from_arrays([rng.integers(0, 2, size=n), np.arange(n)])


def build_df(rng, table, perm, index, case):
    cols = [CANON[i] for i in perm]
    if case % 2 == 0:  # from a dict in permuted insertion order
        df = pd.DataFrame({CANON[i]: table[:, i].copy() for i in perm})
        if index is not None:
            df.index = index
    else:  # from an array with permuted column labels
        df = pd.DataFrame(table[:, perm].copy(), columns=cols, index=index)
    assert list(df.columns) == cols
    return df


def main():
    rng = np.random.default_rng(20240601)
    tmp = tempfile.mkdtemp(prefix="c01_demo_")
    sizes = [1, 1, 2, 3, 5, 7, 20, 21, 64, 257]
    n_cases = 0
    for case in range(420):
        n = sizes[case % len(sizes)] if case % 3 else int(rng.integers(1, 40))
        table = random_table(rng, n)
        perm = permutation(rng, case)
        index = make_index(rng, n, case // 2)
        df = build_df(rng, table, perm, index, case)
        df_before = df.copy(deep=True)
        exp32 = expected_f32(table)
        tag = f"case {case} (n={n})"

        p1 = os.path.join(tmp, f"m_{case}.em")
        p2 = os.path.join(tmp, f"e_{case}.em")
        p3 = os.path.join(tmp, f"o_{case}.em")

        # --- path 1: generic Motl built from the table, Motl.write_out(..., 'emmotl')
        m = Motl(df)
        variant = case % 3
        if variant == 0:
            m.write_out(p1, "emmotl")
        elif variant == 1:
            m.write_out(p1)
        else:
            m.write_out(Path(p1), "EmMotl")
        check_file(p1, exp32, tag + " Motl.write_out")
        first = Path(p1).read_bytes()
        m.write_out(p1, "emmotl")  # repeated call on the same object, overwriting
        assert Path(p1).read_bytes() == first, tag + ": repeated Motl.write_out changed the file"
        pd.testing.assert_frame_equal(df, df_before)  # input untouched (values, order, index)
        assert list(m.df.columns) == list(df_before.columns)

        # --- path 2: EmMotl built from the table, EmMotl.write_out
        e = EmMotl(df)
        e_df_before = e.df.copy(deep=True)
        e.write_out(p2)
        check_file(p2, exp32, tag + " EmMotl.write_out")
        e.write_out(p2)
        check_file(p2, exp32, tag + " EmMotl.write_out (2nd)")
        pd.testing.assert_frame_equal(e.df, e_df_before)
        pd.testing.assert_frame_equal(df, df_before)
        assert Path(p2).read_bytes() == first, tag + ": the two write paths disagree"

        # --- path 2b: EmMotl whose df attribute was replaced by the raw table (non-default index, NaN still inside)
        e2 = EmMotl()
        e2.df = df.copy()
        e2.write_out(p2)
        check_file(p2, exp32, tag + " EmMotl.write_out (df assigned)")
        pd.testing.assert_frame_equal(e2.df, df_before)

        # --- current dispatch versus the original function texts, same objects
        m.write_out(p2, "emmotl")
        orig_motl_write_out(m, p3, "emmotl")
        assert Path(p2).read_bytes() == Path(p3).read_bytes(), tag + ": differs from original Motl.write_out"
        orig_motl_write_out(e, p3)
        assert Path(p3).read_bytes() == first
        pd.testing.assert_frame_equal(Motl.load(p1).df, orig_load(Motl, p1).df)
        if case % 14 == 0:
            check_dispatch(rng, df, exp32, tmp, tag)
            pd.testing.assert_frame_equal(df, df_before)

        # --- loading back
        for how in range(4):
            if how == 0:
                back = Motl.load(p1).df
            elif how == 1:
                back = Motl.load(Path(p2), "emmotl").df
            elif how == 2:
                back = EmMotl(p2).df
            else:
                back, _ = EmMotl.read_in(p1)
            check_loaded(back, exp32, tag + f" load#{how}")

        # --- second generation: load -> write -> identical bytes; also after permuting the loaded table
        loaded = Motl.load(p1)
        assert isinstance(loaded, EmMotl)
        loaded.write_out(p3)
        assert Path(p3).read_bytes() == first, tag + ": second generation differs"
        reperm = [CANON[i] for i in rng.permutation(20)]
        Motl(loaded.df[reperm]).write_out(p3, "emmotl")
        assert Path(p3).read_bytes() == first, tag + ": second generation (permuted) differs"
        EmMotl(loaded.df[reperm]).write_out(p3)
        assert Path(p3).read_bytes() == first, tag + ": second generation (EmMotl, permuted) differs"

        for p in (p1, p2, p3):
            os.remove(p)
        n_cases += 1

    os.rmdir(tmp)
    print(f"checked {n_cases} tables")
    print("PASS")


if __name__ == "__main__":
    try:
        main()
    except AssertionError as exc:
        print("FAIL:", exc)
        sys.exit(1)
