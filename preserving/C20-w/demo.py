#!/venv/bin/python
"""C20 -- membrane thickness pairs: one-to-one, forward, within range and cone.

Run as  cd /tmp/wt13/C20 && /venv/bin/python <this file>

Three things are checked on many random and edge-case point sets:
 1. the property itself, against an independent brute-force computation (all-pairs numpy, own greedy assignment):
    one-to-one, forward, within range and cone, greedy by distance / nothing admissible left over, rigid motion,
    voxel scaling, direction '2to1' == swapped masks, numba candidate kernel == brute-force candidate sets;
 2. the functions of the tree in the working directory give bit-identical results to the ORIGINAL function text
    (kept below, executed in the namespace of cryocat.memthick), also for inputs that exercise the per-point
    candidate limit, empty surfaces, sources without hits after sources with hits, repeated calls;
 3. the caller's arrays are left untouched.
Prints PASS and exits 0 when everything holds.
"""
import os
import sys

sys.path.insert(0, os.getcwd())

import logging
import numpy as np

import cryocat.memthick as mt

# --------------------------------------------------------------------------------------------------------------
# original text of the two functions (b1093bd), executed in the module namespace under other names
# --------------------------------------------------------------------------------------------------------------
ORIGINAL = r'''
def ORIG_measure_thickness_cpu(
    points,
    normals,
    surface1_mask,
    surface2_mask,
    voxel_size,
    max_thickness_nm=8.0,
    max_angle_degrees=5.0,
    direction="1to2",
    num_threads=None,
    logger=None,
    max_matches_per_point=25,
):
    """CPU-based thickness measurement with parallelization."""
    log_msg = lambda msg: logger.info(msg) if logger else print(msg)

    # Set number of threads if specified
    if num_threads is not None:
        numba.set_num_threads(num_threads)
        log_msg(f"Using {num_threads} CPU threads")
    else:
        log_msg(f"Using all available CPU threads (numba default)")

    # Switch source and target surfaces if direction is 2to1
    if direction == "2to1":
        log_msg("Measuring thickness from surface 2 to surface 1...")
        source_mask, target_mask = surface2_mask, surface1_mask
    else:
        log_msg("Measuring thickness from surface 1 to surface 2...")
        source_mask, target_mask = surface1_mask, surface2_mask

    n_points = len(points)
    max_angle_cos = np.cos(np.radians(max_angle_degrees))

    # Convert max thickness from nm to voxels
    max_thickness_voxels = max_thickness_nm / voxel_size

    log_msg(f"Starting CPU thickness measurement with {n_points} points...")
    log_msg(f"Source points: {np.sum(source_mask)}, Target points: {np.sum(target_mask)}")
    log_msg(f"Max thickness: {max_thickness_nm} nm ({max_thickness_voxels:.2f} voxels)")
    log_msg(f"Max angle: {max_angle_degrees} degrees")

    # Get indices of target points
    target_indices = np.where(target_mask)[0]
    log_msg(f"Number of target points: {len(target_indices)}")

    # Get target points
    target_points = points[target_indices]

    # Get source points and indices
    source_indices = np.where(source_mask)[0]
    source_points = points[source_indices]

    log_msg(f"Number of source points: {len(source_points)}")

    # Use SciPy's KDTree for CPU implementation
    log_msg("Using SciPy KDTree implementation with query_ball_point")

    # Build KD-tree
    log_msg("Building KD-tree for target points...")
    target_tree = ScipyKDTree(target_points)

    # Pre-filter matches using ball query
    log_msg("Pre-filtering potential matches using KD-tree query_ball_point...")
    start_time = time.time()

    # Query ball point for each source point
    log_msg(f"Querying KD-tree for {len(source_points)} source points...")
    neighbor_lists = target_tree.query_ball_point(source_points, max_thickness_voxels)

    # Process the results
    flat_matches = []
    for i, neighbors in enumerate(neighbor_lists):
        source_idx = source_indices[i]
        source_normal = normals[source_idx]
        source_point = points[source_idx]

        valid_matches = 0

        for n in neighbors:
            # Get original index
            target_idx = target_indices[n]
            target_point = points[target_idx]

            # Vector from source to target
            dx = target_point[0] - source_point[0]
            dy = target_point[1] - source_point[1]
            dz = target_point[2] - source_point[2]

            # Distance
            dist = np.sqrt(dx * dx + dy * dy + dz * dz)

            # Project vector onto normal
            proj = dx * source_normal[0] + dy * source_normal[1] + dz * source_normal[2]

            # Only consider points in the direction of the normal
            if proj > 0:
                # Calculate lateral distance
                lateral_dx = dx - proj * source_normal[0]
                lateral_dy = dy - proj * source_normal[1]
                lateral_dz = dz - proj * source_normal[2]
                lateral_dist_sq = lateral_dx**2 + lateral_dy**2 + lateral_dz**2

                # Check if within cone angle
                if proj > max_angle_cos * dist:
                    flat_matches.append((dist, source_idx, target_idx))
                    valid_matches += 1

                    # Limit matches per point
                    if valid_matches >= max_matches_per_point:
                        break

    log_msg(f"KD-tree pre-filtering completed in {time.time() - start_time:.2f} seconds")
    log_msg(f"Found {len(flat_matches)} potential matches across all source points")

    # Process matches to ensure one-to-one matching
    log_msg("Processing matches to ensure one-to-one matching...")
    thickness_results, valid_mask, point_pairs = ORIG_process_matches_cpu2cpu(flat_matches, n_points, voxel_size)

    log_msg(f"Found {np.sum(valid_mask)} valid thickness measurements")
    if np.sum(valid_mask) > 0:
        log_msg(f"Mean thickness: {np.mean(thickness_results[valid_mask]):.2f} nm")
        log_msg(
            f"Min: {np.min(thickness_results[valid_mask]):.2f} nm, Max: {np.max(thickness_results[valid_mask]):.2f} nm"
        )

    return thickness_results, valid_mask, point_pairs


def ORIG_process_matches_cpu2cpu(flat_matches, n_points, voxel_size):
    # Create arrays for final results (still in voxel units)
    thickness_results = np.zeros(n_points, dtype=np.float32)
    valid_mask = np.zeros(n_points, dtype=np.bool_)
    point_pairs = np.zeros(n_points, dtype=np.int32)

    # Sort matches by distance
    flat_matches.sort()

    # Track assigned points
    source_assigned = set()
    target_assigned = set()

    # Assign matches
    for dist, source_idx, target_idx in flat_matches:
        if source_idx not in source_assigned and target_idx not in target_assigned:
            # Assign match (still in voxel units)
            thickness_results[source_idx] = dist
            valid_mask[source_idx] = True
            point_pairs[source_idx] = target_idx

            source_assigned.add(source_idx)
            target_assigned.add(target_idx)

    # Convert thickness results to physical units before returning
    thickness_results = thickness_results * voxel_size

    return thickness_results, valid_mask, point_pairs
'''
exec(compile(ORIGINAL, "<original memthick text>", "exec"), mt.__dict__)
ORIG_measure = mt.__dict__["ORIG_measure_thickness_cpu"]
ORIG_process = mt.__dict__["ORIG_process_matches_cpu2cpu"]


class _Sink(logging.Handler):
    def __init__(self):
        super().__init__()
        self.lines = []

    def emit(self, record):
        self.lines.append(record.getMessage())


def make_logger(name):
    lg = logging.getLogger(name)
    lg.setLevel(logging.INFO)
    lg.propagate = False
    lg.handlers[:] = []
    sink = _Sink()
    lg.addHandler(sink)
    return lg, sink


LOG_NEW, SINK_NEW = make_logger("c20.new")
LOG_OLD, SINK_OLD = make_logger("c20.old")

FAILS = []


def fail(msg):
    FAILS.append(msg)
    if len(FAILS) <= 20:
        print("FAIL:", msg)


# --------------------------------------------------------------------------------------------------------------
# input generator: two roughly parallel sheets (flat / curved / tilted), jitter, noisy unit normals
# --------------------------------------------------------------------------------------------------------------
def unit(v):
    return v / np.linalg.norm(v, axis=-1, keepdims=True)


def random_rotation(rng):
    q = rng.normal(size=4)
    q /= np.linalg.norm(q)
    w, x, y, z = q
    return np.array(
        [
            [1 - 2 * (y * y + z * z), 2 * (x * y - z * w), 2 * (x * z + y * w)],
            [2 * (x * y + z * w), 1 - 2 * (x * x + z * z), 2 * (y * z - x * w)],
            [2 * (x * z - y * w), 2 * (y * z + x * w), 1 - 2 * (x * x + y * y)],
        ]
    )


def make_case(rng, n_points, shape, labelling, gap, spacing, jitter, normal_noise_deg, frac_first=0.5):
    n1 = int(round(n_points * frac_first))
    n2 = n_points - n1
    pts, nrm, which = [], [], []
    for sheet, n in ((0, n1), (1, n2)):
        side = max(1, int(np.ceil(np.sqrt(max(n, 1)))))
        gx, gy = np.meshgrid(np.arange(side), np.arange(side), indexing="ij")
        xy = np.stack([gx.ravel(), gy.ravel()], axis=1)[:n].astype(float) * spacing
        xy += rng.uniform(-0.35, 0.35, size=xy.shape) * spacing
        x, y = xy[:, 0], xy[:, 1]
        ext = side * spacing
        if shape == "flat":
            z0 = np.zeros(n)
            gradx = np.zeros(n)
            grady = np.zeros(n)
        elif shape == "curved":
            amp = 0.15 * ext
            k = 2 * np.pi / (2.5 * ext)
            z0 = amp * np.sin(k * x) * np.cos(k * y)
            gradx = amp * k * np.cos(k * x) * np.cos(k * y)
            grady = -amp * k * np.sin(k * x) * np.sin(k * y)
        else:  # tilted
            sx, sy = 0.4, -0.25
            z0 = sx * x + sy * y
            gradx = np.full(n, sx)
            grady = np.full(n, sy)
        base_n = unit(np.stack([-gradx, -grady, np.ones(n)], axis=1)) if n else np.zeros((0, 3))
        p = np.stack([x, y, z0], axis=1) if n else np.zeros((0, 3))
        # the second sheet is displaced along the local normal by `gap`
        if sheet == 1:
            p = p + gap * base_n
        p = p + rng.normal(scale=jitter, size=p.shape)
        # normals of sheet 0 point to sheet 1, normals of sheet 1 point back, plus angular noise
        nn = base_n if sheet == 0 else -base_n
        if n:
            nn = unit(nn + np.tan(np.radians(normal_noise_deg)) * rng.normal(size=nn.shape) / np.sqrt(2))
        pts.append(p)
        nrm.append(nn)
        which.append(np.full(n, sheet))
    points = np.concatenate(pts)
    normals = np.concatenate(nrm)
    which = np.concatenate(which)
    # shuffle so that surface membership is not contiguous in the index
    perm = rng.permutation(n_points)
    points, normals, which = points[perm], normals[perm], which[perm]
    if labelling == "sheets":
        m1, m2 = which == 0, which == 1
    elif labelling == "swapped":
        m1, m2 = which == 1, which == 0
    elif labelling == "partial":  # some points belong to neither surface
        drop = rng.random(n_points) < 0.2
        m1, m2 = (which == 0) & ~drop, (which == 1) & ~drop
    else:  # arbitrary: labels unrelated to the sheets (still disjoint)
        lab = rng.integers(0, 3, size=n_points)
        m1, m2 = lab == 0, lab == 1
    # a global rigid motion so nothing is axis aligned
    R = random_rotation(rng)
    t = rng.uniform(-50, 50, size=3)
    points = points @ R.T + t
    normals = unit(normals @ R.T)
    return np.ascontiguousarray(points), np.ascontiguousarray(normals), m1.copy(), m2.copy()


# --------------------------------------------------------------------------------------------------------------
# independent computation: all pairs, margins, own greedy
# --------------------------------------------------------------------------------------------------------------
EPS = 1e-9


def brute(points, normals, src_mask, tgt_mask, max_vox, max_angle_deg):
    """all-pairs admissibility with a safety margin.
    returns src, tgt index arrays, dist (ns, nt), adm (clearly admissible), border (undecidable within EPS)"""
    src = np.flatnonzero(src_mask)
    tgt = np.flatnonzero(tgt_mask)
    d = points[tgt][None, :, :] - points[src][:, None, :]
    dist = np.sqrt((d**2).sum(axis=2))
    proj = np.einsum("stk,sk->st", d, normals[src])
    c = np.cos(np.radians(max_angle_deg))
    q_range = max_vox - dist  # >= 0 admissible (closed ball of the KD-tree)
    q_fwd = proj  # > 0
    q_cone = proj - c * dist  # > 0
    scale = 1.0 + np.abs(points).max() if len(points) else 1.0
    tol = EPS * scale
    adm = (q_range > tol) & (q_fwd > tol) & (q_cone > tol)
    out = (q_range < -tol) | (q_fwd < -tol) | (q_cone < -tol)
    border = ~adm & ~out
    return src, tgt, dist, adm, border


def greedy(src, tgt, dist, adm):
    ii, jj = np.nonzero(adm)
    dd = dist[ii, jj]
    order = np.lexsort((tgt[jj], src[ii], dd))
    pair = {}
    used = set()
    for k in order:
        s, t = int(src[ii[k]]), int(tgt[jj[k]])
        if s in pair or t in used:
            continue
        pair[s] = (t, float(dd[k]))
        used.add(t)
    return pair


def min_gap(dist, adm):
    dd = np.sort(dist[adm])
    return np.inf if len(dd) < 2 else float(np.min(np.diff(dd)))


def run_new(points, normals, m1, m2, voxel, max_nm, max_angle, direction, **kw):
    return mt.measure_thickness_cpu(
        points, normals, m1, m2, voxel, max_thickness_nm=max_nm, max_angle_degrees=max_angle,
        direction=direction, logger=LOG_NEW, **kw
    )


def run_old(points, normals, m1, m2, voxel, max_nm, max_angle, direction, **kw):
    return ORIG_measure(
        points, normals, m1, m2, voxel, max_thickness_nm=max_nm, max_angle_degrees=max_angle,
        direction=direction, logger=LOG_OLD, **kw
    )


def same_result(a, b):
    for x, y in zip(a, b):
        if x.dtype != y.dtype or x.shape != y.shape or not np.array_equal(x, y):
            return False
    return True


def strip_timing(lines):
    return [l for l in lines if "completed in" not in l]


def compare_old_new(tag, points, normals, m1, m2, voxel, max_nm, max_angle, direction, **kw):
    """patched tree vs original text, bit for bit, log lines included; inputs untouched; repeated call identical"""
    keep = [points.copy(), normals.copy(), m1.copy(), m2.copy()]
    SINK_NEW.lines.clear()
    SINK_OLD.lines.clear()
    try:
        r_old = run_old(points, normals, m1, m2, voxel, max_nm, max_angle, direction, **kw)
        e_old = None
    except Exception as e:  # noqa: BLE001
        r_old, e_old = None, type(e)
    try:
        r_new = run_new(points, normals, m1, m2, voxel, max_nm, max_angle, direction, **kw)
        e_new = None
    except Exception as e:  # noqa: BLE001
        r_new, e_new = None, type(e)
    if e_old is not e_new:
        fail(f"{tag}: exception differs old={e_old} new={e_new}")
        return None
    if r_old is None:
        return None
    if not same_result(r_old, r_new):
        fail(f"{tag}: patched result differs from the original function")
    if strip_timing(SINK_OLD.lines) != strip_timing(SINK_NEW.lines):
        fail(f"{tag}: log lines differ from the original function")
    r_again = run_new(points, normals, m1, m2, voxel, max_nm, max_angle, direction, **kw)
    if not same_result(r_new, r_again):
        fail(f"{tag}: repeated call on the same arrays gives another result")
    for nm, was, now in zip(("points", "normals", "surface1_mask", "surface2_mask"), keep, (points, normals, m1, m2)):
        if was.dtype != now.dtype or not np.array_equal(was, now):
            fail(f"{tag}: caller's {nm} modified")
    return r_new


# --------------------------------------------------------------------------------------------------------------
# the property on one case
# --------------------------------------------------------------------------------------------------------------
STATS = dict(cases=0, pairs=0, multi_candidates=0, contested=0, skipped_border=0, skipped_many=0, rigid=0, scaled=0, kernel=0, no_hit_after_hit=0)


def check_case(tag, rng, points, normals, m1, m2, voxel, max_nm, max_angle, direction, kernel=False):
    n = len(points)
    res = compare_old_new(tag, points, normals, m1, m2, voxel, max_nm, max_angle, direction)
    if res is None:
        fail(f"{tag}: unexpected exception inside the quantifier")
        return
    thick, valid, pairs = res
    if thick.shape != (n,) or valid.shape != (n,) or pairs.shape != (n,):
        fail(f"{tag}: result shapes")
        return
    src_mask, tgt_mask = (m2, m1) if direction == "2to1" else (m1, m2)
    max_vox = max_nm / voxel
    src, tgt, dist, adm, border = brute(points, normals, src_mask, tgt_mask, max_vox, max_angle)
    if border.any():
        STATS["skipped_border"] += 1
        return
    if adm.size and adm.sum(axis=1).max() >= 25:
        STATS["skipped_many"] += 1  # outside the quantifier (fewer than 25 candidates per source point)
        return
    STATS["cases"] += 1
    STATS["multi_candidates"] += int((adm.sum(axis=1) >= 2).sum())
    if adm.any():
        near = np.where(adm, dist, np.inf).argmin(axis=1)[adm.any(axis=1)]
        STATS["contested"] += int(len(near) - len(set(near.tolist())))  # sources whose nearest target is taken

    # direction '2to1' is '1to2' with the surfaces swapped
    other = "1to2" if direction == "2to1" else "2to1"
    res_sw = run_new(points, normals, m2, m1, voxel, max_nm, max_angle, other)
    if not same_result(res, res_sw):
        fail(f"{tag}: direction {direction} != swapped masks with {other}")

    vi = np.flatnonzero(valid)
    STATS["pairs"] += len(vi)
    # only sources are matched, only to targets, no target twice
    if not src_mask[vi].all():
        fail(f"{tag}: a matched point is not a source point")
    if not tgt_mask[pairs[vi]].all():
        fail(f"{tag}: a partner is not a target point")
    if len(set(pairs[vi].tolist())) != len(vi):
        fail(f"{tag}: a target is used twice")
    if np.any(thick[~valid] != 0) or np.any(pairs[~valid] != 0):
        fail(f"{tag}: unmatched entries are not zero")
    # thickness = distance * voxel, <= max; forward; cone  (independent float64 arithmetic)
    d = points[pairs[vi]] - points[vi]
    dd = np.linalg.norm(d, axis=1)
    if not np.allclose(thick[vi], dd * voxel, rtol=1e-5, atol=0):
        fail(f"{tag}: thickness != distance * voxel size")
    if np.any(thick[vi] > max_nm * (1 + 1e-6)):
        fail(f"{tag}: thickness above the maximum")
    pr = np.einsum("ij,ij->i", d, normals[vi])
    if np.any(pr <= 0):
        fail(f"{tag}: a target lies behind its source")
    ang = np.degrees(np.arccos(np.clip(pr / dd, -1, 1))) if len(vi) else np.zeros(0)
    if np.any(ang > max_angle + 1e-6):
        fail(f"{tag}: a pair outside the cone: {ang.max():.3f} > {max_angle}")

    # greedy by increasing distance: identical to the brute-force greedy
    expect = greedy(src, tgt, dist, adm)
    got = {int(s): int(pairs[s]) for s in vi}
    if got != {s: t for s, (t, _) in expect.items()}:
        if min_gap(dist, adm) > 1e-9:
            fail(f"{tag}: pairing differs from the independent greedy assignment")
    else:
        for s, (t, dv) in expect.items():
            if abs(thick[s] - dv * voxel) > 1e-5 * dv * voxel + 1e-12:
                fail(f"{tag}: thickness of pair {s}->{t} differs from the independent value")
                break
    # nothing admissible left over; no matched source has a closer admissible unmatched target
    used_t = set(got.values())
    pos_s = {int(s): k for k, s in enumerate(src)}
    free_t = np.array([int(t) not in used_t for t in tgt], dtype=bool)
    for s in src:
        row = adm[pos_s[int(s)]] & free_t
        if int(s) not in got:
            if row.any():
                fail(f"{tag}: admissible pair of two unmatched points left over (source {s})")
                break
        else:
            dcur = dist[pos_s[int(s)], np.flatnonzero(tgt == got[int(s)])[0]]
            if row.any() and dist[pos_s[int(s)]][row].min() < dcur - 1e-9:
                fail(f"{tag}: matched source {s} has a closer admissible unmatched target")
                break

    # a source without hits after a source with hits (in index order) -- make sure such cases occur
    has = adm.any(axis=1)
    if len(has) > 1 and np.any(has[:-1] & ~has[1:]):
        STATS["no_hit_after_hit"] += 1

    gap_ok = min_gap(dist, adm) > 1e-7
    # rigid motion of all points and normals
    if gap_ok:
        R = random_rotation(rng)
        t = rng.uniform(-20, 20, size=3)
        p2 = np.ascontiguousarray(points @ R.T + t)
        n2 = np.ascontiguousarray(normals @ R.T)
        _, _, _, adm2, border2 = brute(p2, n2, src_mask, tgt_mask, max_vox, max_angle)
        if not border2.any() and np.array_equal(adm, adm2):
            STATS["rigid"] += 1
            r2 = run_new(p2, n2, m1, m2, voxel, max_nm, max_angle, direction)
            if not (np.array_equal(r2[1], valid) and np.array_equal(r2[2], pairs)):
                fail(f"{tag}: pairing changes under rigid motion")
            elif not np.allclose(r2[0], thick, rtol=1e-5, atol=1e-6):
                fail(f"{tag}: thickness changes under rigid motion")
        # voxel scaling: same geometry in voxels, k times the voxel size and range -> k times the thickness
        k = float(rng.choice([0.5, 2.0, 3.7, 0.13]))
        max_vox_k = (max_nm * k) / (voxel * k)
        _, _, _, adm3, border3 = brute(points, normals, src_mask, tgt_mask, max_vox_k, max_angle)
        if not border3.any() and np.array_equal(adm, adm3):
            STATS["scaled"] += 1
            r3 = run_new(points, normals, m1, m2, voxel * k, max_nm * k, max_angle, direction)
            if not (np.array_equal(r3[1], valid) and np.array_equal(r3[2], pairs)):
                fail(f"{tag}: pairing changes with the voxel size")
            elif not np.allclose(r3[0], thick * k, rtol=1e-5, atol=1e-6):
                fail(f"{tag}: thickness does not scale with the voxel size")

    # numba candidate kernel: same candidate sets (strict range there), same greedy result through the CPU assignment
    if kernel:
        STATS["kernel"] += 1
        maxm = 25
        md = np.zeros((n, maxm), dtype=np.float64)
        mi = np.full((n, maxm), -1, dtype=np.int64)
        mc = np.zeros(n, dtype=np.int64)
        keep = [points.copy(), normals.copy(), src_mask.copy(), tgt_mask.copy()]
        mt.find_matches_parallel(
            points, normals, src_mask, tgt_mask, np.flatnonzero(tgt_mask), float(max_vox),
            float(np.cos(np.radians(max_angle))), md, mi, mc,
        )
        if not all(np.array_equal(a, b) for a, b in zip(keep, (points, normals, src_mask, tgt_mask))):
            fail(f"{tag}: numba kernel modified its inputs")
        flat = []
        for s in range(n):
            cand = set(mi[s, : mc[s]].tolist())
            want = set(tgt[adm[pos_s[s]]].tolist()) if s in pos_s else set()
            if cand != want:
                fail(f"{tag}: numba kernel candidates of point {s} differ from brute force")
                break
            for c in range(mc[s]):
                flat.append((md[s, c], s, int(mi[s, c])))
        else:
            kt, kv, kp = mt.process_matches_cpu2cpu(flat, n, voxel)
            if min_gap(dist, adm) > 1e-9 and not (np.array_equal(kv, valid) and np.array_equal(kp, pairs)):
                fail(f"{tag}: kernel candidates + assignment differ from the CPU pairing")


# --------------------------------------------------------------------------------------------------------------
def main():
    rng = np.random.default_rng(20240620)

    # ---- 1. random cases inside the quantifier
    shapes = ["flat", "curved", "tilted"]
    labellings = ["sheets", "swapped", "partial", "arbitrary"]
    n_cases = 110
    for c in range(n_cases):
        n_points = int(rng.choice([20, 21, 37, 64, 100, 150, 240, 400, 600]))
        shape = shapes[c % 3]
        labelling = labellings[(c // 3) % 4]
        voxel = float(rng.choice([0.5, 0.782, 1.0, 1.33, 2.6]))
        gap = float(rng.uniform(3.0, 6.0))  # voxels
        spacing = float(rng.uniform(1.6, 3.0))
        jitter = float(rng.uniform(0.02, 0.3))
        max_angle = float(rng.choice([1, 2, 3, 5, 7.5, 10, 15, 20, 25, 30]))
        max_nm = float(rng.uniform(0.7, 2.2)) * gap * voxel  # sometimes below the gap: few or no hits
        direction = "1to2" if rng.random() < 0.5 else "2to1"
        frac = float(rng.choice([0.5, 0.5, 0.3, 0.7]))
        noise = float(rng.choice([0.0, 1.0, 3.0, 8.0]))
        points, normals, m1, m2 = make_case(rng, n_points, shape, labelling, gap, spacing, jitter, noise, frac)
        check_case(
            f"case{c}[{shape},{labelling},n={n_points},ang={max_angle},{direction}]",
            rng, points, normals, m1, m2, voxel, max_nm, max_angle, direction, kernel=(c % 4 == 0),
        )

    # ---- 2. edge cases inside the quantifier: float32 input, one empty surface, every point on one surface,
    #         range so small that nobody has a hit, exact facing grid (many equal distances -> tie order)
    points, normals, m1, m2 = make_case(rng, 120, "curved", "sheets", 4.0, 2.0, 0.1, 2.0)
    check_case("float32", rng, points.astype(np.float32).astype(np.float64), normals, m1, m2, 1.0, 6.0, 20.0, "1to2")
    compare_old_new("float32-raw", points.astype(np.float32), normals.astype(np.float32), m1, m2, 1.0, 6.0, 20.0, "1to2")
    check_case("no-hit-range", rng, points, normals, m1, m2, 1.0, 0.5, 30.0, "1to2")
    for direction in ("1to2", "2to1"):
        compare_old_new("empty-surface2-" + direction, points, normals, m1 | m2, np.zeros(len(points), bool), 1.0, 6.0, 20.0, direction)
        compare_old_new("empty-both-" + direction, points, normals, np.zeros(len(points), bool), np.zeros(len(points), bool), 1.0, 6.0, 20.0, direction)
    # exact grid: equal distances, the order of the sort decides -- old and new must agree bit for bit
    g = np.stack(np.meshgrid(np.arange(8.0), np.arange(8.0), indexing="ij"), axis=-1).reshape(-1, 2)
    gp = np.concatenate([np.c_[g, np.zeros(len(g))], np.c_[g, np.full(len(g), 3.0)]])
    gn = np.concatenate([np.tile([0.0, 0.0, 1.0], (len(g), 1)), np.tile([0.0, 0.0, -1.0], (len(g), 1))])
    gm1 = np.r_[np.ones(len(g), bool), np.zeros(len(g), bool)]
    for ang in (1.0, 20.0, 30.0):
        for direction in ("1to2", "2to1"):
            r = compare_old_new(f"grid-{ang}-{direction}", gp, gn, gm1, ~gm1, 1.3, 6.0, ang, direction)
            if r is not None and ang == 1.0:
                # straight across only
                exp_pairs = np.where(gm1, np.arange(len(gp)) + len(g), 0) if direction == "1to2" else np.where(~gm1, np.arange(len(gp)) - len(g), 0)
                exp_valid = gm1 if direction == "1to2" else ~gm1
                if not (np.array_equal(r[1], exp_valid) and np.array_equal(r[2], exp_pairs) and np.allclose(r[0][exp_valid], 3.9)):
                    fail(f"grid-{ang}-{direction}: facing grid is not paired straight across")

    # ---- 3. old vs new outside the comfortable zone: candidate limit reached (dense sheets, small limits),
    #         wide angles, bad normals, labels overlapping, num_threads given
    for c in range(40):
        n_points = int(rng.choice([30, 80, 200, 350]))
        points, normals, m1, m2 = make_case(
            rng, n_points, shapes[c % 3], labellings[c % 4], float(rng.uniform(1.5, 4.0)), float(rng.uniform(0.5, 1.5)),
            0.2, float(rng.choice([0.0, 5.0, 30.0])),
        )
        if c % 5 == 0:
            m2 = m2 | (rng.random(n_points) < 0.2)  # overlapping labels: a point may be source and target
        limit = int(rng.choice([1, 2, 3, 5, 25, 0]))
        ang = float(rng.choice([5, 30, 60, 89]))
        kw = dict(max_matches_per_point=limit)
        if c % 7 == 0:
            kw["num_threads"] = 2
        compare_old_new(f"limit{c}[n={n_points},limit={limit},ang={ang}]", points, normals, m1, m2,
                        float(rng.choice([0.7, 1.0, 2.0])), float(rng.uniform(3.0, 9.0)), ang,
                        "1to2" if c % 2 else "2to1", **kw)

    # ---- 4. process_matches_cpu2cpu on its own: old vs new, ties, repeated sources/targets, caller's list only sorted
    for c in range(60):
        n = int(rng.integers(1, 40))
        k = int(rng.integers(0, 120))
        dists = rng.choice(np.round(rng.uniform(0.5, 9.0, size=max(1, k // 3 + 1)), 2), size=k)
        flat = [(np.float64(dists[i]), np.int64(rng.integers(0, n)), np.int64(rng.integers(0, n))) for i in range(k)]
        f_old, f_new = list(flat), list(flat)
        vox = float(rng.choice([0.5, 1.0, 1.77]))
        a = ORIG_process(f_old, n, vox)
        b = mt.process_matches_cpu2cpu(f_new, n, vox)
        if not same_result(a, b):
            fail(f"process{c}: result differs from the original function")
        if f_old != f_new or sorted(flat) != f_new:
            fail(f"process{c}: caller's match list differs from what the original leaves behind")

    print("stats:", STATS)
    if STATS["cases"] < 80 or STATS["pairs"] < 2000 or STATS["rigid"] < 50 or STATS["scaled"] < 50 \
            or STATS["kernel"] < 15 or STATS["multi_candidates"] < 300 or STATS["contested"] < 30 or STATS["no_hit_after_hit"] < 20:
        fail(f"generator too weak: {STATS}")
    if FAILS:
        print(f"FAIL ({len(FAILS)} problems)")
        sys.exit(1)
    print("PASS")


if __name__ == "__main__":
    main()
