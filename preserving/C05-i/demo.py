import sys, os

sys.path.insert(0, os.getcwd())
import inspect
import tempfile
import textwrap
import warnings

warnings.simplefilter("ignore")
import numpy as np
import pandas as pd
from scipy.spatial.transform import Rotation as SR

import cryocat
from cryocat import cryomotl, ioutils
from cryocat.cryomotl import Motl

assert os.path.abspath(cryocat.__file__).startswith(os.getcwd()), "wrong cryocat imported"

RNG = np.random.default_rng(20260928)
TOL = 1e-7
FAILS = []


def check(cond, msg):
    if not cond:
        FAILS.append(msg)
        if len(FAILS) <= 20:
            print("FAIL:", msg)


# ---------------------------------------------------------------- independent model
def rz(a):
    c, s = np.cos(a), np.sin(a)
    return np.array([[c, -s, 0.0], [s, c, 0.0], [0.0, 0.0, 1.0]])


def rx(a):
    c, s = np.cos(a), np.sin(a)
    return np.array([[1.0, 0.0, 0.0], [0.0, c, -s], [0.0, s, c]])


def euler_to_matrix(phi, theta, psi):
    # extrinsic zxz: first about z by phi, then about x by theta, then about z by psi
    p, t, s = np.deg2rad([phi, theta, psi])
    return rz(s) @ rx(t) @ rz(p)


def quat_to_matrix(q):  # scalar-last unit quaternion -> matrix, written out by hand
    x, y, z, w = q / np.linalg.norm(q)
    return np.array(
        [
            [1 - 2 * (y * y + z * z), 2 * (x * y - z * w), 2 * (x * z + y * w)],
            [2 * (x * y + z * w), 1 - 2 * (x * x + z * z), 2 * (y * z - x * w)],
            [2 * (x * z - y * w), 2 * (y * z + x * w), 1 - 2 * (x * x + y * y)],
        ]
    )


def half_up(v):  # ties away from zero, like decimal.ROUND_HALF_UP
    return np.sign(v) * np.floor(np.abs(v) + 0.5)


MIRROR = np.diag([1.0, 1.0, -1.0])
OTHER = [c for c in Motl.motl_columns if c not in ("x", "y", "z", "shift_x", "shift_y", "shift_z", "phi", "theta", "psi")]


class Model:
    def __init__(self, df):
        self.P = df[["x", "y", "z"]].to_numpy(dtype=float) + df[["shift_x", "shift_y", "shift_z"]].to_numpy(dtype=float)
        self.R = np.array(
            [euler_to_matrix(a, b, c) for a, b, c in df[["phi", "theta", "psi"]].to_numpy(dtype=float)]
        ).reshape(-1, 3, 3)
        self.tomo = df["tomo_id"].to_numpy(dtype=float)
        self.other = df[OTHER].to_numpy(dtype=float).copy()
        self.integer = False  # x,y,z integers with |shift|<=0.5 expected

    def n(self):
        return self.P.shape[0]


# ---------------------------------------------------------------- generators
POLE_THETAS = [0.0, 180.0, -180.0, 360.0, 90.0, -90.0, 1e-9, 179.9999999]


def random_df(n, index_kind="default", mode="general"):
    d = {}
    for c in Motl.motl_columns:
        d[c] = RNG.normal(size=n)
    d["tomo_id"] = RNG.integers(1, 5, size=n).astype(float)
    d["subtomo_id"] = np.arange(1, n + 1, dtype=float)
    d["object_id"] = RNG.integers(1, 4, size=n).astype(float)
    d["class"] = RNG.integers(1, 3, size=n).astype(float)
    if mode == "general":
        pos = RNG.uniform(-300, 300, size=(n, 3))
        sh = RNG.uniform(-5, 5, size=(n, 3))
    elif mode == "ties":  # half-integer complete positions of either sign
        pos = RNG.integers(-40, 40, size=(n, 3)).astype(float)
        sh = RNG.choice([-2.5, -1.5, -0.5, 0.5, 1.5, 2.5, 0.0, 0.25, -0.75], size=(n, 3))
    elif mode == "intzero":
        pos = RNG.integers(1, 200, size=(n, 3)).astype(float)
        sh = np.zeros((n, 3))
    else:  # fractional positions, zero shifts
        pos = RNG.integers(-40, 40, size=(n, 3)) + RNG.choice([0.5, -0.5, 0.0, 0.49999, 0.50001], size=(n, 3))
        sh = np.zeros((n, 3))
    for i, c in enumerate("xyz"):
        d[c] = pos[:, i]
        d["shift_" + c] = sh[:, i]
    d["phi"] = RNG.uniform(-360, 360, size=n)
    d["theta"] = RNG.uniform(-180, 360, size=n)
    d["psi"] = RNG.uniform(-360, 360, size=n)
    if n:
        k = RNG.integers(0, n, size=max(1, n // 3))
        d["theta"][k] = RNG.choice(POLE_THETAS, size=k.size)
        k = RNG.integers(0, n, size=max(1, n // 4))
        d["phi"][k] = RNG.choice([0.0, 90.0, 180.0, -180.0, 360.0], size=k.size)
        # NaN holes in columns that carry no pose
        k = RNG.integers(0, n, size=max(1, n // 4))
        d["geom3"][k] = np.nan
        d["score"][RNG.integers(0, n)] = np.nan
    df = pd.DataFrame(d, columns=RNG.permutation(Motl.motl_columns) if RNG.random() < 0.3 else Motl.motl_columns)
    if index_kind == "shuffled":
        df.index = RNG.permutation(n) + 7
    elif index_kind == "dup":
        df.index = RNG.integers(0, max(1, n // 2), size=n)
    elif index_kind == "gaps":
        df.index = np.sort(RNG.choice(np.arange(5 * n + 1), size=n, replace=False))
    return df


def random_rotation():
    r = RNG.random()
    if r < 0.15:
        return SR.from_euler("zxz", [RNG.uniform(-180, 180), RNG.choice([0.0, 180.0]), RNG.uniform(-180, 180)], degrees=True)
    if r < 0.2:
        return SR.identity()
    return SR.from_quat(RNG.normal(size=4))


def rotation_matrix_of(q):
    return quat_to_matrix(np.asarray(q.as_quat(), dtype=float).reshape(4))


def random_dims(model_tomos, kind):
    tomos = sorted(set(float(t) for t in model_tomos) | {1.0, 2.0, 3.0, 4.0})
    if kind == "list":
        zz = [int(RNG.integers(50, 500)) for _ in range(3)]
        return zz, {None: float(zz[2])}
    if kind == "array1d":
        zz = RNG.integers(50, 500, size=3).astype(float) + RNG.choice([0.0, 0.5])
        return zz, {None: float(zz[2])}
    if kind == "array2d":
        zz = RNG.integers(50, 500, size=(1, 3))
        return zz, {None: float(zz[0, 2])}
    if kind == "df13":
        zz = pd.DataFrame(RNG.integers(50, 500, size=(1, 3)).astype(float))
        return zz, {None: float(zz.iloc[0, 2])}
    order = RNG.permutation(len(tomos))
    tab = np.array([[tomos[i], RNG.integers(50, 500), RNG.integers(50, 500), RNG.integers(50, 500)] for i in order], dtype=float)
    zmap = {row[0]: row[3] for row in tab}
    if kind == "tableN4":
        return tab, zmap
    if kind == "dfN4":
        return pd.DataFrame(tab, columns=["tomo_id", "x", "y", "z"], index=RNG.permutation(len(tab)) + 3), zmap
    if kind == "fileN4":
        f = tempfile.NamedTemporaryFile("w", suffix=".txt", delete=False)
        for row in tab:
            f.write(" ".join(repr(float(v)) for v in row) + "\n")
        f.close()
        return f.name, zmap
    if kind == "file13":
        zz = RNG.integers(50, 500, size=3)
        f = tempfile.NamedTemporaryFile("w", suffix=".txt", delete=False)
        f.write("  ".join(str(int(v)) for v in zz) + "\n")
        f.close()
        return f.name, {None: float(zz[2])}
    if kind == "com":
        zz = RNG.integers(50, 5000, size=3)
        f = tempfile.NamedTemporaryFile("w", suffix=".com", delete=False)
        f.write(
            textwrap.dedent(
                f"""\
                # Command file to run Tilt
                $tilt -StandardInput
                InputProjections TS_01.ali
                OutputFile TS_01_full.rec
                IMAGEBINNED 1
                TILTFILE TS_01.tlt
                THICKNESS {int(zz[2])}
                RADIAL 0.35 0.035
                FalloffIsTrueSigma 1
                XAXISTILT 0.0
                SCALE 0.0 0.05
                PERPENDICULAR
                MODE 2
                FULLIMAGE {int(zz[0])} {int(zz[1])}
                SUBSETSTART 0 0
                OFFSET -1.5
                SHIFT 0.0 0.0
                $if (-e ./savework) ./savework
                """
            )
        )
        f.close()
        return f.name, {None: float(zz[2])}
    raise ValueError(kind)


DIM_KINDS = ["list", "array1d", "array2d", "df13", "tableN4", "dfN4", "fileN4", "file13", "com"]
TMPFILES = []


# ---------------------------------------------------------------- operations on both sides
def op_update(m, M):
    m.update_coordinates()
    M.integer = True


def op_scale(m, M):
    f = float(RNG.choice([0.5, 2.0, 4.0, 0.25, 1.0, RNG.uniform(0.01, 20.0)]))
    m.scale_coordinates(f if RNG.random() < 0.8 else np.float64(f))
    M.P = M.P * f
    M.integer = False


def op_shift(m, M):
    s = RNG.uniform(-20, 20, size=3) if RNG.random() < 0.8 else RNG.choice([0.0, 0.5, -0.5, 1.0], size=3)
    arg = s if RNG.random() < 0.5 else [float(v) for v in s]
    if RNG.random() < 0.2:
        before = m.df.copy()
        new = m.shift_positions(arg, inplace=False)
        check(new is not m and new.df is not m.df, "inplace=False must give a new object")
        check(before.equals(m.df), "inplace=False changed the original")
        m.df = new.df
    else:
        check(m.shift_positions(arg) is None, "inplace shift returns None")
    M.P = M.P + np.einsum("nij,j->ni", M.R, np.asarray(s, dtype=float))
    M.integer = False


def op_rotate(m, M):
    q = random_rotation()
    m.apply_rotation(q)
    Q = rotation_matrix_of(q)
    M.R = np.einsum("nij,jk->nik", M.R, Q)


def op_flip(m, M):
    kind = str(RNG.choice(DIM_KINDS))
    dims, zmap = random_dims(M.tomo, kind)
    if isinstance(dims, str):
        TMPFILES.append(dims)
    m.flip_handedness(dims)
    if None in zmap:
        M.P[:, 2] = zmap[None] + 1.0 - M.P[:, 2]
    else:
        for i in range(M.n()):
            M.P[i, 2] = zmap[M.tomo[i]] + 1.0 - M.P[i, 2]
    M.R = np.einsum("ij,njk,kl->nil", MIRROR, M.R, MIRROR)
    M.integer = False


def op_flip_orient_only(m, M):
    m.flip_handedness()
    M.R = np.einsum("ij,njk,kl->nil", MIRROR, M.R, MIRROR)


OPS = [op_update, op_scale, op_shift, op_rotate, op_flip, op_flip_orient_only]


def observe(m, M, tag):
    n = M.n()
    scale = 1.0 + (np.abs(M.P).max() if n else 0.0)
    df = m.df
    check(df.shape == (n, 20), f"{tag}: shape {df.shape}")
    if df.shape[0] != n:
        return
    c = m.get_coordinates()
    check(c.shape == (n, 3), f"{tag}: get_coordinates shape {c.shape}")
    check(np.allclose(c, M.P, atol=TOL * scale, rtol=0), f"{tag}: complete position differs by {np.abs(c - M.P).max() if n else 0}")
    raw = df[["x", "y", "z"]].to_numpy(dtype=float) + df[["shift_x", "shift_y", "shift_z"]].to_numpy(dtype=float)
    check(np.array_equal(raw, c), f"{tag}: get_coordinates is not x+shift of df")
    r = m.get_rotations()
    if n == 0:
        check(isinstance(r, list) and r == [], f"{tag}: empty rotations")
    else:
        mats = r.as_matrix().reshape(-1, 3, 3)
        check(mats.shape[0] == n, f"{tag}: number of rotations")
        check(np.allclose(mats, M.R, atol=1e-6, rtol=0), f"{tag}: orientation differs by {np.abs(mats - M.R).max()}")
        a = m.get_angles()
        check(np.array_equal(a, df[["phi", "theta", "psi"]].to_numpy()), f"{tag}: get_angles is not phi,theta,psi of df")
        mine = np.array([euler_to_matrix(*row) for row in a])
        check(np.allclose(mine, M.R, atol=1e-6, rtol=0), f"{tag}: df angles differ from model")
    if M.integer and n:
        xyz = df[["x", "y", "z"]].to_numpy(dtype=float)
        sh = df[["shift_x", "shift_y", "shift_z"]].to_numpy(dtype=float)
        check(np.array_equal(xyz, np.round(xyz)), f"{tag}: positions not integer after update")
        check(np.all(np.abs(sh) <= 0.5), f"{tag}: |shift|>0.5 after update")
    check(np.array_equal(df[OTHER].to_numpy(dtype=float), M.other, equal_nan=True), f"{tag}: non-pose columns changed")
    # per tomogram accessors
    for t in (1.0, 3, 99):
        sel = M.tomo == t
        ct = m.get_coordinates(t)
        check(ct.shape == (int(sel.sum()), 3) and np.array_equal(ct, c[sel]), f"{tag}: get_coordinates({t})")
        at = m.get_angles(t)
        if sel.sum():
            check(np.array_equal(at, m.get_angles()[sel]), f"{tag}: get_angles({t})")
            check(np.allclose(m.get_rotations(t).as_matrix().reshape(-1, 3, 3), M.R[sel], atol=1e-6), f"{tag}: get_rotations({t})")
        else:
            check(m.get_rotations(t) == [], f"{tag}: get_rotations({t}) of absent tomogram")


def histories(n_hist=260):
    sizes = [0, 1, 1, 2, 3, 5, 8, 13]
    for h in range(n_hist):
        n = int(RNG.choice(sizes))
        df = random_df(n, str(RNG.choice(["default", "shuffled", "dup", "gaps"])), str(RNG.choice(["general", "ties", "intzero", "frac"])))
        m = Motl(df.copy()) if RNG.random() < 0.7 else Motl(df)
        if RNG.random() < 0.15 and n == 0:
            m = Motl()
            df = m.df.copy()
        M = Model(m.df)
        observe(m, M, f"h{h} start")
        for k in range(int(RNG.integers(1, 7))):
            op = OPS[int(RNG.integers(0, len(OPS)))]
            op(m, M)
            observe(m, M, f"h{h} step{k} {op.__name__}")


def targeted():
    # exact statements on update_coordinates incl. ties
    for mode in ("ties", "frac", "general", "intzero"):
        for idx in ("default", "shuffled"):
            df = random_df(40, idx, mode)
            m = Motl(df.copy())
            P = m.get_coordinates().copy()
            m.update_coordinates()
            xyz = m.df[["x", "y", "z"]].to_numpy()
            check(np.array_equal(xyz, half_up(P)), f"update {mode}: not round-half-up (away from zero)")
            check(np.array_equal(m.df[["shift_x", "shift_y", "shift_z"]].to_numpy(), P - half_up(P)), f"update {mode}: residual")
            check(np.allclose(m.get_coordinates(), P, atol=1e-9), f"update {mode}: position moved")
            check(list(m.df.index) == list(df.index), "update: index changed")
            snap = m.df.copy()
            m.update_coordinates()  # idempotent
            check(snap.equals(m.df), f"update {mode}: second call changed the list")
    # composition of shifts and rotations, against one call
    for rep in range(30):
        df = random_df(9, "default", "general")
        s1, s2 = RNG.uniform(-9, 9, size=3), RNG.uniform(-9, 9, size=3)
        a, b = Motl(df.copy()), Motl(df.copy())
        a.shift_positions(s1)
        a.shift_positions(s2)
        b.shift_positions(s1 + s2)
        check(np.allclose(a.get_coordinates(), b.get_coordinates(), atol=1e-9), "s1 then s2 != s1+s2")
        check(np.array_equal(a.df[["x", "y", "z"]].to_numpy(), df[["x", "y", "z"]].to_numpy()), "shift moved x,y,z")
        q1, q2 = random_rotation(), random_rotation()
        a, b = Motl(df.copy()), Motl(df.copy())
        a.apply_rotation(q1)
        a.apply_rotation(q2)
        b.apply_rotation(q1 * q2)
        check(np.allclose(a.get_rotations().as_matrix(), b.get_rotations().as_matrix(), atol=1e-7), "Q1 then Q2 != Q1*Q2")
        check(np.array_equal(a.get_coordinates(), Motl(df.copy()).get_coordinates()), "rotation moved a particle")
    # flip twice restores the list, every dimension format
    for kind in DIM_KINDS:
        for idx in ("default", "shuffled", "dup"):
            df = random_df(11, idx, "general")
            m = Motl(df.copy())
            dims, zmap = random_dims(df["tomo_id"], kind)
            if isinstance(dims, str):
                TMPFILES.append(dims)
            m.flip_handedness(dims)
            z = df["z"] + df["shift_z"]
            zd = np.array([zmap[None] if None in zmap else zmap[t] for t in df["tomo_id"]])
            check(np.allclose(m.get_coordinates()[:, 2], zd + 1 - z.to_numpy(), atol=1e-9), f"flip {kind}: mirror image")
            check(np.array_equal(m.get_coordinates()[:, :2], Motl(df.copy()).get_coordinates()[:, :2]), f"flip {kind}: x,y moved")
            m.flip_handedness(dims)
            for c in Motl.motl_columns:
                check(np.allclose(m.df[c].to_numpy(), df[c].to_numpy(), atol=1e-9, equal_nan=True), f"flip twice {kind}: column {c}")
            check(list(m.df.index) == list(df.index) and list(m.df.columns) == list(df.columns), f"flip twice {kind}: labels")
    # scale
    for f in (0.5, 2, 3.7, np.float64(8)):
        df = random_df(10, "gaps", "ties")
        m = Motl(df.copy())
        P = m.get_coordinates().copy()
        m.scale_coordinates(f)
        check(np.allclose(m.get_coordinates(), P * f, atol=1e-9), "scale")
        check(np.array_equal(m.df["x"].to_numpy(), df["x"].to_numpy() * f), "scale x")
        check(np.array_equal(m.df["shift_z"].to_numpy(), df["shift_z"].to_numpy() * f), "scale shift")


def run_property():
    targeted()
    histories()


def finish():
    for f in TMPFILES:
        try:
            os.unlink(f)
        except OSError:
            pass
    if FAILS:
        print(f"FAIL ({len(FAILS)} violations)")
        sys.exit(1)
    print("PASS")
    sys.exit(0)


# ---------------------------------------------------------------- helper against its original text
import pathlib
from cryocat.ioutils import imod_com_read, tlt_load


def orig_dimensions_load(input_dims, tomo_idx=None):
    if isinstance(input_dims, pd.DataFrame):
        dimensions = input_dims
    elif isinstance(input_dims, str):
        if input_dims.endswith(".com"):
            com_file_d = imod_com_read(input_dims)
            dimensions = np.zeros((1, 3))
            dimensions[0, 0:2] = com_file_d["FULLIMAGE"]
            dimensions[0, 2] = com_file_d["THICKNESS"][0]
            dimensions = pd.DataFrame(dimensions)
        else:
            if os.path.isfile(input_dims):
                dimensions = pd.read_csv(input_dims, sep=r"\s+", header=None, dtype=float)
            else:
                raise ValueError(f"The file at the path {input_dims} does not exist.")
    elif isinstance(input_dims, list):
        dimensions = pd.DataFrame(np.reshape(np.asarray(input_dims), (1, len(input_dims))))
    else:  # isinstance(input_dims, np.ndarray):
        if input_dims.ndim == 1:
            input_dims = np.reshape(input_dims, (1, input_dims.shape[0]))

        dimensions = pd.DataFrame(input_dims)

    if dimensions.shape == (1, 3):
        dimensions.columns = ["x", "y", "z"]
    elif dimensions.shape[1] == 4:
        dimensions.columns = ["tomo_id", "x", "y", "z"]
    else:
        raise ValueError(
            f"The dimensions should have shape of 1x3 or Nx4, where N is number of tomograms."
            f"Instead following shape was extracted from the prvoided files: {dimensions.shape}."
        )

    if tomo_idx is not None:
        tomos = tlt_load(tomo_idx).astype(int)
        if "tomo_id" not in dimensions.columns:
            repeated_values = np.repeat(dimensions[["x", "y", "z"]].values, len(tomos), axis=0)
            dimensions = pd.DataFrame(repeated_values, columns=["x", "y", "z"])
            dimensions["tomo_id"] = tomos

    return dimensions


def outcome(fn, *args):
    try:
        return ("ok", fn(*args))
    except Exception as e:  # noqa
        return ("raise", type(e).__name__, str(e))


def same_frame(a, b):
    return (
        isinstance(a, pd.DataFrame)
        and isinstance(b, pd.DataFrame)
        and list(a.columns) == list(b.columns)
        and list(a.index) == list(b.index)
        and list(a.dtypes) == list(b.dtypes)
        and np.array_equal(a.to_numpy(), b.to_numpy(), equal_nan=True)
    )


def same_outcome(a, b):
    if a[0] != b[0]:
        return False
    return same_frame(a[1], b[1]) if a[0] == "ok" else a[1:] == b[1:]


def fresh(x):
    return x.copy() if isinstance(x, (pd.DataFrame, np.ndarray)) else (list(x) if isinstance(x, list) else x)


def compare_with_original():
    cases = []
    for rep in range(25):
        for kind in DIM_KINDS:
            dims, _ = random_dims([1, 2, 3, 4, 7], kind)
            if isinstance(dims, str):
                TMPFILES.append(dims)
            cases.append(dims)
    # shapes that are refused, unknown files, nested lists, other array-likes
    cases += [
        [1, 2], [1, 2, 3, 4, 5], [], [[1, 2, 3]], [[1, 2, 3, 4], [2, 3, 4, 5]], np.zeros((2, 3)), np.zeros((0, 4)), np.zeros(5),
        np.array([4, 100, 200, 300]), np.array([[7.5, 8.5, 9.5]]), pd.DataFrame(np.ones((3, 4)), columns=list("abcd")),
        pd.DataFrame(np.ones((2, 2))), "/nonexistent/dims.txt", "/nonexistent/tilt.com", "", [1.5, 2.5, 3.5], [True, 2, 3],
        pd.Series([10.0, 20.0, 30.0]), 5, None, {"x": 1}, b"/nonexistent/dims.txt",
    ]
    for dims in cases:
        for idx in (None, [3, 5, 9], np.array([2.0, 4.0])):
            a_in, b_in = fresh(dims), fresh(dims)
            a = outcome(ioutils.dimensions_load, a_in, idx)
            b = outcome(orig_dimensions_load, b_in, idx)
            check(same_outcome(a, b), f"dimensions_load({dims!r}, {idx!r}): {a} vs original {b}")
            if isinstance(dims, pd.DataFrame):  # same treatment of the caller's frame
                check(list(a_in.columns) == list(b_in.columns) and (a[0] != "ok" or idx is not None or a[1] is a_in), "caller's DataFrame handled differently")
    # the further accepted types: today they are refused; once accepted they must mean the same as list / str
    for rep in range(20):
        for kind in ("list", "fileN4", "file13", "com"):
            dims, _ = random_dims([1, 2, 3, 4], kind)
            if isinstance(dims, str):
                TMPFILES.append(dims)
                alts = [pathlib.Path(dims), pathlib.PurePosixPath(dims)]
            else:
                alts = [tuple(dims)]
            ref = outcome(orig_dimensions_load, dims)
            for alt in alts:
                got = outcome(ioutils.dimensions_load, alt)
                was = outcome(orig_dimensions_load, alt)
                check(was[0] == "raise", "original accepted the alternative type?")
                check(same_outcome(got, was) or same_outcome(got, ref), f"dimensions_load({alt!r}) -> {got}, expected {ref} (or the old refusal)")
                # and through the property's function
                df = random_df(7)
                m1, m2 = Motl(df.copy()), Motl(df.copy())
                m2.flip_handedness(dims)
                try:
                    m1.flip_handedness(alt)
                except AttributeError:
                    continue
                check(m1.df.equals(m2.df), f"flip_handedness({alt!r}) differs from flip_handedness({dims!r})")


compare_with_original()
run_property()
finish()
