"""C15 / change a: cryomap.read closes the MRC file through a context manager (voxels copied while the handle is open).
Checks the tilt-stack property against an independent model and compares the read helper of the tree with the original
text of the helper on the same files."""
import sys, os
sys.path.insert(0, os.getcwd())
import io, contextlib, tempfile, itertools, inspect, textwrap, shutil
import numpy as np
import mrcfile

from cryocat import tiltstack, cryomap, ioutils

FAILS = []


def check(cond, msg):
    if not cond:
        FAILS.append(msg)
        if len(FAILS) < 15:
            print("FAIL:", msg)


def quiet(f, *a, **k):
    with contextlib.redirect_stdout(io.StringIO()):
        return f(*a, **k)


def same(a, b, msg, approx=False):
    """identical shape, dtype and values (bitwise unless approx)"""
    a = np.asarray(a)
    b = np.asarray(b)
    if a.shape != b.shape or a.dtype != b.dtype:
        check(False, f"{msg}: shape/dtype {a.shape}/{a.dtype} vs {b.shape}/{b.dtype}")
        return
    if approx:
        check(np.allclose(a, b, rtol=1e-5, atol=1e-5), msg + ": values (approx)")
    else:
        check(np.array_equal(a, b), msg + ": values")


# ---- independent file io (mrcfile directly, never through cryocat) ----------------------------------------------------
def raw_write(path, zyx):
    with mrcfile.new(path, overwrite=True) as m:
        m.set_data(np.ascontiguousarray(zyx))


def raw_read(path):
    with mrcfile.open(path, permissive=True) as m:
        return np.array(m.data, copy=True)


# ---- independent model of the operations, always on n,y,x data ----------------------------------------------------------
def ref_sort(zyx, angles):
    order = sorted(range(len(angles)), key=lambda i: float(angles[i]))
    return np.stack([zyx[i] for i in order], axis=0)


def ref_remove(zyx, idx0):
    keep = [i for i in range(zyx.shape[0]) if i not in set(int(j) for j in idx0)]
    return np.stack([zyx[i] for i in keep], axis=0)


def ref_crop(zyx, nw, nh):
    n, h, w = zyx.shape
    nw = w if nw is None else nw
    nh = h if nh is None else nh
    sw = w // 2 - nw // 2
    sh = h // 2 - nh // 2
    return zyx[:, sh : sh + nh, sw : sw + nw]


def ref_bin(zyx, b, dtype):
    n, h, w = zyx.shape
    H = -(-h // b) * b
    W = -(-w // b) * b
    pad = np.zeros((n, H, W), dtype=np.float64)
    pad[:, :h, :w] = zyx
    s = pad.reshape(n, H // b, b, W // b, b).sum(axis=(2, 4))
    return (s / float(b * b)).astype(dtype)


def ref_flip(zyx, axes):
    ax = {"x": 1, "y": 2, "z": 0}  # IMOD clip flipx reverses the rows, flipy the columns, flipz the sections
    out = zyx
    for a in axes:
        out = np.flip(out, axis=ax[a])
    return out


def to_order(zyx, order):
    return zyx if order == "zyx" else zyx.transpose(2, 1, 0)


# ---- the property ------------------------------------------------------------------------------------------------------
def run_property(seed=2024, n_cases=36):
    rng = np.random.default_rng(seed)
    tmp = tempfile.mkdtemp(prefix="c15demo_")
    counter = itertools.count()
    try:
        sizes = [(2, 4, 5), (25, 40, 39), (3, 5, 4), (2, 40, 4), (7, 4, 40)]
        while len(sizes) < n_cases:
            n = int(rng.integers(2, 26))
            h = int(rng.integers(4, 41))
            w = int(rng.integers(4, 41))
            if h == w:
                w = w + 1 if w < 40 else w - 1
            sizes.append((n, h, w))
        for ci, (n, h, w) in enumerate(sizes):
            dtype = [np.float32, np.int16][ci % 2]
            if dtype is np.int16:
                zyx = rng.integers(-3000, 3000, size=(n, h, w)).astype(np.int16)
            elif ci % 4 == 0:
                zyx = rng.integers(-500, 500, size=(n, h, w)).astype(np.float32)
            else:
                zyx = rng.normal(0, 50, size=(n, h, w)).astype(np.float32)
            in_file = os.path.join(tmp, f"in_{ci}.mrc")
            raw_write(in_file, zyx)
            # tilt angles: any order, no ties (also none after a float32 round trip)
            angles = rng.permutation(np.arange(-n, n + 1))[:n] * 3.0 + rng.integers(-9, 10, size=n) / 10.0
            if ci % 5 == 1:
                angles = np.sort(angles)  # already sorted
            if ci % 5 == 2:
                angles = np.sort(angles)[::-1].copy()  # reversed
            tlt_file = os.path.join(tmp, f"a_{ci}.tlt")
            np.savetxt(tlt_file, angles, fmt="%.2f")
            k = int(rng.integers(1, n))  # removes 1..n-1 tilts
            idx0 = rng.permutation(n)[:k]
            if ci % 3 == 0:
                idx0 = np.sort(idx0)
            idx_file = None
            if k >= 2:
                idx_file = os.path.join(tmp, f"idx_{ci}.txt")
                np.savetxt(idx_file, idx0 + 1, fmt="%d")
            nw = int(rng.integers(1, w + 1))
            nh = int(rng.integers(1, h + 1))
            b = int(rng.integers(1, 5))
            flips = [["x"], ["y"], ["z"], ["x", "y"], ["z", "x"], "x", "y"][ci % 7]

            ops = []  # (name, callable(ts_input, **orders, output_file), reference in zyx, approx)
            ops.append(("sort/array-angles", lambda t, **k_: tiltstack.sort_tilts_by_angle(t, angles.copy(), **k_), ref_sort(zyx, angles), False))
            ops.append(("sort/list-angles", lambda t, **k_: tiltstack.sort_tilts_by_angle(t, [float(x) for x in angles], **k_), ref_sort(zyx, angles), False))
            ops.append(("sort/file-angles", lambda t, **k_: tiltstack.sort_tilts_by_angle(t, tlt_file, **k_), ref_sort(zyx, angles), False))
            ops.append(("remove/1-based list", lambda t, **k_: tiltstack.remove_tilts(t, [int(i) + 1 for i in idx0], **k_), ref_remove(zyx, idx0), False))
            ops.append(("remove/0-based array", lambda t, **k_: tiltstack.remove_tilts(t, idx0.copy(), numbered_from_1=False, **k_), ref_remove(zyx, idx0), False))
            ops.append(("remove/1-based array", lambda t, **k_: tiltstack.remove_tilts(t, idx0 + 1, numbered_from_1=True, **k_), ref_remove(zyx, idx0), False))
            if idx_file:
                ops.append(("remove/1-based file", lambda t, **k_: tiltstack.remove_tilts(t, idx_file, **k_), ref_remove(zyx, idx0), False))
                ops.append(("remove/0-based file", lambda t, **k_: tiltstack.remove_tilts(t, idx_file, numbered_from_1=False, **k_), ref_remove(zyx, idx0 + 1) if (idx0 + 1).max() < n else None, False))
            ops.append(("crop", lambda t, **k_: tiltstack.crop(t, new_width=nw, new_height=nh, **k_), ref_crop(zyx, nw, nh), False))
            ops.append(("crop/width only", lambda t, **k_: tiltstack.crop(t, new_width=nw, **k_), ref_crop(zyx, nw, None), False))
            ops.append(("crop/none", lambda t, **k_: tiltstack.crop(t, **k_), zyx, False))
            ops.append(("bin", lambda t, **k_: tiltstack.bin(t, b, **k_), ref_bin(zyx, b, dtype), dtype is np.float32))
            ops.append(("flip once", lambda t, **k_: tiltstack.flip_along_axes(t, flips, **k_), ref_flip(zyx, flips), False))

            for name, f, ref, approx in ops:
                if ref is None:
                    continue
                for io_, oo in itertools.product(["xyz", "zyx"], repeat=2):
                    for as_file in (False, True):
                        if as_file and io_ == "zyx" and (ci % 2):
                            continue  # input_order is irrelevant for files; still exercised on even cases
                        for write in (False, True):
                            arr_in = np.array(to_order(zyx, io_), copy=True) if not as_file else None
                            keep = None if as_file else arr_in.copy()
                            t = in_file if as_file else arr_in
                            out_file = os.path.join(tmp, f"out_{next(counter)}.mrc") if write else None
                            tag = f"case {ci} {zyx.shape} {dtype.__name__} {name} in={io_} out={oo} file={as_file} write={write}"
                            res = quiet(f, t, input_order=io_, output_order=oo, output_file=out_file)
                            same(res, to_order(ref, oo), tag + " returned", approx)
                            if write:
                                same(raw_read(out_file), ref, tag + " written", approx)
                                os.remove(out_file)
                            if not as_file:
                                check(np.array_equal(arr_in, keep), tag + " input array modified")
                                # repeated call on the same object
                                res2 = quiet(f, t, input_order=io_, output_order=oo, output_file=None)
                                same(res2, res, tag + " repeated call")
                            else:
                                same(raw_read(in_file), zyx, tag + " input file changed")

            # flipping twice is the identity; even/odd interleave back
            for io_, oo in itertools.product(["xyz", "zyx"], repeat=2):
                for as_file in (False, True):
                    t = in_file if as_file else np.array(to_order(zyx, io_), copy=True)
                    tag = f"case {ci} {zyx.shape} {dtype.__name__} in={io_} out={oo} file={as_file}"
                    for a in ("x", "y", "z"):
                        of = os.path.join(tmp, f"flip_{next(counter)}.mrc")
                        once = quiet(tiltstack.flip_along_axes, t, a, output_file=of, input_order=io_, output_order=oo)
                        twice_arr = quiet(tiltstack.flip_along_axes, once, [a], input_order=oo, output_order=oo)
                        twice_file = quiet(tiltstack.flip_along_axes, of, [a], input_order=io_, output_order=oo)
                        same(twice_arr, to_order(zyx, oo), tag + f" flip {a} twice (array)")
                        same(twice_file, to_order(zyx, oo), tag + f" flip {a} twice (file)")
                        os.remove(of)
                    pref = os.path.join(tmp, f"eo_{next(counter)}") if (ci + as_file) % 2 else None
                    ev, od = quiet(tiltstack.split_stack_even_odd, t, output_file_prefix=pref, input_order=io_, output_order=oo)
                    ev_z, od_z = to_order(ev, oo), to_order(od, oo)  # transpose(2,1,0) is an involution
                    check(ev_z.shape[0] == (n + 1) // 2 and od_z.shape[0] == n // 2, tag + " even/odd counts")
                    back = np.empty_like(zyx)
                    back[0::2] = ev_z
                    back[1::2] = od_z
                    same(back, zyx, tag + " even/odd interleave")
                    check(ev.dtype == zyx.dtype and od.dtype == zyx.dtype, tag + " even/odd dtype")
                    if pref:
                        same(raw_read(pref + "_even.mrc"), zyx[0::2], tag + " even file")
                        same(raw_read(pref + "_odd.mrc"), zyx[1::2], tag + " odd file")
    finally:
        shutil.rmtree(tmp, ignore_errors=True)


def finish():
    if FAILS:
        print(f"FAIL ({len(FAILS)} failed checks)")
        sys.exit(1)
    print("PASS")
    sys.exit(0)


ORIG_READ = """
def read(input_map, transpose=True, data_type=None):
    if isinstance(input_map, str):

        def valid_mrc(filename):
            pattern = r"\\.(mrc|ali|rec|st)(\\.\\d+)?$"
            return bool(re.search(pattern, filename))

        if valid_mrc(input_map):
            data = mrcfile.open(input_map).data
        elif input_map.endswith(".em"):
            data = emfile.read(input_map)[1]
        else:
            raise ValueError("The input map file name", input_map, "is neither em or mrc file!")

        if transpose:
            data = data.transpose(2, 1, 0)
    elif isinstance(input_map, np.ndarray):
        data = np.array(input_map)
    else:
        raise ValueError(f"Input map must be path to valid file or nparray")

    data = np.array(data, copy=True)
    if data_type is not None:
        data = data.astype(data_type)

    return data
"""


def describe(f, *a, **k):
    try:
        r = f(*a, **k)
    except Exception as e:  # same kind of failure is part of the comparison
        return ("raise", type(e).__name__)
    return ("ok", r.shape, r.dtype.str, r.strides, r.flags.writeable, r.flags.owndata, r.flags.c_contiguous,
            r.flags.f_contiguous, r.tobytes())


def compare_read_helper():
    ns = dict(vars(cryomap))
    exec(ORIG_READ, ns)
    orig_read = ns["read"]
    rng = np.random.default_rng(7)
    tmp = tempfile.mkdtemp(prefix="c15a_")
    try:
        n_cmp = 0
        for dt in (np.float32, np.int16, np.int8, np.uint16, np.float16):
            for shape in ((2, 4, 5), (25, 40, 7), (3, 9, 9), (1, 6, 5), (6, 5)):
                if np.issubdtype(dt, np.integer):
                    d = rng.integers(0, 100, size=shape).astype(dt)
                else:
                    d = rng.normal(0, 10, size=shape).astype(dt)
                for ext in (".mrc", ".st", ".ali", ".rec", ".mrc.3"):
                    path = os.path.join(tmp, "f" + ext)
                    if os.path.exists(path):
                        os.remove(path)
                    with mrcfile.new(path, overwrite=True) as m:
                        m.set_data(d)
                    for tr in (False, True):
                        for dtp in (None, np.float32, np.int32):
                            a = describe(cryomap.read, path, transpose=tr, data_type=dtp)
                            b = describe(orig_read, path, transpose=tr, data_type=dtp)
                            check(a == b, f"read helper differs: {dt.__name__} {shape} {ext} transpose={tr} data_type={dtp}")
                            n_cmp += 1
                    # result is private: writing to it must not change the file, the file can be replaced afterwards
                    r = cryomap.read(path, transpose=False)
                    r[...] = 0
                    check(np.array_equal(raw_read(path), d), "file changed through the returned array")
                    raw_write(path, d)
        # em files, arrays, wrong names, missing files
        import emfile
        vol = rng.normal(size=(4, 5, 6)).astype(np.float32)
        emp = os.path.join(tmp, "v.em")
        emfile.write(emp, vol, overwrite=True)
        for tr in (False, True):
            check(describe(cryomap.read, emp, transpose=tr) == describe(orig_read, emp, transpose=tr), "em read differs")
            check(describe(cryomap.read, vol, transpose=tr) == describe(orig_read, vol, transpose=tr), "array read differs")
            check(describe(cryomap.read, vol.transpose(2, 1, 0), transpose=tr) == describe(orig_read, vol.transpose(2, 1, 0), transpose=tr), "array view read differs")
        for bad in (os.path.join(tmp, "x.txt"), os.path.join(tmp, "missing.mrc"), 12, None, ["a"]):
            check(describe(cryomap.read, bad) == describe(orig_read, bad), f"failure mode differs for {bad!r}")
        notmrc = os.path.join(tmp, "broken.mrc")
        open(notmrc, "wb").write(b"0" * 2000)
        import warnings
        with warnings.catch_warnings():
            warnings.simplefilter("ignore")
            check(describe(cryomap.read, notmrc) == describe(orig_read, notmrc), "failure mode differs for a broken mrc file")
        print("read helper comparisons:", n_cmp)
    finally:
        shutil.rmtree(tmp, ignore_errors=True)


if __name__ == "__main__":
    import warnings
    warnings.filterwarnings("ignore", category=SyntaxWarning)
    run_property()
    compare_read_helper()
    finish()
