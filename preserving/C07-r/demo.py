"""C07 / change b: clean_by_distance validates radius and metric column before any work.
Run: cd /tmp/wt11/C07 && /venv/bin/python /tmp/seedsU/C07/b/demo.py
"""
import sys, os
sys.path.insert(0, os.getcwd())
import warnings
warnings.filterwarnings("ignore")
import io, contextlib, tempfile, logging, shutil
import numpy as np
import pandas as pd
from cryocat import cryomotl, tmana, geom
from cryocat.cryomotl import Motl

FAIL = []
COUNT = {"clean_cases": 0, "peak_cases": 0, "compared": 0}


def check(cond, msg):
    if not cond:
        if len(FAIL) < 30:
            print("VIOLATION:", msg)
        FAIL.append(msg)
    return cond


@contextlib.contextmanager
def quiet():
    with contextlib.redirect_stdout(io.StringIO()):
        yield


def frames_equal(a, b):
    """Exact equality of two tables: shape, column order, index, dtypes and values (NaN == NaN)."""
    if a is None or b is None:
        return a is None and b is None
    if list(a.columns) != list(b.columns) or a.shape != b.shape:
        return False
    if not a.index.equals(b.index):
        return False
    if list(a.dtypes) != list(b.dtypes):
        return False
    for c in a.columns:
        x, y = a[c].to_numpy(), b[c].to_numpy()
        if x.dtype.kind in "fc":
            if not np.array_equal(x, y, equal_nan=True):
                return False
        elif not np.array_equal(x, y):
            return False
    return True


def run_catch(fn, *args, **kwargs):
    """Returns ('ok', result) or ('exc', exception type name)."""
    try:
        with quiet():
            r = fn(*args, **kwargs)
        return "ok", r
    except Exception as e:  # noqa
        return "exc", type(e).__name__


# ------------------------------------------------------------------------------------------------------------------
#  Part 1: Motl.clean_by_distance
# ------------------------------------------------------------------------------------------------------------------
UID = "geom4"  # unique row label carried through the cleaning (never used as grouping field or metric)
GROUP_FIELDS = ["tomo_id", "object_id", "class", "geom1", "geom2", "subtomo_mean", "geom5"]


def make_list(rng, n, n_groups, feature, metric, kind):
    """Builds a particle list with clusters. kind is a dict of switches."""
    cols = Motl.motl_columns
    df = pd.DataFrame(0.0, index=range(n), columns=cols)
    # clustered positions
    n_centres = max(1, int(rng.integers(1, max(2, n // 4 + 1))))
    centres = rng.uniform(-60, 200, size=(n_centres, 3))
    which = rng.integers(0, n_centres, size=n)
    spread = kind.get("spread", 4.0)
    pos = centres[which] + rng.normal(0, spread, size=(n, 3))
    if kind.get("int_coords"):
        xyz = np.round(pos)
        shifts = rng.uniform(-0.5, 0.5, size=(n, 3)) if kind.get("shifts", True) else np.zeros((n, 3))
    else:
        xyz = np.floor(pos)
        shifts = pos - xyz if kind.get("shifts", True) else np.zeros((n, 3))
    if kind.get("duplicates") and n > 3:
        # a few particles at exactly the same place (distance 0 < d)
        k = int(rng.integers(1, max(2, n // 5)))
        src = rng.integers(0, n, size=k)
        dst = rng.integers(0, n, size=k)
        xyz[dst] = xyz[src]
        shifts[dst] = shifts[src]
    df[["x", "y", "z"]] = xyz
    df[["shift_x", "shift_y", "shift_z"]] = shifts
    if kind.get("int_coords") and not kind.get("shifts", True):
        df[["x", "y", "z"]] = df[["x", "y", "z"]].astype(int)
    # filler columns
    df["subtomo_id"] = np.arange(1, n + 1)
    df["tomo_id"] = 1
    df["object_id"] = 1
    df["class"] = 1
    df["phi"] = rng.uniform(-180, 180, n)
    df["theta"] = rng.choice([0.0, 180.0, 90.0, 33.3], n)  # poles included
    df["psi"] = rng.uniform(-180, 180, n)
    df["geom3"] = rng.normal(size=n)
    # groups
    gtype = kind.get("group_values", "int")
    if gtype == "int":
        labels = rng.choice(np.arange(-3, 50), size=n_groups, replace=False)
    elif gtype == "float":
        labels = rng.choice(np.arange(-4, 40) * 0.5, size=n_groups, replace=False)
    else:  # big ints, unsorted
        labels = rng.choice(np.array([1000, 7, 10, 2, 315, 99]), size=n_groups, replace=False)
    g = labels[rng.integers(0, n_groups, size=n)]
    g[: min(n, n_groups)] = labels[: min(n, n_groups)]  # every label used if n allows
    rng.shuffle(g)
    df[feature] = g
    # scores
    stype = kind.get("scores", "float")
    if stype == "float":
        s = rng.uniform(-1, 1, n)
    elif stype == "ties":
        s = np.round(rng.uniform(-0.3, 0.3, n), 1) + 0.0  # many equal scores, zeros, negatives
    elif stype == "int":
        s = rng.permutation(n) - n // 2
    else:  # "const"
        s = np.full(n, 0.25)
    df[metric] = s
    if stype == "int":
        df[metric] = df[metric].astype(int)
    # NaN holes in columns that play no role
    if kind.get("nan_holes"):
        for c in ["geom3", "geom5", "subtomo_mean", "geom1"]:
            if c not in (feature, metric):
                holes = rng.random(n) < 0.2
                df.loc[holes, c] = np.nan
    df[UID] = np.arange(n, dtype=float) + 0.5
    # row index
    itype = kind.get("index", "range")
    if itype == "shuffled":
        df.index = rng.permutation(n)
    elif itype == "offset":
        df.index = np.arange(n) * 3 + 11
    elif itype == "reversed":
        df.index = np.arange(n)[::-1]
    elif itype == "repeated":
        df.index = np.zeros(n, dtype=int)
    return df


def positions(df):
    return df[["x", "y", "z"]].to_numpy(dtype=float) + df[["shift_x", "shift_y", "shift_z"]].to_numpy(dtype=float)


def all_dists(p):
    diff = p[:, None, :] - p[None, :, :]
    return np.sqrt((diff ** 2).sum(axis=2))


def pick_distance(rng, df, feature, kind):
    """A radius d > 0 such that no pair of one group lies at exactly d (ties are outside the quantifier)."""
    choice = kind.get("d", "float")
    if choice == "int":
        d = float(rng.integers(1, 12))
    elif choice == "tiny":
        d = 1e-6
    elif choice == "huge":
        d = 1e6
    elif choice == "inf":
        d = np.inf
    else:
        d = float(rng.uniform(0.5, 15))
    for _ in range(50):
        tie = False
        for f in np.unique(df[feature].to_numpy()):
            p = positions(df[df[feature] == f])
            if np.any(np.abs(all_dists(p) - d) < 1e-9):
                tie = True
        if not tie:
            break
        d += 0.01371
    if choice == "int" and not tie and float(d).is_integer() and rng.random() < 0.5:
        d = int(d)
    return d


def reference_kept(df, d, feature, metric, keep_greater):
    """Independent greedy computation; returns per group (set of kept uids, unique?)"""
    res = {}
    for f in pd.unique(df[feature]):
        sub = df[df[feature] == f]
        p = positions(sub)
        s = sub[metric].to_numpy(dtype=float)
        uid = sub[UID].to_numpy()
        unique_scores = len(np.unique(s)) == len(s)
        order = sorted(range(len(s)), key=lambda i: (-s[i] if keep_greater else s[i]))
        near = all_dists(p) < d
        alive = [True] * len(s)
        kept = []
        for i in order:
            if not alive[i]:
                continue
            kept.append(uid[i])
            for k in np.flatnonzero(near[i]):
                if k != i:
                    alive[k] = False
        res[f] = (set(kept), unique_scores)
    return res


def check_clean_property(df_in, df_out, d, feature, metric, keep_greater, tag, with_reference=True):
    ok = True
    uid_in = df_in[UID].to_numpy()
    uid_out = df_out[UID].to_numpy() if df_out.shape[0] else np.array([])
    ok &= check(len(set(uid_out)) == len(uid_out), f"{tag}: a particle appears twice in the result")
    ok &= check(set(uid_out) <= set(uid_in), f"{tag}: result has a particle that was not in the input")
    # remaining rows carry their original values
    src = df_in.set_index(UID, drop=False)
    for c in Motl.motl_columns:
        a = src.loc[uid_out, c].to_numpy(dtype=float) if len(uid_out) else np.array([])
        b = df_out[c].to_numpy(dtype=float) if len(uid_out) else np.array([])
        ok &= check(np.array_equal(a, b, equal_nan=True), f"{tag}: column {c} of the remaining particles changed")
    kept_mask = np.isin(uid_in, uid_out)
    pos = positions(df_in)
    sc = df_in[metric].to_numpy(dtype=float)
    gr = df_in[feature].to_numpy()
    for f in np.unique(gr):
        gi = np.flatnonzero(gr == f)
        ki = gi[kept_mask[gi]]
        ri = gi[~kept_mask[gi]]
        ok &= check(len(ki) >= 1, f"{tag}: group {f} lost all its particles")
        if len(ki) >= 2:
            D = all_dists(pos[ki])
            D[np.diag_indices(len(ki))] = np.inf
            ok &= check(D.min() >= d, f"{tag}: group {f} keeps two particles at distance {D.min()} < {d}")
        if len(ri) and len(ki):
            diff = pos[ri][:, None, :] - pos[ki][None, :, :]
            D = np.sqrt((diff ** 2).sum(axis=2))
            better = (sc[ki][None, :] >= sc[ri][:, None]) if keep_greater else (sc[ki][None, :] <= sc[ri][:, None])
            dominated = ((D < d) & better).any(axis=1)
            ok &= check(dominated.all(), f"{tag}: group {f}: removed particle(s) {uid_in[ri[~dominated]][:3]} have no "
                                         f"remaining neighbour within {d} with an equal or better {metric}")
    if with_reference:
        ref = reference_kept(df_in, d, feature, metric, keep_greater)
        for f, (kept, unique_scores) in ref.items():
            got = set(uid_in[(gr == f) & kept_mask])
            if unique_scores:
                ok &= check(got == kept, f"{tag}: group {f}: kept set differs from the independent greedy computation")
    return ok


def run_clean(fn, df, d, feature, metric, keep_greater, positional=False):
    m = Motl(df.copy())
    with quiet():
        if fn is None:
            if positional:
                r = m.clean_by_distance(d, feature, metric, keep_greater)
            else:
                r = m.clean_by_distance(distance_in_voxels=d, feature_id=feature, metric_id=metric, keep_greater=keep_greater)
        else:
            r = fn(m, d, feature, metric, keep_greater)
    assert r is None
    return m


def clean_cases(seed, n_cases):
    """Generator of (tag, df, d, feature, metric, keep_greater)."""
    rng = np.random.default_rng(seed)
    for it in range(n_cases):
        if it < 12:
            n = [1, 1, 2, 2, 3, 3, 4, 5, 400, 400, 7, 8][it]
        else:
            n = int(rng.choice([int(rng.integers(1, 30)), int(rng.integers(30, 401))], p=[0.6, 0.4]))
        n_groups = int(min(n, rng.integers(1, 5)))
        feature = GROUP_FIELDS[it % len(GROUP_FIELDS)] if it % 3 else "tomo_id"
        metric = "score" if it % 4 else rng.choice([c for c in ["geom2", "subtomo_mean", "geom1"] if c != feature])
        kind = {
            "spread": float(rng.choice([0.5, 2.0, 4.0, 10.0])),
            "int_coords": bool(rng.random() < 0.35),
            "shifts": bool(rng.random() < 0.7),
            "duplicates": bool(rng.random() < 0.25),
            "group_values": str(rng.choice(["int", "float", "big"])),
            "scores": str(rng.choice(["float", "ties", "int", "const"], p=[0.55, 0.2, 0.2, 0.05])),
            "nan_holes": bool(rng.random() < 0.3),
            "index": str(rng.choice(["range", "shuffled", "offset", "reversed", "repeated"])),
            "d": str(rng.choice(["float", "int", "tiny", "huge", "inf"], p=[0.55, 0.3, 0.05, 0.05, 0.05])),
        }
        if feature in ("tomo_id", "object_id", "class") and kind["group_values"] == "float":
            kind["group_values"] = "int"
        df = make_list(rng, n, n_groups, feature, metric, kind)
        d = pick_distance(rng, df, feature, kind)
        keep_greater = bool(it % 2 == 0)
        yield f"clean#{seed}.{it}[n={n},g={n_groups},{feature},{metric},{'hi' if keep_greater else 'lo'},d={d}]", df, d, feature, metric, keep_greater


def test_clean(seed, n_cases, orig_fn=None, extra=None):
    for tag, df, d, feature, metric, keep_greater in clean_cases(seed, n_cases):
        df_before = df.copy()
        m = run_clean(None, df, d, feature, metric, keep_greater, positional=(COUNT["clean_cases"] % 5 == 0))
        check(frames_equal(df, df_before), f"{tag}: the caller's table was modified")
        check_clean_property(df, m.df, d, feature, metric, keep_greater, tag)
        gr = df[feature].to_numpy()
        # different groups never affect each other: every group on its own gives the same remaining set
        if len(np.unique(gr)) > 1:
            for f in np.unique(gr):
                alone = run_clean(None, df[df[feature] == f], d, feature, metric, keep_greater)
                a = set(alone.df[UID].to_numpy())
                b = set(m.df.loc[m.df[feature] == f, UID].to_numpy())
                check(a == b, f"{tag}: group {f} is cleaned differently alone and next to the other groups")
        # repeated call on the same object: a separated set stays as it is
        again = Motl(m.df.copy())
        with quiet():
            again.clean_by_distance(d, feature, metric, keep_greater)
        check(set(again.df[UID].to_numpy()) == set(m.df[UID].to_numpy()), f"{tag}: a second cleaning removes more")
        # second call on a fresh copy gives the same result (no hidden state)
        m2 = run_clean(None, df, d, feature, metric, keep_greater)
        check(frames_equal(m.df, m2.df), f"{tag}: two calls on equal inputs differ")
        if orig_fn is not None:
            mo = run_clean(orig_fn, df, d, feature, metric, keep_greater)
            check(frames_equal(m.df, mo.df), f"{tag}: result differs from the original clean_by_distance")
            COUNT["compared"] += 1
        if extra is not None:
            extra(tag, df, d, feature, metric, keep_greater, m)
        COUNT["clean_cases"] += 1


# ------------------------------------------------------------------------------------------------------------------
#  Part 2: tmana.scores_extract_particles
# ------------------------------------------------------------------------------------------------------------------
TMPDIR = tempfile.mkdtemp(prefix="c07demo_")


def make_maps(rng, shape, n_angles, numbering, score_type, angle_type):
    nvox = int(np.prod(shape))
    if score_type == "int32":
        S = (rng.permutation(nvox).astype(np.int32) - nvox // 3).reshape(shape)  # plateau free, negatives, a zero
    elif score_type == "float32":
        S = rng.permutation(nvox).astype(np.float32).reshape(shape) / np.float32(nvox)  # exact in float32
        S = S - np.float32(0.25)
    else:
        S = rng.random(shape) * 2 - 0.5
        while len(np.unique(S)) != nvox:
            S = rng.random(shape) * 2 - 0.5
    # a smooth bump or two so that neighbouring voxels compete
    A = rng.integers(numbering, numbering + n_angles, size=shape)
    # make sure first and last entries of the list are used
    flat = A.reshape(-1)
    flat[0] = numbering
    flat[-1] = numbering + n_angles - 1
    assert len(np.unique(S)) == nvox
    A = flat.reshape(shape).astype({"float32": np.float32, "int64": np.int64, "int16": np.int16}[angle_type])
    L = np.column_stack([rng.uniform(-180, 180, n_angles), rng.choice([0.0, 180.0, 57.25, 90.0], n_angles),
                         rng.uniform(-180, 180, n_angles)])
    L[0] = [0.0, 0.0, 0.0]
    return S, A, L


def reference_peaks(S, thr, D):
    idx = np.argwhere(S > thr)
    if len(idx) == 0:
        return None
    sc = S[idx[:, 0], idx[:, 1], idx[:, 2]]
    order = np.argsort(-sc.astype(float), kind="stable")
    idx, sc = idx[order], sc[order]
    alive = np.ones(len(idx), dtype=bool)
    peaks = []
    for i in range(len(idx)):
        if not alive[i]:
            continue
        peaks.append(tuple(idx[i]))
        dist = np.sqrt(((idx - idx[i]) ** 2).sum(axis=1).astype(float))
        alive &= ~(dist <= D)
    return peaks


def check_peaks(motl, S, A, L_expected, thr, D, numbering, tomo_id, object_id, tag):
    sup = np.argwhere(S > thr)
    if len(sup) == 0:
        return check(motl is None, f"{tag}: no voxel above the threshold but a list is returned")
    if not check(motl is not None, f"{tag}: voxels above the threshold but nothing returned"):
        return False
    df = motl.df
    ok = True
    p1 = df[["x", "y", "z"]].to_numpy()
    ok &= check(np.array_equal(p1, np.round(p1)), f"{tag}: non-integer peak position")
    p = p1.astype(int) - 1  # 1-based -> voxel
    inside = np.all((p >= 0) & (p < np.array(S.shape)), axis=1)
    if not check(inside.all(), f"{tag}: peak outside the map"):
        return False
    ok &= check(len({tuple(r) for r in p}) == len(p), f"{tag}: a voxel is extracted twice")
    sv = S[p[:, 0], p[:, 1], p[:, 2]]
    ok &= check(np.array_equal(df["score"].to_numpy(), sv), f"{tag}: a peak does not carry its voxel's score")
    ok &= check(bool(np.all(sv > thr)), f"{tag}: a peak does not exceed the threshold")
    ok &= check(np.all(df[["shift_x", "shift_y", "shift_z"]].to_numpy() == 0), f"{tag}: shifts are not zero")
    if len(p) >= 2:
        Dm = all_dists(p.astype(float))
        Dm[np.diag_indices(len(p))] = np.inf
        ok &= check(Dm.min() > D, f"{tag}: two peaks at distance {Dm.min()} <= diameter {D}")
    # domination of every supra-threshold voxel
    ss = S[sup[:, 0], sup[:, 1], sup[:, 2]]
    chunk = max(1, 2_000_000 // max(1, len(p)))
    for a in range(0, len(sup), chunk):
        q = sup[a:a + chunk]
        dist = np.sqrt(((q[:, None, :] - p[None, :, :]) ** 2).sum(axis=2).astype(float))
        dom = ((dist <= D) & (sv[None, :] >= ss[a:a + chunk][:, None])).any(axis=1)
        ok &= check(dom.all(), f"{tag}: supra-threshold voxel {q[~dom][:1]} has no peak within the diameter with an "
                               f"equal or higher score")
    # angles
    ai = A[p[:, 0], p[:, 1], p[:, 2]].astype(int) - numbering
    ok &= check(np.array_equal(df["phi"].to_numpy(), L_expected[ai, 0]), f"{tag}: phi is not the list entry")
    ok &= check(np.array_equal(df["theta"].to_numpy(), L_expected[ai, 1]), f"{tag}: theta is not the list entry")
    ok &= check(np.array_equal(df["psi"].to_numpy(), L_expected[ai, 2]), f"{tag}: psi is not the list entry")
    ok &= check(np.all(df["tomo_id"].to_numpy() == tomo_id), f"{tag}: tomo_id")
    ok &= check(np.all(df["object_id"].to_numpy() == (1 if object_id is None else object_id)), f"{tag}: object_id")
    ok &= check(np.array_equal(df["subtomo_id"].to_numpy(), np.arange(1, len(p) + 1)), f"{tag}: subtomo_id")
    # exact set of peaks (scores are plateau free, so the greedy selection is unique)
    ref = reference_peaks(S, thr, D)
    ok &= check({tuple(r) for r in p} == set(ref), f"{tag}: peaks differ from the independent greedy computation")
    return ok


def peak_cases(seed, n_cases):
    rng = np.random.default_rng(seed)
    fixed_shapes = [(1, 1, 1), (1, 1, 6), (2, 3, 1), (7, 8, 9), (16, 16, 16), (15, 9, 12), (40, 40, 40), (5, 5, 5)]
    for it in range(n_cases):
        if it < len(fixed_shapes):
            shape = fixed_shapes[it]
        else:
            shape = tuple(int(v) for v in rng.integers(1, 25, size=3))
        numbering = int(it % 2)
        order = "zzx" if (it // 2) % 2 else "zxz"
        n_angles = int(rng.integers(1, 40))
        score_type = ["float64", "float32", "int32"][it % 3]
        angle_type = ["float32", "int64", "int16"][(it // 3) % 3]
        S, A, L = make_maps(rng, shape, n_angles, numbering, score_type, angle_type)
        nvox = S.size
        # threshold: a quantile, exactly a voxel's value (strict >), above the maximum, below the minimum
        flat = np.sort(S.reshape(-1))
        mode = it % 7
        max_sup = 2500
        if mode == 5:
            thr = flat[-1]  # nothing exceeds it
        elif mode == 6 and nvox <= max_sup:
            thr = flat[0] - 1  # everything exceeds it
        elif mode == 3:
            thr = flat[max(0, nvox - 1 - int(rng.integers(0, min(nvox, max_sup))))]  # exactly one voxel's score
        else:
            k = int(rng.integers(1, min(nvox, max_sup) + 1))
            lo = flat[nvox - k - 1] if nvox - k - 1 >= 0 else flat[0] - 1
            thr = (float(lo) + float(flat[nvox - k])) / 2
        thr = thr.item() if hasattr(thr, "item") and rng.random() < 0.5 else thr
        D = [1, 2, 3, 5, 2.5, 1.5, float(rng.uniform(0.3, 9)), float(rng.uniform(0.3, 4)), 4, 60.0][it % 10]
        # angle list: array (taken as phi, theta, psi whatever the order) or csv file (zzx lines are phi, psi, theta)
        as_file = order == "zzx" or it % 4 == 0
        if as_file:
            path = os.path.join(TMPDIR, f"angles_{seed}_{it}.csv")
            # three decimals: short decimal strings are read back exactly by the csv reader
            np.savetxt(path, L, delimiter=",", fmt="%.3f")
            ang_arg = path
            L_file = np.array([[float("%.3f" % v) for v in row] for row in L]).reshape(-1, 3)
            L_expected = L_file[:, [0, 2, 1]] if order == "zzx" else L_file
        else:
            ang_arg = L
            L_expected = L
        tomo_id = int(rng.integers(1, 500))
        object_id = None if it % 3 else int(rng.integers(1, 9))
        tag = f"peaks#{seed}.{it}[{shape},{score_type},{angle_type},thr={thr},D={D},num={numbering},{order}]"
        yield tag, S, A, L, ang_arg, L_expected, thr, D, numbering, order, tomo_id, object_id


def test_peaks(seed, n_cases, orig_fn=None):
    for tag, S, A, L, ang_arg, L_expected, thr, D, numbering, order, tomo_id, object_id in peak_cases(seed, n_cases):
        S0, A0, L0 = S.copy(), A.copy(), L.copy()
        kw = dict(object_id=object_id, scores_threshold=thr, angles_order=order, angles_numbering=numbering)
        st, m = run_catch(tmana.scores_extract_particles, S, A, ang_arg, tomo_id, D, **kw)
        if not check(st == "ok", f"{tag}: raised {m}"):
            continue
        check(np.array_equal(S, S0) and np.array_equal(A, A0) and np.array_equal(L, L0), f"{tag}: inputs modified")
        check_peaks(m, S, A, L_expected, thr, D, numbering, tomo_id, object_id, tag)
        # repeated call on the same objects
        st2, m2 = run_catch(tmana.scores_extract_particles, S, A, ang_arg, tomo_id, D, **kw)
        check(st2 == "ok" and frames_equal(None if m is None else m.df, None if m2 is None else m2.df),
              f"{tag}: two calls on the same maps differ")
        if orig_fn is not None:
            sto, mo = run_catch(orig_fn, S, A, ang_arg, tomo_id, D, **kw)
            check(sto == "ok" and frames_equal(None if m is None else m.df, None if mo is None else mo.df),
                  f"{tag}: result differs from the original scores_extract_particles")
            COUNT["compared"] += 1
        COUNT["peak_cases"] += 1


def load_original(module, src, name):
    """Compiles the text of the original function in the namespace of its module."""
    ns = dict(vars(module))
    exec(compile(src, f"<original {name}>", "exec"), ns)
    return ns[name]


def finish():
    shutil.rmtree(TMPDIR, ignore_errors=True)
    print(f"clean_by_distance cases: {COUNT['clean_cases']}, scores_extract_particles cases: {COUNT['peak_cases']}, "
          f"comparisons with the original text: {COUNT['compared']}")
    if FAIL:
        print(f"FAIL ({len(FAIL)} violations)")
        sys.exit(1)
    print("PASS")
    sys.exit(0)


# text of the ORIGINAL function (HEAD of the scratch tree), compiled in the namespace of its module
ORIG_TEXT = r'''def clean_by_distance(
    self,
    distance_in_voxels,
    feature_id,
    metric_id="score",
    keep_greater=True,
    dist_mask=None,
):
    """Cleans `df` by removing particles closer than a given distnace threshold (in voxels).

    Parameters
    ----------
    distance_in_voxels : float
        The distance cutoff in voxels.
    feature_id : str
        The ID of the feature by which the particles are grouped before cleaning.
    metric_id : str, default='score'
        The ID of the metric to decide which particles to keep. Defaults to "score". The particle with the greater
        value is kept.
    keep_greater: bool, default=True
        Whether to keep the particles with great (True) or lower (False) value. Default is True.
    dist_mask : str or ndarray
        Binary mask/map (or path to it) for directional cleaning. If provided the distance_in_voxels is used to
        find all points within this radius and then those points in the region where the mask is 1
        will be cleaned. Defaults to None.

    Returns
    -------
    None

    Notes
    -----
    This method modifies the `df` attribute of the object.

    """

    # Distance cutoff (pixels)
    d_cut = distance_in_voxels

    # Load mask if provided
    if dist_mask is not None:
        nn_stats = nnana.get_nn_stats_within_radius(self, nn_radius=d_cut, feature=feature_id)
        nn_stats_filtered = nnana.filter_nn_radial_stats(nn_stats, dist_mask)

    # Parse tomograms
    features = np.unique(self.get_feature(feature_id))

    # Initialize clean motl
    cleaned_df = pd.DataFrame()

    # Loop through and clean
    for f in features:
        # Parse tomogram
        feature_m = self.get_motl_subset(f, feature_id=feature_id, reset_index=True)
        n_temp_motl = feature_m.df.shape[0]

        # Parse positions
        pos = feature_m.get_coordinates()

        # Parse scores
        temp_scores = feature_m.df[metric_id].values

        # prepare scores
        if keep_greater:
            # Sort scores
            sort_idx = np.argsort(temp_scores)[::-1]
        else:  # lower than
            # Sort scores
            sort_idx = np.argsort(temp_scores)

        # Temporary keep index
        temp_keep = np.ones((n_temp_motl,), dtype=bool)

        # Loop through in order of score
        for j in sort_idx:
            if temp_keep[j]:

                # classic radius-based cleaning
                if dist_mask is None:
                    # Calculate distances
                    dist = geom.point_pairwise_dist(pos[j, :], pos)
                    # Find cutoff
                    d_cut_idx = dist < d_cut

                    # Keep current entry
                    d_cut_idx[j] = False
                else:
                    d_cut_idx = np.arange(feature_m.df.shape[0])
                    subtomo_id = feature_m.df.loc[j, "subtomo_id"]
                    filtered_idx = nn_stats_filtered.loc[
                        nn_stats_filtered["qp_subtomo_id"] == subtomo_id, "nn_motl_idx"
                    ].values
                    d_cut_idx = np.isin(d_cut_idx, filtered_idx)

                # Remove other entries
                temp_keep[d_cut_idx] = False

        # Add entries to main list
        cleaned_df = pd.concat((cleaned_df, feature_m.df.iloc[temp_keep, :]), ignore_index=True)

    print(f"Cleaned {self.df.shape[0] - cleaned_df.shape[0]} particles.")
    self.df = cleaned_df
'''

# ------------------------------------------------------------------------------------------------------------------
#  Change b: clean_by_distance checks radius and metric column first; valid inputs pass through untouched
# ------------------------------------------------------------------------------------------------------------------
orig_clean = load_original(cryomotl, ORIG_TEXT, "clean_by_distance")


def stdout_and_result(fn, df, d, feature, metric, keep_greater):
    m = Motl(df.copy())
    buf = io.StringIO()
    with contextlib.redirect_stdout(buf):
        if fn is None:
            m.clean_by_distance(d, feature, metric_id=metric, keep_greater=keep_greater)
        else:
            fn(m, d, feature, metric_id=metric, keep_greater=keep_greater)
    return buf.getvalue(), m.df


def radius_types(tag, df, d, feature, metric, keep_greater, m):
    """The same radius handed over as other number types gives what the original gives for that very object."""
    variants = [float(d), np.float64(d), np.array(d), np.array([d]), np.float32(d)]
    if float(d).is_integer() and np.isfinite(d):
        variants += [int(d), np.int64(d), np.int32(d), np.uint8(d) if d < 256 else np.int64(d)]
    for v in variants:
        v0 = v.copy() if isinstance(v, np.ndarray) else v
        out_new, df_new = stdout_and_result(None, df, v, feature, metric, keep_greater)
        out_old, df_old = stdout_and_result(orig_clean, df, v, feature, metric, keep_greater)
        check(frames_equal(df_new, df_old), f"{tag}: radius given as {type(v).__name__}: result differs from original")
        check(out_new == out_old, f"{tag}: radius given as {type(v).__name__}: printed text differs from the original")
        check(type(v) is type(v0) and np.array_equal(v, v0), f"{tag}: the radius object was modified")
        if not isinstance(v, np.float32):  # float32(d) is another number than d; all the others are d itself
            check(frames_equal(df_new, m.df), f"{tag}: radius given as {type(v).__name__} cleans differently")
        COUNT["compared"] += 1
    # metric name handed over as numpy string
    out_new, df_new = stdout_and_result(None, df, d, feature, np.str_(metric), keep_greater)
    check(frames_equal(df_new, m.df), f"{tag}: metric name as numpy string cleans differently")


def outside_the_quantifier():
    """Information only (no verdict): what happens for inputs the property does not speak about."""
    rng = np.random.default_rng(5)
    df = make_list(rng, 12, 2, "tomo_id", "score", {})
    rows = []
    for label, args in [("d = 0", (0, "tomo_id", "score")), ("d = -1.5", (-1.5, "tomo_id", "score")),
                        ("d = nan", (float("nan"), "tomo_id", "score")), ("d = [1, 2]", ([1, 2], "tomo_id", "score")),
                        ("unknown metric", (2.0, "tomo_id", "scor")), ("metric = ['score']", (2.0, "tomo_id", ["score"])),
                        ("unknown grouping field", (2.0, "tomo", "score"))]:
        m = Motl(df.copy())
        st, r = run_catch(m.clean_by_distance, *args)
        rows.append(f"    {label}: " + (f"raises {r}" if st == "exc" else f"returns, {m.df.shape[0]} of 12 particles left"))
    print("inputs outside the quantifier (information only):")
    print("\n".join(rows))
    # the empty list stays a valid call (baseline test test_clean_by_distance_empty)
    m = Motl(Motl.create_empty_motl_df())
    st, r = run_catch(m.clean_by_distance, 2, "tomo_id", "score")
    check(st == "ok" and m.df.shape[0] == 0, "empty list: cleaning fails")


test_clean(seed=11, n_cases=160, orig_fn=orig_clean, extra=radius_types)
test_clean(seed=12, n_cases=60, orig_fn=orig_clean)
test_peaks(seed=13, n_cases=40)
outside_the_quantifier()
finish()
