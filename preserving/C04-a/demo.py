import sys, os

sys.path.insert(0, os.getcwd())

import math
import tempfile
import warnings
from fractions import Fraction

warnings.filterwarnings("ignore")

import numpy as np
import pandas as pd
from pandas.testing import assert_frame_equal

from cryocat import cryomotl, starfileio
from cryocat.cryomotl import Motl, StopgapMotl, EmMotl

FOCUS = "C04-a convert_to_sg_motl"

PAIRS = {  # documented renaming, written down independently of StopgapMotl.pairs
    "score": "score",
    "subtomo_id": "subtomo_num",
    "tomo_id": "tomo_num",
    "object_id": "object",
    "x": "orig_x",
    "y": "orig_y",
    "z": "orig_z",
    "shift_x": "x_shift",
    "shift_y": "y_shift",
    "shift_z": "z_shift",
    "phi": "phi",
    "psi": "psi",
    "theta": "the",
    "class": "class",
}
SG_COLUMNS = [
    "motl_idx", "tomo_num", "object", "subtomo_num", "halfset", "orig_x", "orig_y", "orig_z",
    "score", "x_shift", "y_shift", "z_shift", "phi", "psi", "the", "class",
]
assert len(PAIRS) == 14

TMP = tempfile.mkdtemp(prefix="c04demo_")
checks = 0


def ok(cond, msg):
    global checks
    checks += 1
    if not cond:
        print("FAIL:", msg)
        sys.exit(1)


# ----------------------------------------------------------------------------------------------------------------
# copies of the ORIGINAL function texts (HEAD of the scratch tree)
# ----------------------------------------------------------------------------------------------------------------
def orig_sg_df_reset_index(stopgap_df, reset_index=False):
    if reset_index:
        stopgap_df["motl_idx"] = range(1, stopgap_df.shape[0] + 1)
    return stopgap_df


def orig_convert_to_sg_motl(motl_df, reset_index=False):
    stopgap_df = pd.DataFrame(data=np.zeros((motl_df.shape[0], 16)), columns=StopgapMotl.columns)

    for em_key, star_key in StopgapMotl.pairs.items():
        stopgap_df[star_key] = motl_df[em_key].values

    stopgap_df["halfset"] = np.where(motl_df["subtomo_id"].mod(2).eq(0).to_numpy(), "A", "B")
    stopgap_df["motl_idx"] = stopgap_df["subtomo_num"]

    stopgap_df = orig_sg_df_reset_index(stopgap_df, reset_index)

    return stopgap_df


def orig_convert_to_motl(self, stopgap_df, keep_halfsets=False):
    self.sg_df = stopgap_df

    for em_key, star_key in StopgapMotl.pairs.items():
        self.df[em_key] = stopgap_df[star_key]

    if keep_halfsets:
        if stopgap_df["halfset"].nunique() == 2:
            self.df["geom3"] = [1.0 if hs.lower() == "a" else 0.0 for hs in stopgap_df["halfset"]]
            halfset_num = self.df["geom3"].values % 2
            c = 1 if halfset_num[0] == 1 else 2
            subtomo_id_num = [c]
            for i in range(1, self.df.shape[0]):
                if (c % 2 == 1 and halfset_num[i] == 1) or (c % 2 == 0 and halfset_num[i] == 0):
                    c += 2
                else:
                    c += 1
                subtomo_id_num.append(c)

            self.df["geom3"] = self.df["subtomo_id"]
            self.df["subtomo_id"] = subtomo_id_num


def orig_read_in(input_path):
    frames, specifiers, _ = starfileio.Starfile.read(input_path)

    if "data_stopgap_motivelist" not in specifiers:
        raise cryomotl.UserInputError(f"Provided starfile does not contain particle list: {input_path}.")
    else:
        sg_id = starfileio.Starfile.get_specifier_id(specifiers, "data_stopgap_motivelist")
        stopgap_df = frames[sg_id]

    return stopgap_df


def orig_star_write(frames, path, specifiers=None, comments=None, number_columns=True, float_precision=6):
    if specifiers is None:
        specifiers = ["data"] * len(frames)
    if comments is None:
        comments = (None,) * len(frames)

    if len(frames) != len(specifiers) or len(frames) != len(comments) or len(specifiers) != len(comments):
        raise ValueError(
            f"Invalid size of the lists found. "
            f"The sizes are (frames: {len(frames)}), "
            f"(specifiers: {len(specifiers)}), "
            f"and (comments: {len(comments)})."
        )

    for i, f in enumerate(frames):
        frames[i] = f.round(float_precision)

    with open(path, "w") as file:

        def write_with_number(name, number):
            file.write(f"_{name} #{number}\n")

        def write_without_number(name, _):
            file.write(f"_{name}\n")

        def format_value(value):
            return "{:<10}".format(str(value))

        for frame, specifier, comment in zip(frames, specifiers, comments):
            frame = frame.map(format_value) if hasattr(frame, "map") else frame.applymap(format_value)
            stopgap = "stopgap" in specifier
            write_function = write_without_number if not number_columns or stopgap else write_with_number
            if comment is not None:
                for c in comment:
                    file.write(f"\n# {c}")
                file.write("\n")
            file.write(f"\n{specifier}\n\n")
            file.write("loop_\n")
            for index, column in enumerate(frame.columns, 1):
                write_function(column, index)
            if stopgap:
                file.write("\n")

            for row in frame.itertuples(index=False):
                file.write("\t".join(map(str, row)) + "\n")
            file.write("\n")


# ----------------------------------------------------------------------------------------------------------------
# independent helpers
# ----------------------------------------------------------------------------------------------------------------
def parse_star(path_):
    """Minimal independent parser of a single-block loop_ STAR file -> (specifier, columns, list of token rows)."""
    with open(path_) as f:
        lines = [ln.strip() for ln in f.read().split("\n")]
    lines = [ln for ln in lines if ln != ""]
    assert lines[1] == "loop_", lines[:3]
    spec = lines[0]
    cols, rows = [], []
    for ln in lines[2:]:
        if ln.startswith("_"):
            cols.append(ln[1:].split()[0])
        else:
            rows.append(ln.split())
    return spec, cols, rows


def half_up(v):
    q = Fraction(float(v))
    s = -1 if q < 0 else 1
    return float(s * math.floor(abs(q) + Fraction(1, 2)))


def ref_update_coordinates(df):
    out = df.copy()
    for c, s in (("x", "shift_x"), ("y", "shift_y"), ("z", "shift_z")):
        shifted = df[c].to_numpy(dtype=float) + df[s].to_numpy(dtype=float)
        new_c = np.array([half_up(v) for v in shifted])
        out[c] = new_c
        out[s] = shifted - new_c
    return out


def make_motl_df(rng, n, kind):
    data = rng.normal(size=(n, 20)) * rng.choice([1.0, 100.0, 1e4], size=(1, 20))
    df = pd.DataFrame(data, columns=Motl.motl_columns)
    # non-sequential, unordered, unique subtomogram numbers
    df["subtomo_id"] = rng.choice(np.arange(1, 10 * n + 50), size=n, replace=False).astype(float)
    df["tomo_id"] = rng.integers(1, 200, size=n).astype(float)
    df["object_id"] = rng.integers(1, 50, size=n).astype(float)
    df["class"] = rng.integers(-2, 5, size=n).astype(float)
    if kind == "edge":
        # zeros, ties, negative values, large and tiny magnitudes, half-integers
        df["score"] = rng.choice([0.0, -0.0, 0.5, -0.5, 1e-9, -1e-9, 123456.789012, -98765.4321], size=n)
        df["x"] = rng.choice([0.0, 10.5, -10.5, 2.5, 3.5, 1e6 + 0.25, 7.0], size=n)
        df["shift_x"] = rng.choice([0.0, 0.5, -0.5, 0.25, -0.75, 1.0], size=n)
        df["y"] = rng.integers(-500, 500, size=n).astype(float)
        df["shift_y"] = rng.choice([0.5, -0.5, 1.5, -1.5, 0.4999999, -0.4999999], size=n)
        df["phi"] = rng.choice([0.0, 360.0, -180.0, 90.0, 45.1234565, 45.1234575], size=n)
        df["psi"] = df["phi"].to_numpy()[::-1].copy()  # ties between the angle columns
        df["theta"] = rng.choice([0.0, 180.0, 1e-7, 4e-7, 6e-7], size=n)
    if kind == "all_even":
        df["subtomo_id"] = (2 * rng.choice(np.arange(1, 10 * n + 50), size=n, replace=False)).astype(float)
    if kind == "all_odd":
        df["subtomo_id"] = (2 * rng.choice(np.arange(1, 10 * n + 50), size=n, replace=False) + 1).astype(float)
    if kind == "intcols":
        df["subtomo_id"] = df["subtomo_id"].astype(np.int64)
        df["tomo_id"] = df["tomo_id"].astype(np.int32)
        df["class"] = df["class"].astype(np.int64)
    if kind == "shuffled_columns":
        df = df[list(rng.permutation(Motl.motl_columns))]
    return df


def with_index(rng, df, how):
    df = df.copy()
    n = df.shape[0]
    if how == "range":
        return df
    if how == "perm":
        df.index = rng.permutation(n)
    elif how == "offset":
        df.index = np.arange(n) * 3 + 1000
    elif how == "dup":
        df.index = rng.integers(0, max(1, n // 2), size=n)
    elif how == "str":
        df.index = [f"p{i}" for i in rng.permutation(n)]
    return df


def check_sg_frame(sg, src, reset_index, ctx):
    """sg: produced stopgap frame; src: motl-form frame it was produced from (any index)."""
    n = src.shape[0]
    ok(list(sg.columns) == SG_COLUMNS, f"{ctx}: column order {list(sg.columns)}")
    ok(sg.shape == (n, 16), f"{ctx}: shape")
    ok(sg.index.equals(pd.RangeIndex(n)), f"{ctx}: index is not 0..n-1")
    for em, st in PAIRS.items():
        a, b = sg[st].to_numpy(), src[em].to_numpy()
        ok(a.dtype == b.dtype, f"{ctx}: dtype of {st}: {a.dtype} vs {b.dtype}")
        ok(np.array_equal(a, b), f"{ctx}: field {em}->{st} not copied unchanged in order")
    sub = src["subtomo_id"].to_numpy()
    exp_half = np.array(["A" if int(v) % 2 == 0 else "B" for v in sub])
    ok(list(sg["halfset"]) == list(exp_half), f"{ctx}: halfset")
    if reset_index:
        ok(list(sg["motl_idx"]) == list(range(1, n + 1)), f"{ctx}: motl_idx 1..N")
    else:
        ok(np.array_equal(sg["motl_idx"].to_numpy(), sub), f"{ctx}: motl_idx == subtomo number")


def check_motl_from_sg(mdf, sg, ctx, rounded=False):
    """mdf: motl-form frame made from stopgap-form frame sg."""
    ok(list(mdf.columns) == Motl.motl_columns, f"{ctx}: motl columns")
    ok(mdf.shape[0] == sg.shape[0], f"{ctx}: number of particles")
    for em, st in PAIRS.items():
        ok(np.array_equal(mdf[em].to_numpy(), sg[st].to_numpy()), f"{ctx}: field {st}->{em} not copied unchanged")


def check_file(path_, src, reset_index, ctx):
    """Independent parse of the written file against the motl-form frame src that was exported."""
    spec, cols, rows = parse_star(path_)
    n = src.shape[0]
    ok(spec == "data_stopgap_motivelist", f"{ctx}: specifier {spec}")
    ok(cols == SG_COLUMNS, f"{ctx}: file columns {cols}")
    ok(len(rows) == n and all(len(r) == 16 for r in rows), f"{ctx}: file rows")
    col_id = {c: i for i, c in enumerate(cols)}
    for em, st in PAIRS.items():
        got = np.array([float(r[col_id[st]]) for r in rows])
        exp = src[em].to_numpy(dtype=float)
        ok(np.array_equal(got, np.round(exp, 6)), f"{ctx}: file field {st} differs from round(.,6)")
        ok(np.all(np.abs(got - exp) <= 0.5e-6 * (1 + 1e-6) + 4 * np.spacing(np.abs(exp))), f"{ctx}: precision {st}")
    sub = src["subtomo_id"].to_numpy(dtype=float)
    ok([r[col_id["halfset"]] for r in rows] == ["A" if int(v) % 2 == 0 else "B" for v in sub], f"{ctx}: file halfset")
    idx = np.array([float(r[col_id["motl_idx"]]) for r in rows])
    if reset_index:
        ok(np.array_equal(idx, np.arange(1, n + 1)), f"{ctx}: file motl_idx 1..N")
    else:
        ok(np.array_equal(idx, sub), f"{ctx}: file motl_idx == subtomo number")


def check_loaded(mdf, src, ctx):
    ok(mdf.shape[0] == src.shape[0], f"{ctx}: loaded number of particles")
    for em in PAIRS:
        got = mdf[em].to_numpy(dtype=float)
        exp = src[em].to_numpy(dtype=float)
        ok(np.array_equal(got, np.round(exp, 6)), f"{ctx}: loaded field {em} differs from STAR precision value")


# ----------------------------------------------------------------------------------------------------------------
rng = np.random.default_rng(20240604)
sizes = [1, 2, 3, 5, 17, 64, 300]
kinds = ["normal", "edge", "all_even", "all_odd", "intcols", "shuffled_columns"]
indexes = ["range", "perm", "offset", "dup", "str"]

# T1: in-memory export --------------------------------------------------------------------------------------------
for n in sizes:
    for kind in kinds:
        base = make_motl_df(rng, n, kind)
        for how in indexes:
            df = with_index(rng, base, how)
            for reset in (False, True):
                ctx = f"T1 n={n} kind={kind} index={how} reset={reset}"
                before = df.copy(deep=True)
                sg = StopgapMotl.convert_to_sg_motl(df, reset_index=reset) if reset else StopgapMotl.convert_to_sg_motl(df)
                check_sg_frame(sg, before, reset, ctx)
                assert_frame_equal(df, before, check_exact=True)  # input untouched
                ref = orig_convert_to_sg_motl(before.copy(deep=True), reset)
                assert_frame_equal(sg, ref, check_exact=True, check_dtype=True, check_column_type=True)
                checks += 2
                # repeated call on the same object gives the same answer
                sg2 = StopgapMotl.convert_to_sg_motl(df, reset)
                assert_frame_equal(sg, sg2, check_exact=True)
                # the result is independent of the input: changing it must not change the input
                sg2.iloc[:, [1, 5, 8]] = -12345.0
                sg2["halfset"] = "X"
                assert_frame_equal(df, before, check_exact=True)
                checks += 2
                # sg_df_reset_index on its own
                sg3 = StopgapMotl.sg_df_reset_index(sg.copy(), True)
                ok(list(sg3["motl_idx"]) == list(range(1, n + 1)), f"{ctx}: sg_df_reset_index True")
                sg4 = StopgapMotl.sg_df_reset_index(sg.copy(), False)
                assert_frame_equal(sg4, sg, check_exact=True)
                sg5 = StopgapMotl.sg_df_reset_index(sg.copy())
                assert_frame_equal(sg5, sg, check_exact=True)
                checks += 2

# T2: in-memory import (stopgap-form frame -> particle list) and object round trip -------------------------------
for n in sizes:
    for kind in ["normal", "edge", "all_even", "intcols"]:
        base = make_motl_df(rng, n, kind)
        for how in ["range", "perm", "offset", "str"]:
            df = with_index(rng, base, how)
            ctx = f"T2 n={n} kind={kind} index={how}"
            m = StopgapMotl(df)
            # constructor from a motl-form frame: fields unchanged, in order
            for em in PAIRS:
                ok(np.array_equal(m.df[em].to_numpy(), df[em].to_numpy()), f"{ctx}: ctor changed {em}")
            sg = StopgapMotl.convert_to_sg_motl(m.df)
            sg_idx = with_index(rng, sg, how if how != "str" else "perm")
            for frame, tag in ((sg, "plain"), (sg_idx, "reindexed"), (sg.drop(columns=["halfset", "motl_idx"]), "nohalf")):
                frame_before = frame.copy(deep=True)
                m2 = StopgapMotl(frame)
                check_motl_from_sg(m2.df, frame_before, f"{ctx} {tag}")
                ok(m2.df.index.equals(frame_before.index), f"{ctx} {tag}: particle order/index")
                ok(m2.sg_df is frame, f"{ctx} {tag}: sg_df reference")
                assert_frame_equal(frame, frame_before, check_exact=True)
                # compare with the original convert_to_motl on a fresh object
                o = StopgapMotl()
                orig_convert_to_motl(o, frame_before.copy(deep=True))
                assert_frame_equal(m2.df, o.df, check_exact=True, check_dtype=True)
                # explicit method call, on a fresh and on an already filled object (call sequence)
                p = StopgapMotl()
                p.convert_to_motl(frame)
                assert_frame_equal(p.df, o.df, check_exact=True, check_dtype=True)
                p.convert_to_motl(frame)
                assert_frame_equal(p.df, o.df, check_exact=True, check_dtype=True)
                checks += 4
                if "halfset" in frame.columns:
                    for kh in (False, True):
                        o2, p2 = StopgapMotl(), StopgapMotl()
                        orig_convert_to_motl(o2, frame_before.copy(deep=True), keep_halfsets=kh)
                        p2.convert_to_motl(frame, keep_halfsets=kh)
                        assert_frame_equal(p2.df, o2.df, check_exact=True, check_dtype=True)
                        checks += 1
            # filled object + frame with another row labelling: same label-aligned result as the original
            if n > 2 and how == "range":
                o3, p3 = StopgapMotl(df), StopgapMotl(df)
                other = sg.iloc[::-1].iloc[: n - 1]
                orig_convert_to_motl(o3, other.copy(deep=True))
                p3.convert_to_motl(other)
                assert_frame_equal(p3.df, o3.df, check_exact=True, check_dtype=True)
                checks += 1
            # copy constructor
            m3 = StopgapMotl(m2)
            assert_frame_equal(m3.df, m2.df, check_exact=True)
            assert_frame_equal(m3.sg_df, m2.sg_df, check_exact=True)
            # export -> import -> export is the identity on the 14 fields
            back = StopgapMotl.convert_to_sg_motl(StopgapMotl(sg).df)
            assert_frame_equal(back, sg, check_exact=True)
            checks += 3

# T3: via-file paths ----------------------------------------------------------------------------------------------
file_no = 0
for n in [1, 2, 7, 40, 300]:
    for kind in ["normal", "edge", "all_odd", "intcols"]:
        base = make_motl_df(rng, n, kind)
        for how in ["range", "perm", "str"]:
            df = with_index(rng, base, how)
            for update_coord in (False, True):
                for reset in (False, True):
                    ctx = f"T3 n={n} kind={kind} index={how} update={update_coord} reset={reset}"
                    file_no += 1
                    p1 = os.path.join(TMP, f"w{file_no}.star")
                    m = StopgapMotl(df)
                    start = m.df.copy(deep=True)
                    exp_src = ref_update_coordinates(start) if update_coord else start
                    m.write_out(p1, update_coord=update_coord, reset_index=reset)
                    for em in PAIRS:  # object state after the call == exported state
                        ok(np.array_equal(m.df[em].to_numpy(dtype=float), exp_src[em].to_numpy(dtype=float)),
                           f"{ctx}: object field {em} after write_out")
                    check_file(p1, exp_src, reset, ctx)

                    # the same text as the original writer produces from the same frame
                    p_ref = os.path.join(TMP, f"ref{file_no}.star")
                    # (the object's own frame is used here because update_coordinates turns every column into float)
                    text_src = m.df.copy(deep=True)
                    ref_sg = orig_convert_to_sg_motl(text_src.copy(deep=True), reset)
                    ref_sg.fillna(0, inplace=True)
                    ref_list = [ref_sg]
                    orig_star_write(ref_list, p_ref, specifiers=["data_stopgap_motivelist"])
                    ok(open(p1).read() == open(p_ref).read(), f"{ctx}: file text differs from the original writer")

                    # writer called directly: same text, same effect on the list passed in
                    new_list = [orig_convert_to_sg_motl(text_src.copy(deep=True), reset)]
                    p_new = os.path.join(TMP, f"new{file_no}.star")
                    starfileio.Starfile.write(new_list, p_new, specifiers=["data_stopgap_motivelist"])
                    ok(open(p_new).read() == open(p_ref).read(), f"{ctx}: direct write differs")
                    assert_frame_equal(new_list[0], ref_list[0], check_exact=True)
                    checks += 1

                    # load back
                    loaded = StopgapMotl(p1)
                    check_loaded(loaded.df, exp_src, ctx + " load")
                    assert_frame_equal(loaded.sg_df, orig_read_in(p1), check_exact=True)
                    assert_frame_equal(StopgapMotl.read_in(p1), orig_read_in(p1), check_exact=True)
                    o = StopgapMotl()
                    orig_convert_to_motl(o, orig_read_in(p1))
                    assert_frame_equal(loaded.df, o.df, check_exact=True, check_dtype=True)
                    checks += 3
                    ok(list(loaded.sg_df["halfset"]) == ["A" if int(v) % 2 == 0 else "B" for v in exp_src["subtomo_id"]],
                       f"{ctx}: loaded halfset")
                    # second write of the loaded list gives the same file (write -> load -> write fixed point)
                    p2 = os.path.join(TMP, f"w{file_no}_again.star")
                    loaded.write_out(p2, reset_index=reset)
                    ok(open(p2).read() == open(p1).read(), f"{ctx}: write/load/write not a fixed point")

                    if file_no % 4 == 0:
                        # converter functions
                        p3 = os.path.join(TMP, f"conv{file_no}.star")
                        sgm = cryomotl.emmotl2stopgap(df, p3, update_coordinates=update_coord, reset_index=reset)
                        check_file(p3, exp_src, reset, ctx + " emmotl2stopgap")
                        ok(open(p3).read() == open(p1).read(), f"{ctx}: emmotl2stopgap file differs from write_out file")
                        em = cryomotl.stopgap2emmotl(p3)
                        ok(isinstance(em, EmMotl), "stopgap2emmotl type")
                        check_loaded(em.df, exp_src, ctx + " stopgap2emmotl")
                        em_u = cryomotl.stopgap2emmotl(p3, update_coordinates=True)
                        rounded = exp_src.copy()
                        for c in PAIRS:
                            rounded[c] = np.round(exp_src[c].to_numpy(dtype=float), 6)
                        exp_u = ref_update_coordinates(rounded)
                        for c in PAIRS:
                            ok(np.array_equal(em_u.df[c].to_numpy(dtype=float), exp_u[c].to_numpy(dtype=float)),
                               f"{ctx}: stopgap2emmotl(update) field {c}")

# T4: a file without the particle list is rejected as before; other specifiers / numbering unchanged ---------------
other = pd.DataFrame({"a": [1.0, 2.5], "b": ["x", "y"], "c": [3, 4]})
for number_columns in (True, False):
    for comments in (None, [["first", "second"]]):
        pa, pb = os.path.join(TMP, "oa.star"), os.path.join(TMP, "ob.star")
        starfileio.Starfile.write([other.copy()], pa, specifiers=["data_particles"], comments=comments,
                                  number_columns=number_columns)
        orig_star_write([other.copy()], pb, specifiers=["data_particles"], comments=comments,
                        number_columns=number_columns)
        ok(open(pa).read() == open(pb).read(), "T4: generic star text differs")
        for fn in (StopgapMotl.read_in, orig_read_in, StopgapMotl):
            try:
                fn(pa)
                ok(False, "T4: file without particle list accepted")
            except cryomotl.UserInputError:
                checks += 1
pa, pb = os.path.join(TMP, "da.star"), os.path.join(TMP, "db.star")
starfileio.Starfile.write([other.copy(), other.copy()], pa)
orig_star_write([other.copy(), other.copy()], pb)
ok(open(pa).read() == open(pb).read(), "T4: default specifiers text differs")
try:
    starfileio.Starfile.write([other.copy()], pa, specifiers=["a", "b"])
    ok(False, "T4: size mismatch accepted")
except ValueError:
    checks += 1
# a file with two blocks, the particle list second
sg = StopgapMotl.convert_to_sg_motl(make_motl_df(rng, 9, "normal"))
starfileio.Starfile.write([other.copy(), sg.copy()], pa, specifiers=["data_other", "data_stopgap_motivelist"])
assert_frame_equal(StopgapMotl.read_in(pa), orig_read_in(pa), check_exact=True)
check_motl_from_sg(StopgapMotl(pa).df, StopgapMotl.read_in(pa), "T4 two blocks")

print(f"PASS ({FOCUS}; {checks} checks)")
