import sys, os

sys.path.insert(0, os.getcwd())

import io
import contextlib
import tempfile
import warnings
import numpy as np
import pandas as pd

warnings.filterwarnings("ignore")

from cryocat import cryomotl, cryomap, geom, ioutils, tmana
from cryocat.cryomotl import Motl

FAILS = []


def fail(msg):
    FAILS.append(msg)
    print("FAIL:", msg)


def quiet(fn, *a, **k):
    with contextlib.redirect_stdout(io.StringIO()):
        return fn(*a, **k)


# --------------------------------------------------------------------------------------------------------------
# Part 1: Motl.clean_by_distance  --  independent reference + the predicates of the property
# --------------------------------------------------------------------------------------------------------------
COLS = list(Motl.motl_columns)


def make_motl_df(rng, n, n_groups, feature_id, metric_id, clustered=True, integer_scores=False, nan_holes=False):
    df = pd.DataFrame(np.zeros((n, len(COLS))), columns=COLS)
    if clustered:
        n_cent = max(1, n // 6)
        cent = rng.uniform(-50, 150, size=(n_cent, 3))
        pos = cent[rng.integers(0, n_cent, size=n)] + rng.normal(0, 4.0, size=(n, 3))
    else:
        pos = rng.uniform(-20, 60, size=(n, 3))
    base = np.round(pos)
    shifts = pos - base
    df[["x", "y", "z"]] = base
    df[["shift_x", "shift_y", "shift_z"]] = shifts
    df["tomo_id"] = 1.0
    df["object_id"] = 1.0
    df["class"] = 1.0
    df["subtomo_id"] = np.arange(1, n + 1, dtype=float)
    # group labels: not necessarily consecutive, may be negative or fractional
    labels = rng.choice(np.array([-3.0, 0.0, 2.0, 7.0, 11.5, 40.0]), size=n_groups, replace=False)
    df[feature_id] = labels[rng.integers(0, n_groups, size=n)]
    if integer_scores:
        # ties in the score: only the predicates are checked then
        df[metric_id] = rng.integers(-3, 4, size=n).astype(float)
    else:
        df[metric_id] = rng.normal(0, 1, size=n)  # negative values included
    df[["phi", "theta", "psi"]] = rng.uniform(-180, 180, size=(n, 3))
    df.loc[rng.random(n) < 0.15, "theta"] = rng.choice([0.0, 180.0])  # poles
    if nan_holes:
        free = [c for c in ("geom3", "geom4", "geom5", "subtomo_mean") if c not in (feature_id, metric_id)]
        for c in free:
            df.loc[rng.random(n) < 0.3, c] = np.nan
    return df


def positions(df):
    return df[["x", "y", "z"]].to_numpy(dtype=float) + df[["shift_x", "shift_y", "shift_z"]].to_numpy(dtype=float)


def all_dists(p):
    diff = p[:, None, :] - p[None, :, :]
    return np.sqrt((diff * diff).sum(axis=2))


def pick_radius(rng, df, feature_id):
    """a radius d > 0 such that no pair distance inside a group is within 1e-7 of d (exact ties excluded)"""
    p = positions(df)
    D = all_dists(p)
    same = df[feature_id].to_numpy()[:, None] == df[feature_id].to_numpy()[None, :]
    dd = D[same & ~np.eye(len(df), dtype=bool)]
    for _ in range(100):
        d = float(rng.choice([rng.uniform(0.05, 3), rng.uniform(3, 12), rng.uniform(12, 80), rng.uniform(80, 1000)]))
        if dd.size == 0 or np.min(np.abs(dd - d)) > 1e-7:
            return d
    raise RuntimeError("no radius found")


def ref_clean(df, d, feature_id, metric_id, keep_greater):
    """independent greedy suppression, returns the kept rows (group value ascending, original order inside)"""
    parts = []
    for f in sorted(set(df[feature_id].tolist())):
        g = df[df[feature_id] == f]
        p = positions(g)
        s = g[metric_id].to_numpy(dtype=float)
        n = len(g)
        order = sorted(range(n), key=(lambda i: -s[i]) if keep_greater else (lambda i: s[i]))
        D = all_dists(p)
        keep = np.ones(n, dtype=bool)
        for j in order:
            if keep[j]:
                rm = D[j] < d
                rm[j] = False
                keep[rm] = False
        parts.append(g[keep])
    return pd.concat(parts)


def same_rows(a, b):
    if a.shape[0] != b.shape[0]:
        return False
    A = a[COLS].to_numpy(dtype=float)
    B = b[COLS].to_numpy(dtype=float)
    return np.array_equal(A, B, equal_nan=True)


def check_clean_predicates(orig, out, d, feature_id, metric_id, keep_greater, tag):
    # every output row is an input row (identified by subtomo_id) carrying all its values
    o = orig.set_index("subtomo_id", drop=False)
    if out.shape[0] == 0:
        fail(f"{tag}: nothing kept")
        return
    ids = out["subtomo_id"].to_numpy()
    if len(set(ids.tolist())) != len(ids) or not set(ids.tolist()) <= set(o.index.tolist()):
        fail(f"{tag}: output rows are not a subset of the input rows")
        return
    if not same_rows(o.loc[ids], out):
        fail(f"{tag}: a kept row changed its values")
    if list(out.index) != list(range(out.shape[0])):
        fail(f"{tag}: index of the cleaned list is not 0..n-1")
    kept = np.isin(orig["subtomo_id"].to_numpy(), ids)
    p = positions(orig)
    s = orig[metric_id].to_numpy(dtype=float)
    f = orig[feature_id].to_numpy()
    D = all_dists(p)
    same = f[:, None] == f[None, :]
    K = np.where(kept)[0]
    # separated
    sub = D[np.ix_(K, K)].copy()
    sub[~same[np.ix_(K, K)]] = np.inf
    np.fill_diagonal(sub, np.inf)
    if sub.size and sub.min() < d:
        fail(f"{tag}: two remaining particles of one group are closer than d")
    # dominating
    for i in np.where(~kept)[0]:
        better = (s[K] >= s[i]) if keep_greater else (s[K] <= s[i])
        ok = same[i, K] & (D[i, K] < d) & better
        if not ok.any():
            fail(f"{tag}: removed particle {i} has no dominating remaining neighbour in its group")
            break


def run_clean(df, d, feature_id, metric_id, keep_greater):
    m = Motl(df.copy())
    quiet(m.clean_by_distance, d, feature_id, metric_id=metric_id, keep_greater=keep_greater)
    return m


def check_clean_case(rng, n, n_groups, feature_id, metric_id, keep_greater, tag, **kw):
    df = make_motl_df(rng, n, n_groups, feature_id, metric_id, **kw)
    if rng.random() < 0.5:  # non-default row index
        df.index = rng.permutation(n) * 3 + 5
    d = pick_radius(rng, df, feature_id)
    before = df.copy()
    m = run_clean(df, d, feature_id, metric_id, keep_greater)
    out = m.df
    if not same_rows(before, df) or list(before.index) != list(df.index):
        fail(f"{tag}: the caller's table was modified")
    check_clean_predicates(df, out, d, feature_id, metric_id, keep_greater, tag)
    if not kw.get("integer_scores", False):
        ref = ref_clean(df, d, feature_id, metric_id, keep_greater)
        if not same_rows(ref, out):
            fail(f"{tag}: differs from the independent greedy result ({ref.shape[0]} vs {out.shape[0]} rows)")
    # groups do not affect each other: every group cleaned alone gives the same rows
    for f in sorted(set(df[feature_id].tolist())):
        alone = run_clean(df[df[feature_id] == f], d, feature_id, metric_id, keep_greater).df
        part = out[out[feature_id] == f]
        if not same_rows(alone, part):
            fail(f"{tag}: group {f} cleaned alone differs from its part of the joint result")
    # repeated call on the same object: nothing more is removed
    quiet(m.clean_by_distance, d, feature_id, metric_id=metric_id, keep_greater=keep_greater)
    if not same_rows(out, m.df):
        fail(f"{tag}: second call on the cleaned list removed or changed rows")
    return df, d


def part1(seed=1234, n_random=70):
    rng = np.random.default_rng(seed)
    feats = ["tomo_id", "object_id", "class", "geom1", "geom2", "subtomo_mean"]
    mets = ["score", "geom4", "geom5"]
    # edge cases: single row, two rows, all in one cluster, 400 rows
    for kg in (True, False):
        check_clean_case(rng, 1, 1, "tomo_id", "score", kg, f"single-row kg={kg}")
        check_clean_case(rng, 2, 1, "tomo_id", "score", kg, f"two-row kg={kg}")
        check_clean_case(rng, 2, 2, "object_id", "score", kg, f"two-row two groups kg={kg}")
        check_clean_case(rng, 400, 4, "tomo_id", "score", kg, f"400 rows kg={kg}")
        check_clean_case(rng, 60, 3, "class", "score", kg, f"score ties kg={kg}", integer_scores=True)
        check_clean_case(rng, 80, 2, "geom1", "geom4", kg, f"NaN holes kg={kg}", nan_holes=True)
    for t in range(n_random):
        n = int(rng.choice([rng.integers(1, 8), rng.integers(8, 60), rng.integers(60, 200)]))
        ng = int(rng.integers(1, 5))
        fid = feats[int(rng.integers(0, len(feats)))]
        mid = mets[int(rng.integers(0, len(mets)))]
        kg = bool(rng.integers(0, 2))
        check_clean_case(
            rng, n, min(ng, 4), fid, mid, kg, f"random#{t} n={n} g={ng} {fid}/{mid} kg={kg}",
            clustered=bool(rng.integers(0, 2)), nan_holes=bool(rng.integers(0, 2)),
        )
    # integer lattice with a radius strictly between two lattice distances (no exact ties)
    g = np.array([[x, y, z] for x in range(5) for y in range(5) for z in range(4)], dtype=float)
    df = pd.DataFrame(np.zeros((len(g), len(COLS))), columns=COLS)
    df[["x", "y", "z"]] = g
    df["tomo_id"] = np.where(g[:, 0] < 2, 3.0, 9.0)
    df["subtomo_id"] = np.arange(1, len(g) + 1, dtype=float)
    df["score"] = rng.permutation(len(g)).astype(float)
    for d in (0.5, 1.2, 1.5, 2.1, 2.5, 3.3):
        for kg in (True, False):
            out = run_clean(df, d, "tomo_id", "score", kg).df
            check_clean_predicates(df, out, d, "tomo_id", "score", kg, f"lattice d={d} kg={kg}")
            if not same_rows(ref_clean(df, d, "tomo_id", "score", kg), out):
                fail(f"lattice d={d} kg={kg}: differs from the independent greedy result")


# --------------------------------------------------------------------------------------------------------------
# Part 2: tmana.scores_extract_particles  --  independent reference + the predicates of the property
# --------------------------------------------------------------------------------------------------------------
def make_maps(rng, shape, n_angles, numbering, dtype=np.float64, smooth=False):
    while True:
        sc = rng.normal(0.0, 1.0, size=shape)
        if smooth:
            from scipy.ndimage import gaussian_filter

            sc = gaussian_filter(sc, 1.0) * 5
        if np.unique(sc.astype(dtype)).size != sc.size:
            # values collide in the map's precision: keep the landscape, spread the values evenly (rank transform)
            rank = np.argsort(np.argsort(sc.ravel(), kind="stable"), kind="stable").reshape(shape)
            sc = rank / float(sc.size) * 8.0 - 4.0
        sc = sc.astype(dtype)
        if np.unique(sc).size == sc.size:  # plateau-free
            break
    am = rng.integers(numbering, numbering + n_angles, size=shape).astype(dtype)
    al = rng.uniform(-180, 180, size=(n_angles, 3))
    al[:, 1] = rng.uniform(0, 180, size=n_angles)
    al[0] = [0.0, 0.0, 0.0]  # poles
    if n_angles > 1:
        al[-1] = [90.0, 180.0, -90.0]
    if n_angles > 2:
        al[1] = [-180.0, 0.0, 180.0]
    return sc, am, np.round(al, 3)


def ref_peaks(sc, thr, diam):
    idx = np.argwhere(sc > thr)
    if idx.shape[0] == 0:
        return None
    vals = sc[idx[:, 0], idx[:, 1], idx[:, 2]]
    order = np.argsort(-vals.astype(np.float64), kind="stable")
    idx = idx[order]
    vals = vals[order]
    alive = np.ones(len(idx), dtype=bool)
    peaks = []
    d2lim = float(diam) * float(diam)
    for i in range(len(idx)):
        if not alive[i]:
            continue
        peaks.append(i)
        diff = (idx - idx[i]).astype(np.float64)
        d2 = (diff * diff).sum(axis=1)
        alive[(d2 <= d2lim)] = False
    return idx[peaks], vals[peaks]


def check_peaks(sc, am, expected_angles, numbering, thr, diam, motl, tomo_id, object_id, tag):
    ref = ref_peaks(sc, thr, diam)
    if ref is None:
        if motl is not None:
            fail(f"{tag}: peaks returned although nothing exceeds the threshold")
        return
    if motl is None:
        fail(f"{tag}: None returned although voxels exceed the threshold")
        return
    df = motl.df
    n = df.shape[0]
    pos1 = df[["x", "y", "z"]].to_numpy(dtype=float)
    vox = np.round(pos1).astype(int) - 1
    if not np.array_equal(vox + 1, pos1) or (vox < 0).any() or (vox >= np.array(sc.shape)).any():
        fail(f"{tag}: positions are not 1-based voxel positions")
        return
    s = df["score"].to_numpy(dtype=np.float64)
    vs = sc[vox[:, 0], vox[:, 1], vox[:, 2]].astype(np.float64)
    if not np.array_equal(s, vs):
        fail(f"{tag}: a peak does not carry its voxel's score")
    if not (vs > thr).all():
        fail(f"{tag}: a peak does not exceed the threshold")
    diff = (vox[:, None, :] - vox[None, :, :]).astype(float)
    d2 = (diff * diff).sum(axis=2)
    np.fill_diagonal(d2, np.inf)
    if n > 1 and not (d2 > float(diam) * float(diam)).all():
        fail(f"{tag}: two peaks are not farther apart than the diameter")
    # every supra-threshold voxel is dominated
    idx = np.argwhere(sc > thr)
    vals = sc[idx[:, 0], idx[:, 1], idx[:, 2]].astype(np.float64)
    dd = ((idx[:, None, :] - vox[None, :, :]).astype(float) ** 2).sum(axis=2)
    dom = ((dd <= float(diam) * float(diam)) & (vs[None, :] >= vals[:, None])).any(axis=1)
    if not dom.all():
        fail(f"{tag}: a supra-threshold voxel has no dominating peak within the diameter")
    # angles
    ai = am[vox[:, 0], vox[:, 1], vox[:, 2]].astype(int) - numbering
    exp = expected_angles[ai]
    got = df[["phi", "theta", "psi"]].to_numpy(dtype=float)
    if not np.array_equal(got, exp):
        fail(f"{tag}: Euler angles differ from the angle-list entry of the voxel")
    # exact agreement with the independent greedy extraction (order: descending score)
    rvox, rvals = ref
    if rvox.shape[0] != n or not np.array_equal(rvox, vox):
        fail(f"{tag}: peaks differ from the independent greedy extraction ({rvox.shape[0]} vs {n})")
    # bookkeeping columns
    if not (df["tomo_id"] == tomo_id).all() or not (df["object_id"] == (1 if object_id is None else object_id)).all():
        fail(f"{tag}: tomo_id / object_id wrong")
    if not np.array_equal(df["subtomo_id"].to_numpy(dtype=float), np.arange(1, n + 1, dtype=float)):
        fail(f"{tag}: subtomo_id is not 1..n")
    if not (df["class"] == 1).all():
        fail(f"{tag}: class is not 1")
    rest = [c for c in COLS if c not in ("x", "y", "z", "score", "phi", "theta", "psi", "tomo_id", "object_id", "subtomo_id", "class")]
    if not (df[rest].to_numpy(dtype=float) == 0).all():
        fail(f"{tag}: other columns are not zero")
    if sorted(df.columns) != sorted(COLS) or list(df.index) != list(range(n)):
        fail(f"{tag}: table layout wrong")


def zzx_view(al):
    """what a zzx angle list file (columns phi, psi, theta) holds for the zxz triples al"""
    return al[:, [0, 2, 1]]


def pick_threshold(rng, sc, max_supra=1500):
    flat = np.sort(sc.ravel().astype(np.float64))
    lo = flat[max(0, flat.size - max_supra)]
    choice = rng.integers(0, 4)
    if choice == 0:
        return float(flat[-1]) + 1.0  # nothing exceeds
    if choice == 1:
        return float(flat[-1 - int(rng.integers(0, min(5, flat.size)))])  # a value of the map itself (strict >)
    # representable in the map's own precision, so that "exceeds" means the same in every precision
    return float(sc.dtype.type(rng.uniform(lo, flat[-1])))


def part2_arrays(seed=99, n_random=60, extract=None):
    extract = extract or tmana.scores_extract_particles
    rng = np.random.default_rng(seed)
    shapes = [(1, 1, 1), (2, 3, 1), (5, 5, 5), (6, 7, 8), (9, 4, 11), (12, 12, 12), (16, 15, 14), (21, 20, 19), (40, 40, 40)]
    for t in range(n_random):
        shape = shapes[t % len(shapes)]
        numbering = int(rng.integers(0, 2))
        order = ["zxz", "zzx"][int(rng.integers(0, 2))]
        n_angles = int(rng.choice([1, 2, 5, 50]))
        dtype = [np.float64, np.float32][int(rng.integers(0, 2))]
        sc, am, al = make_maps(rng, shape, n_angles, numbering, dtype=dtype, smooth=bool(rng.integers(0, 2)))
        thr = pick_threshold(rng, sc, max_supra=400 if shape[0] == 40 else 1500)
        diam = float(rng.choice([rng.uniform(0.3, 1.0), rng.integers(1, 8), rng.uniform(1, 12), 5.0, 50.0]))
        tomo_id = int(rng.integers(1, 500))
        object_id = None if rng.random() < 0.3 else int(rng.integers(1, 20))
        sc0, am0, al0 = sc.copy(), am.copy(), al.copy()
        # an array angle list is taken as it is (phi, theta, psi in its columns) for either order
        m = quiet(
            extract, sc, am, al, tomo_id, diam, object_id=object_id, scores_threshold=thr,
            angles_order=order, angles_numbering=numbering,
        )
        tag = f"arrays#{t} {shape} {dtype.__name__} thr={thr:.4f} diam={diam:.3f} num={numbering} {order}"
        check_peaks(sc, am, al, numbering, thr, diam, m, tomo_id, object_id, tag)
        if not (np.array_equal(sc, sc0) and np.array_equal(am, am0) and np.array_equal(al, al0)):
            fail(f"{tag}: an input array was modified")
        if t % 7 == 0:  # repeated call on the same objects
            m2 = quiet(
                extract, sc, am, al, tomo_id, diam, object_id=object_id, scores_threshold=thr,
                angles_order=order, angles_numbering=numbering,
            )
            if (m is None) != (m2 is None) or (m is not None and not same_rows(m.df, m2.df)):
                fail(f"{tag}: repeated call gives a different result")


def write_inputs(tmp, sc, am, al, order, ext):
    """score / angle maps written as float32 map files, the angle list as csv in the column order of `order`"""
    sp = os.path.join(tmp, "scores" + ext)
    ap = os.path.join(tmp, "angles" + ext)
    lp = os.path.join(tmp, "anglist.csv")
    cryomap.write(sc, sp, data_type=np.single)
    cryomap.write(am, ap, data_type=np.single)
    cols = zzx_view(al) if order == "zzx" else al
    with open(lp, "w") as fh:
        for r in cols:
            fh.write(",".join(repr(float(v)) for v in r) + "\n")
    return sp, ap, lp


def part2_files(seed=7, n_random=16, wrap=str, extract=None):
    """the same property with the maps and the angle list given as files; `wrap` turns the path text into the
    argument that is passed (str by default)"""
    extract = extract or tmana.scores_extract_particles
    rng = np.random.default_rng(seed)
    shapes = [(4, 5, 6), (7, 7, 7), (10, 9, 8), (13, 14, 12), (2, 2, 9)]
    with tempfile.TemporaryDirectory() as tmp:
        for t in range(n_random):
            shape = shapes[t % len(shapes)]
            numbering = t % 2
            order = ["zxz", "zzx"][(t // 2) % 2]
            ext = [".em", ".mrc", ".rec"][t % 3]
            sc, am, al = make_maps(rng, shape, int(rng.choice([1, 3, 30])), numbering, dtype=np.float32)
            thr = pick_threshold(rng, sc)
            diam = float(rng.choice([rng.integers(1, 6), rng.uniform(0.5, 9)]))
            sp, ap, lp = write_inputs(tmp, sc, am, al, order, ext)
            m = quiet(
                extract, wrap(sp), wrap(ap), wrap(lp), 17, diam, object_id=4, scores_threshold=thr,
                angles_order=order, angles_numbering=numbering,
            )
            tag = f"files#{t} {shape} {ext} thr={thr:.4f} diam={diam:.3f} num={numbering} {order} {wrap.__name__}"
            check_peaks(sc, am, al, numbering, thr, diam, m, 17, 4, tag)
            # mixed: file maps, array list
            m = quiet(
                extract, wrap(sp), am, al, 17, diam, object_id=4, scores_threshold=thr,
                angles_order=order, angles_numbering=numbering,
            )
            check_peaks(sc, am, al, numbering, thr, diam, m, 17, 4, tag + " mixed")


def finish():
    if FAILS:
        print(f"{len(FAILS)} failure(s)")
        print("FAIL")
        sys.exit(1)
    print("PASS")
    sys.exit(0)


# --------------------------------------------------------------------------------------------------------------
# Part 3 (change c): Motl.fill / Motl.get_coordinates of the tree against the original texts of the helpers
# --------------------------------------------------------------------------------------------------------------
def fill_original(self, input_dict):
    for key, value in input_dict.items():
        if key in self.df.columns:
            self.df[key] = value
        elif key == "coord":
            self.df[["x", "y", "z"]] = value
        elif key == "angles":
            self.df[["phi", "theta", "psi"]] = value
        elif key == "shifts":
            self.df[["shift_x", "shift_y", "shift_z"]] = value

    self.df = self.df.fillna(0.0)


def get_coordinates_original(self, tomo_number=None):
    if tomo_number is None:
        coord = self.df.loc[:, ["x", "y", "z"]].values + self.df.loc[:, ["shift_x", "shift_y", "shift_z"]].values
    else:
        coord = (
            self.df.loc[self.df.loc[:, "tomo_id"] == tomo_number, ["x", "y", "z"]].values
            + self.df.loc[
                self.df.loc[:, "tomo_id"] == tomo_number,
                ["shift_x", "shift_y", "shift_z"],
            ].values
        )

    return coord


def same_frame(a, b):
    if list(a.columns) != list(b.columns) or list(a.index) != list(b.index):
        return False
    if [str(t) for t in a.dtypes] != [str(t) for t in b.dtypes]:
        return False
    for c in a.columns:
        x = a[c].to_numpy()
        y = b[c].to_numpy()
        try:
            if not np.array_equal(x, y, equal_nan=True):
                return False
        except TypeError:
            if not (x == y).all():
                return False
    return True


def outcome(fn, *a, **k):
    try:
        return ("ok", fn(*a, **k))
    except Exception as e:
        return ("raise", type(e), str(e))


def part3(seed=31):
    rng = np.random.default_rng(seed)

    # ---- fill ----
    def dicts(n):
        xyz = rng.normal(0, 40, size=(n, 3))
        ang = rng.uniform(-180, 180, size=(n, 3))
        ang[: max(1, n // 3), 1] = 0.0  # poles
        hole = rng.normal(size=n)
        if n:
            hole[rng.integers(0, n)] = np.nan
        yield {"x": xyz[:, 0] + 1, "y": xyz[:, 1] + 1, "z": xyz[:, 2] + 1, "score": rng.normal(size=n), "class": 1,
               "tomo_id": 12, "object_id": 3, "phi": ang[:, 0], "theta": ang[:, 1], "psi": ang[:, 2],
               "subtomo_id": np.arange(1, n + 1)}  # the call made by scores_extract_particles
        yield {"coord": xyz, "angles": ang, "shifts": rng.normal(size=(n, 3)), "score": hole}
        yield {"coord": xyz.tolist(), "tomo_id": 4.0, "angles": 0, "shifts": [0.5, -0.25, 0.125]}
        yield {"coord": pd.DataFrame(xyz), "score": pd.Series(hole), "geom1": hole}
        yield {"angles": ang, "phi": 7.0, "coord": xyz, "x": -1.0}  # later keys overwrite earlier ones
        yield {"x": 1.0, "angles": ang}
        yield {"unknown": 5, "coords": xyz, "angle": ang, "shift": 1, "COORD": xyz, "score": 0.5}  # ignored keys
        yield {"coord": xyz.astype(np.float32), "class": np.arange(n), "subtomo_id": np.arange(n).astype(np.int32)}
        yield {"coord": xyz[:, :2]}  # wrong width: both must refuse (or both accept) alike
        yield {"shifts": rng.normal(size=(n + 1, 3))}  # wrong length
        yield {}

    for n in (0, 1, 2, 5, 37):
        for start in ("empty", "filled", "filled-index"):
            for i, d in enumerate(dicts(n)):
                def fresh():
                    if start == "empty":
                        return Motl()
                    df = make_motl_df(np.random.default_rng(n + 100), max(n, 0), 1, "tomo_id", "score") if n else Motl.create_empty_motl_df()
                    if start == "filled-index" and n:
                        df.index = np.arange(n)[::-1] * 2 + 3
                    return Motl(df)

                m1, m2 = fresh(), fresh()
                o1 = outcome(fill_original, m1, d)
                o2 = outcome(m2.fill, d)
                if o1[0] != o2[0] or (o1[0] == "raise" and o1[1:] != o2[1:]):
                    fail(f"fill n={n} {start} dict#{i}: tree {o2[:2]} vs original {o1[:2]}")
                elif not same_frame(m1.df, m2.df):
                    fail(f"fill n={n} {start} dict#{i}: table differs from the original helper")
                elif o2[0] == "ok":  # repeated call on the same object
                    o1 = outcome(fill_original, m1, d)
                    o2 = outcome(m2.fill, d)
                    if o1[0] != o2[0] or not same_frame(m1.df, m2.df):
                        fail(f"fill n={n} {start} dict#{i}: second call differs from the original helper")
    # the constants of the class (if the tree has them) must not be changed by the calls
    for name, exp in (("coord_columns", ["x", "y", "z"]), ("shift_columns", ["shift_x", "shift_y", "shift_z"]),
                      ("angle_columns", ["phi", "theta", "psi"])):
        if hasattr(Motl, name) and list(getattr(Motl, name)) != exp:
            fail(f"Motl.{name} changed")
    if Motl.motl_columns != COLS:
        fail("Motl.motl_columns changed")

    # ---- get_coordinates ----
    for n in (0, 1, 2, 9, 120):
        for variant in range(6):
            if n == 0:
                df = Motl.create_empty_motl_df()
            else:
                df = make_motl_df(rng, n, min(n, 3), "tomo_id", "score", nan_holes=bool(variant % 2))
            if n and variant == 2:
                df.index = rng.permutation(n) + 10
            if n and variant == 3:
                df = df.astype({"x": int, "y": int, "z": int, "tomo_id": int})
            if n and variant == 4:
                df.loc[df.index[0], "shift_y"] = np.nan  # a hole in the coordinates themselves
                df = df[sorted(df.columns)]  # other column order
            if n and variant == 5:
                df = df.astype(np.float32)
            m = Motl(df)
            keep = df.copy()
            numbers = [None, 2.0, 2, 7, 40.0, -3, -3.0, 11.5, 999, np.float64(0.0), np.int64(7)]
            for tn in numbers + numbers[:3]:  # repeated calls on the same object
                o1 = outcome(get_coordinates_original, m, tn)
                o2 = outcome(m.get_coordinates, tn)
                ok = o1[0] == o2[0] == "ok" and type(o1[1]) is type(o2[1]) and o1[1].shape == o2[1].shape \
                    and o1[1].dtype == o2[1].dtype and np.array_equal(o1[1], o2[1], equal_nan=True)
                if not ok:
                    fail(f"get_coordinates n={n} variant={variant} tomo={tn!r}: tree differs from the original helper")
                    continue
                got = o2[1]
                sel = df if tn is None else df[df["tomo_id"] == tn]
                exp = sel[["x", "y", "z"]].to_numpy() + sel[["shift_x", "shift_y", "shift_z"]].to_numpy()
                if got.shape != exp.shape or not np.array_equal(got, exp, equal_nan=True):
                    fail(f"get_coordinates n={n} variant={variant} tomo={tn!r}: not position + shift of the rows")
                if got.size:
                    got[...] = -1.0  # the result belongs to the caller, the table must not follow
            if not same_frame(keep, m.df):
                fail(f"get_coordinates n={n} variant={variant}: the table was modified")


if __name__ == "__main__":
    part1()
    part2_arrays()
    part2_files()
    part3()
    finish()
