"""C14 -- map rotation / placement / windowing / symmetrisation share one active convention.

Checks the property against independent computations (hand-written zxz matrices, scipy.ndimage.map_coordinates with
explicitly computed pull-back coordinates, explicit window arithmetic) and compares the functions of the imported
cryocat with verbatim copies of the original functions (kept below as text) on the same inputs.

Run as:  cd <worktree> && /venv/bin/python demo.py        (prints PASS, exit 0)
"""
import sys, os

sys.path.insert(0, os.getcwd())
import warnings

warnings.filterwarnings("ignore")
import inspect
import itertools
import numpy as np
import pandas as pd
from scipy.ndimage import map_coordinates, spline_filter
from scipy.spatial.transform import Rotation

from cryocat import cryomap, cryomotl

CHANGE = "c"  # which change this demo accompanies (selects the extra original-vs-current comparisons)

# --------------------------------------------------------------------------------------------------------------------
# verbatim copies of the original functions (HEAD 917e6f2)
# --------------------------------------------------------------------------------------------------------------------
ORIG_CRYOMAP = '''
def rotate(
    input_map,
    rotation=None,
    rotation_angles=None,
    coord_space="zxz",
    transpose_rotation=False,
    degrees=True,
    spline_order=3,
    output_name=None,
):
    input_map = read(input_map)
    # create translation to the center of the box
    T = np.eye(4)
    structure_center = np.asarray(input_map.shape) // 2
    T[:3, -1] = structure_center

    rot_matrix = np.eye(4)

    if rotation is not None:
        if transpose_rotation:
            rot_matrix[0:3, 0:3] = rotation.as_matrix().T
        else:
            rot_matrix[0:3, 0:3] = rotation.as_matrix()

    elif rotation_angles is not None:
        rot = srot.from_euler(coord_space, rotation_angles, degrees=degrees)
        rot_matrix[0:3, 0:3] = rot.as_matrix().T

    else:
        raise ValueError("Either rotation_angles or rotation has to be specified!!!")

    final_matrix = T @ rot_matrix @ np.linalg.inv(T)

    rot_struct = np.empty(input_map.shape)
    affine_transform(input=input_map, output=rot_struct, matrix=final_matrix, order=spline_order)

    if output_name is not None:
        write(rot_struct, output_name, data_type=np.single)

    return rot_struct


def crop(input_map, new_size, output_file=None, crop_coord=None):
    input_map = read(input_map)

    new_size = cryomask.get_correct_format(new_size)

    if crop_coord is None:
        crop_coord = cryomask.get_correct_format(input_map.shape) // 2
    else:
        crop_coord = cryomask.get_correct_format(crop_coord)

    vs, ve, _, _ = get_start_end_indices(crop_coord, input_map.shape, new_size)

    cropped_volume = input_map[vs[0] : ve[0], vs[1] : ve[1], vs[2] : ve[2]]

    if output_file is not None:
        write(cropped_volume, output_file, data_type=np.single)

    return cropped_volume


def get_start_end_indices(coord, volume_shape, subvolume_shape):
    subvolume_shape = np.asarray(subvolume_shape)
    subvolume_half = subvolume_shape / 2

    volume_start = np.floor(coord - subvolume_half).astype(int)
    volume_end = (volume_start + subvolume_shape).astype(int)

    volume_start_clip = np.minimum(np.maximum([0, 0, 0], volume_start), np.asarray(volume_shape))
    volume_end_clip = np.maximum(np.minimum(np.asarray(volume_shape), volume_end), [0, 0, 0])

    subvolume_start = volume_start_clip - volume_start
    subvolume_end = volume_end - volume_start
    subvolume_end = volume_end_clip - volume_end + subvolume_end

    subvolume_start = np.minimum(np.maximum([0, 0, 0], subvolume_start), subvolume_shape)
    subvolume_end = np.maximum(np.minimum(subvolume_shape, subvolume_end), [0, 0, 0])

    return volume_start_clip, volume_end_clip, subvolume_start, subvolume_end


def extract_subvolume(volume, coordinates, subvolume_shape, enforce_shape=False, output_file=None):
    vs, ve, ss, se = get_start_end_indices(coordinates, volume.shape, subvolume_shape)
    if enforce_shape is not False:
        subvolume = np.full(volume.shape, np.mean(volume))
        subvolume[vs[0] : ve[0], vs[1] : ve[1], vs[2] : ve[2]] = volume[vs[0] : ve[0], vs[1] : ve[1], vs[2] : ve[2]]
    else:
        subvolume = np.full(subvolume_shape, np.mean(volume))
        subvolume[ss[0] : se[0], ss[1] : se[1], ss[2] : se[2]] = volume[vs[0] : ve[0], vs[1] : ve[1], vs[2] : ve[2]]

    if output_file is not None:
        write(subvolume, output_file, data_type=np.single)

    return subvolume


def place_object(input_object, motl, volume_shape=None, volume=None, feature_to_color="object_id"):
    if not isinstance(input_object, list):
        input_object = read(input_object)

    if volume is not None:
        object_container = read(volume)
    elif volume_shape is not None:
        object_container = np.zeros(volume_shape)

    rotations = motl.get_rotations()
    coordinates = motl.get_coordinates() - 1.0
    colors = motl.df[feature_to_color].to_numpy()

    for i, coord in enumerate(coordinates):

        if isinstance(input_object, list):
            object_map = rotate(input_object[i], rotation=rotations[i], transpose_rotation=True)
        else:
            object_map = rotate(input_object, rotation=rotations[i], transpose_rotation=True)

        object_map = np.where(object_map > 0.1, 1.0, 0.0)

        ls, le, os, oe = get_start_end_indices(coord, object_container.shape, object_map.shape)

        object_shape = object_map[os[0] : oe[0], os[1] : oe[1], os[2] : oe[2]]
        object_container[ls[0] : le[0], ls[1] : le[1], ls[2] : le[2]] = np.where(
            object_shape == 1.0,
            colors[i],
            object_container[ls[0] : le[0], ls[1] : le[1], ls[2] : le[2]],
        )

    return object_container


def symmetrize_volume(vol, symmetry):
    if isinstance(symmetry, str):
        nfold = int(re.findall(r"\\d+", symmetry)[-1])
    elif isinstance(symmetry, (int, float)):
        nfold = symmetry
    else:
        raise ValueError("The symmetry has to be specified as a string (starting with C) or as a number (only for C)!")

    inplane_step = 360 / nfold
    rotated_sum = np.zeros(vol.shape)

    for inplane in range(1, nfold + 1):
        # print('inplane',inplane, inplane*inplane_step)
        rotated_volume = rotate(vol, rotation_angles=[0, 0, (inplane * inplane_step) % 360])
        # print('rot vol',rotated_volume[0][0][0:10])
        rotated_sum = np.add(rotated_sum, rotated_volume)
    sym_vol = np.divide(rotated_sum, nfold)

    return sym_vol
'''

ORIG_MOTL = '''
def get_angles(self, tomo_number=None):
    if tomo_number is None:
        angles = self.df.loc[:, ["phi", "theta", "psi"]].values
    else:
        angles = self.df.loc[self.df.loc[:, "tomo_id"] == tomo_number, ["phi", "theta", "psi"]].values

    return np.atleast_2d(angles)


def get_coordinates(self, tomo_number=None):
    if tomo_number is None:
        coord = self.df.loc[:, ["x", "y", "z"]].values + self.df.loc[:, ["shift_x", "shift_y", "shift_z"]].values
    else:
        coord = (
            self.df.loc[self.df.loc[:, "tomo_id"] == tomo_number, ["x", "y", "z"]].values
            + self.df.loc[
                self.df.loc[:, "tomo_id"] == tomo_number,
                ["shift_x", "shift_y", "shift_z"],
            ].values
        )

    return coord


def get_rotations(self, tomo_number=None):
    angles = get_angles(self, tomo_number)
    if angles.shape[0] == 0:
        return []  # Return an empty list if angles is empty
    rotations = rot.from_euler("zxz", angles, degrees=True)

    return rotations
'''

orig = dict(vars(cryomap))  # original functions see the module's globals, but call each other (not the current ones)
exec(ORIG_CRYOMAP, orig)
orig_motl = dict(vars(cryomotl))
exec(ORIG_MOTL, orig_motl)

rng = np.random.default_rng(int(os.environ.get("VERIF_SEED", "14")))
checks = 0


def ok(cond, msg):
    global checks
    checks += 1
    if not cond:
        print("FAIL:", msg)
        sys.exit(1)


def same(a, b):
    """bit-for-bit equality of two arrays incl. dtype and shape"""
    a = np.asarray(a)
    b = np.asarray(b)
    if a.dtype != b.dtype or a.shape != b.shape:
        return False
    if a.dtype == object:
        return np.array_equal(a, b)
    return np.array_equal(a, b, equal_nan=True)


# --------------------------------------------------------------------------------------------------------------------
# independent reference computations
# --------------------------------------------------------------------------------------------------------------------
def Rz(a):
    a = np.deg2rad(a)
    return np.array([[np.cos(a), -np.sin(a), 0.0], [np.sin(a), np.cos(a), 0.0], [0.0, 0.0, 1.0]])


def Rx(a):
    a = np.deg2rad(a)
    return np.array([[1.0, 0.0, 0.0], [0.0, np.cos(a), -np.sin(a)], [0.0, np.sin(a), np.cos(a)]])


def euler_zxz(phi, theta, psi):
    """extrinsic zxz: first phi about z, then theta about x, then psi about z (all about the fixed axes)"""
    return Rz(psi) @ Rx(theta) @ Rz(phi)


def ref_rotate(vol, R, order=3, with_unsafe=False):
    """out[c + R v] = in[c + v]: pull every output voxel o back to c + R^T (o - c) and interpolate there.
    with_unsafe: also return the mask of output voxels whose source lies on a face of the interpolation domain up to
    rounding (there the result is decided by round-off: such voxels are outside the quantifier)"""
    vol = np.asarray(vol)
    c = np.array([n // 2 for n in vol.shape], dtype=float)
    o = np.indices(vol.shape).astype(float)
    src = np.zeros_like(o)
    for i in range(3):
        for j in range(3):
            src[i] += R[j, i] * (o[j] - c[j])
        src[i] += c[i]
    res = map_coordinates(vol, src, order=order, mode="constant", cval=0.0, output=np.float64)
    if with_unsafe:
        unsafe = np.zeros(vol.shape, dtype=bool)
        for i in range(3):
            unsafe |= (np.abs(src[i]) < 1e-6) | (np.abs(src[i] - (vol.shape[i] - 1)) < 1e-6)
        return res, unsafe
    return res


def blob_map(shape, centres, sigmas, amps):
    """sum of isotropic Gaussians at offsets `centres` from the box centre floor(N/2)"""
    c = np.array([n // 2 for n in shape], dtype=float)
    g = np.indices(shape).astype(float)
    out = np.zeros(shape)
    for v, s, a in zip(centres, sigmas, amps):
        r2 = sum((g[i] - c[i] - v[i]) ** 2 for i in range(3))
        out += a * np.exp(-r2 / (2 * s * s))
    return out


def make_motl(n, vol_shape, index=None, int_cols=False, poles=False):
    df = pd.DataFrame(0.0, index=np.arange(n), columns=cryomotl.Motl.motl_columns)
    df["tomo_id"] = rng.integers(1, 4, n).astype(float)
    df["subtomo_id"] = np.arange(1, n + 1, dtype=float)
    df["object_id"] = rng.permutation(n) + 2.0
    df["class"] = rng.integers(1, 6, n).astype(float)
    df["score"] = rng.random(n)
    for k, col in enumerate(["x", "y", "z"]):
        df[col] = rng.integers(-2, vol_shape[k] + 4, n).astype(float)
        df["shift_" + col] = np.round(rng.uniform(-1.5, 1.5, n), 2)
    df["phi"] = rng.uniform(-180, 180, n)
    df["theta"] = rng.uniform(0, 180, n)
    df["psi"] = rng.uniform(-180, 180, n)
    if poles:
        df.loc[0, ["phi", "theta", "psi"]] = [30.0, 0.0, 40.0]
        if n > 1:
            df.loc[1, ["phi", "theta", "psi"]] = [-75.0, 180.0, 10.0]
        if n > 2:
            df.loc[2, ["phi", "theta", "psi"]] = [0.0, 0.0, 0.0]
        if n > 3:
            df.loc[3, ["phi", "theta", "psi"]] = [90.0, 90.0, -90.0]
    if int_cols:
        for col in ["x", "y", "z", "tomo_id", "object_id", "class"]:
            df[col] = df[col].astype(int)
    if index is not None:
        df.index = index
    return cryomotl.Motl(df)


# --------------------------------------------------------------------------------------------------------------------
# P1: the 24 cube rotations permute the voxels away from the faces exactly (odd and even boxes, exhaustive)
# --------------------------------------------------------------------------------------------------------------------
cube = {}
for phi, theta, psi in itertools.product([0, 90, 180, 270], repeat=3):
    R = np.rint(euler_zxz(phi, theta, psi)).astype(int)
    cube.setdefault(tuple(R.ravel()), (phi, theta, psi))
ok(len(cube) == 24, "24 cube rotations")

for shape in [(7, 7, 7), (8, 8, 8)]:
    data = rng.normal(size=shape)
    N = shape[0]
    c = N // 2
    s = np.stack(np.meshgrid(*[np.arange(1, N - 1)] * 3, indexing="ij"), -1).reshape(-1, 3)  # interior voxels
    for key, angles in cube.items():
        R = np.array(key).reshape(3, 3)
        t = c + (s - c) @ R.T
        ok(((t >= 0) & (t < N)).all(), "interior voxel leaves the box")
        outs = {
            "angles": cryomap.rotate(data, rotation_angles=list(angles)),
            "rotation+transpose": cryomap.rotate(
                data, rotation=Rotation.from_matrix(R.astype(float)), transpose_rotation=True
            ),
            "inverse rotation": cryomap.rotate(data, rotation=Rotation.from_matrix(R.T.astype(float))),
        }
        for name, out in outs.items():
            ok(out.shape == shape and out.dtype == np.float64, "shape / dtype of rotated map")
            err = np.abs(out[t[:, 0], t[:, 1], t[:, 2]] - data[s[:, 0], s[:, 1], s[:, 2]]).max()
            ok(err < 1e-9, f"cube rotation {angles} ({name}) box {N}: density at v not found at R v (err {err:.2e})")
            ok(same(out, orig["rotate"](data, **({"rotation_angles": list(angles)} if name == "angles" else
                                                 {"rotation": Rotation.from_matrix(R.astype(float)),
                                                  "transpose_rotation": True} if name == "rotation+transpose" else
                                                 {"rotation": Rotation.from_matrix(R.T.astype(float))}))),
               f"rotate differs from the original ({name}, {angles}, box {N})")

# --------------------------------------------------------------------------------------------------------------------
# P2: random rotations on smooth blobs: density at offset v goes to R v; the inverse restores the map; the same R
#     carries reference offsets into the tomogram (Motl.get_rotations / shift_positions)
# --------------------------------------------------------------------------------------------------------------------
for shape in [(32, 32, 32), (33, 33, 33), (30, 34, 32)]:
    for trial in range(4):
        k = 3
        centres = rng.uniform(-3.0, 3.0, (k, 3))
        sigmas = rng.uniform(2.0, 2.5, k)
        amps = rng.uniform(0.5, 1.5, k) * rng.choice([-1.0, 1.0], k)
        vol = blob_map(shape, centres, sigmas, amps)
        if trial == 0:
            angles = [33.0, 0.0, -20.0]  # pole
        elif trial == 1:
            angles = [120.0, 180.0, 45.0]  # pole
        else:
            angles = [rng.uniform(-180, 180), rng.uniform(0, 180), rng.uniform(-180, 180)]
        R = euler_zxz(*angles)
        expected = blob_map(shape, centres @ R.T, sigmas, amps)
        out = cryomap.rotate(vol, rotation_angles=angles)
        ok(np.abs(out - expected).max() < 6e-3, f"blob at v not moved to R v ({angles}): {np.abs(out-expected).max():.2e}")
        ref_, unsafe_ = ref_rotate(vol, R, with_unsafe=True)
        d_ = np.where(unsafe_, 0.0, np.abs(out - ref_))
        ok(d_.max() < 1e-9, f"rotate vs explicit pull-back {angles} {shape} {d_.max():.3e} at {np.unravel_index(d_.argmax(), d_.shape)}")
        out2 = cryomap.rotate(vol, rotation=Rotation.from_matrix(R), transpose_rotation=True)
        ok(np.where(unsafe_, 0.0, np.abs(out2 - out)).max() < 1e-9, "rotation object + transpose == angles")
        back = cryomap.rotate(out, rotation=Rotation.from_matrix(R))  # pull-back by R == rotation by R^-1
        ok(np.abs(back - vol).max() < 2e-2, f"inverse does not restore the map: {np.abs(back-vol).max():.2e}")
        out_rad = cryomap.rotate(vol, rotation_angles=np.deg2rad(angles), degrees=False)
        ok(np.where(unsafe_, 0.0, np.abs(out_rad - out)).max() < 1e-9, "radians")
        lin = cryomap.rotate(vol, rotation_angles=angles, spline_order=1)
        ok(np.where(unsafe_, 0.0, np.abs(lin - ref_rotate(vol, R, order=1))).max() < 1e-9, "order 1")
        for kw in (
            dict(rotation_angles=angles),
            dict(rotation_angles=tuple(angles), spline_order=1),
            dict(rotation_angles=np.deg2rad(angles), degrees=False),
            dict(rotation=Rotation.from_matrix(R)),
            dict(rotation=Rotation.from_matrix(R), transpose_rotation=True, spline_order=0),
            dict(rotation=Rotation.from_matrix(R), rotation_angles=[1, 2, 3]),
            dict(rotation_angles=angles[::-1], coord_space="ZYZ"),
        ):
            for v in (vol, vol.astype(np.float32), np.asfortranarray(vol), np.rint(vol * 100).astype(np.int16)):
                ok(same(cryomap.rotate(v, **kw), orig["rotate"](v, **kw)), f"rotate differs from the original {kw}")
        # positional call
        ok(same(cryomap.rotate(vol, None, angles, "zxz", False, True, 3, None),
                orig["rotate"](vol, None, angles, "zxz", False, True, 3, None)), "positional call of rotate")

        # the particle orientation with the same angles carries offsets the same way
        m = make_motl(3, shape, index=[7, 3, 11])
        m.df.loc[:, ["phi", "theta", "psi"]] = np.tile(angles, (3, 1))
        rots = m.get_rotations()
        ok(np.abs(rots[1].apply(centres) - centres @ R.T).max() < 1e-12, "Motl.get_rotations convention")
        before = m.get_coordinates().copy()
        sh = m.shift_positions(centres[0], inplace=False)
        ok(np.abs(sh.get_coordinates() - before - R @ centres[0]).max() < 1e-12, "shift_positions convention")

try:
    cryomap.rotate(np.zeros((4, 4, 4)))
    ok(False, "rotate without rotation must raise")
except ValueError:
    ok(True, "")

# --------------------------------------------------------------------------------------------------------------------
# P3: extract_subvolume returns the requested window, out-of-volume voxels = volume mean
# --------------------------------------------------------------------------------------------------------------------
def ref_window(volume, coord, size):
    start = np.floor(np.asarray(coord, dtype=float) - np.asarray(size) / 2.0).astype(int)
    g = np.indices(size)
    idx = [g[i] + start[i] for i in range(3)]
    inside = np.ones(size, dtype=bool)
    for i in range(3):
        inside &= (idx[i] >= 0) & (idx[i] < volume.shape[i])
    out = np.full(size, volume.mean(), dtype=float)
    out[inside] = volume[idx[0][inside], idx[1][inside], idx[2][inside]]
    return out


for vshape in [(12, 10, 14), (9, 9, 9)]:
    for dtype in (np.float64, np.float32, np.int16):
        volume = (rng.normal(size=vshape) * 50).astype(dtype)
        coords = [
            np.array(vshape) // 2,
            np.array(vshape) / 2.0,
            np.array([0, 0, 0]),
            np.array([1.5, 2.5, 0.5]),
            np.array(vshape) - 1,
            np.array(vshape),
            np.array([-1.0, 4.0, 20.0]),
            np.array([-40, -40, -40]),
            np.array([100.0, 3.0, 3.0]),
            np.array([3, 3, 3]),
            np.array([2.0, 7.0, 4.0]),
        ] + [rng.uniform(-6, 18, 3) for _ in range(8)] + [rng.integers(-6, 18, 3) for _ in range(8)]
        for size in [(4, 4, 4), (6, 2, 8), (2, 2, 2), (8, 8, 8), (16, 16, 16)]:
            for coord in coords:
                got = cryomap.extract_subvolume(volume, coord, size)
                ok(got.shape == tuple(size), "window shape")
                exp = ref_window(volume, coord, size)
                ok(np.allclose(got, exp, rtol=0, atol=1e-9 if dtype != np.int16 else 1.0),
                   f"extract_subvolume window {coord} {size} {vshape}")
                if dtype != np.int16:
                    ok(np.array_equal(got, exp.astype(got.dtype)), "window values exact")
                ok(same(got, orig["extract_subvolume"](volume, coord, size)), "extract_subvolume vs original")
                ok(same(cryomap.extract_subvolume(volume, coord, size, enforce_shape=True),
                        orig["extract_subvolume"](volume, coord, size, enforce_shape=True)),
                   "extract_subvolume(enforce_shape) vs original")
                for a, b in zip(cryomap.get_start_end_indices(coord, vshape, size),
                                orig["get_start_end_indices"](coord, vshape, size)):
                    ok(same(a, b), "get_start_end_indices vs original")
        ok(same(cryomap.crop(volume, (4, 6, 4)), orig["crop"](volume, (4, 6, 4))), "crop vs original")
        ok(same(cryomap.crop(volume, (4, 6, 4), crop_coord=(3, 3, 3)), orig["crop"](volume, (4, 6, 4), crop_coord=(3, 3, 3))),
           "crop vs original")


# --------------------------------------------------------------------------------------------------------------------
# P4: place_object stamps the rotated, thresholded template at the complete position (1-based -> 0-based), coloured
# --------------------------------------------------------------------------------------------------------------------
def template(n, kind):
    if kind == 0:  # elongated, off-centre smooth body
        t = blob_map((n, n, n), [[1.0, 0.0, -0.8], [-1.0, 0.5, 0.9], [0.3, 1.2, 0.0]], [1.1, 1.0, 0.9], [1.0, 0.9, 0.8])
    else:  # binary L-shaped body
        t = np.zeros((n, n, n))
        c = n // 2
        t[c - 2 : c + 3, c, c] = 1.0
        t[c + 2, c : c + 3, c] = 1.0
        t[c, c, c - 1 : c + 2] = 1.0
    faces = np.ones(t.shape, dtype=bool)
    faces[1:-1, 1:-1, 1:-1] = False
    # far below the threshold 0.1 on the faces: whether a face voxel is inside the interpolation domain or (by rounding)
    # outside cannot decide the stamp
    assert np.abs(t[faces]).max() < 0.05
    return t


def ref_place(objects, motl, container, feature):
    df = motl.df
    out = np.array(container, dtype=float)
    amb = np.zeros(out.shape, dtype=bool)
    for i in range(len(df)):
        row = df.iloc[i]
        obj = objects[i] if isinstance(objects, list) else objects
        R = euler_zxz(row["phi"], row["theta"], row["psi"])
        r, unsafe = ref_rotate(obj, R, with_unsafe=True)
        mask = r > 0.1
        ok(not (unsafe & (np.abs(r) > 0.09)).any(), "a source on a face of the template decides the stamp")
        near = np.abs(r - 0.1) < 1e-7  # decided by round-off
        p = np.array([row["x"] + row["shift_x"], row["y"] + row["shift_y"], row["z"] + row["shift_z"]], dtype=float) - 1.0
        start = np.floor(p - np.array(obj.shape) / 2.0).astype(int)
        g = np.indices(obj.shape)
        idx = [g[k] + start[k] for k in range(3)]
        inside = np.ones(obj.shape, dtype=bool)
        for k in range(3):
            inside &= (idx[k] >= 0) & (idx[k] < out.shape[k])
        sel = mask & inside
        out[idx[0][sel], idx[1][sel], idx[2][sel]] = row[feature]
        sel = near & inside
        amb[idx[0][sel], idx[1][sel], idx[2][sel]] = True
    return out, amb


total_amb = 0
total_vox = 0
for trial, n in enumerate([1, 2, 5, 20, 7, 1]):
    vshape = [(30, 28, 26), (21, 21, 21)][trial % 2]
    tn = [9, 10][trial % 2]
    index = None if trial % 3 == 0 else (np.arange(n)[::-1] * 3 + 5 if trial % 3 == 1 else rng.permutation(n) + 100)
    motl = make_motl(n, vshape, index=index, int_cols=(trial in (2, 4)), poles=(trial in (1, 3)))
    feature = ["object_id", "class", "score"][trial % 3]
    tmpl = template(tn, trial % 2)
    variants = [("single", tmpl, dict(volume_shape=vshape, feature_to_color=feature), np.zeros(vshape))]
    lst = [template(tn, (trial + j) % 2) * (1.0 if j % 2 else 0.7) for j in range(n)]
    variants.append(("list", lst, dict(volume_shape=tuple(vshape), feature_to_color=feature), np.zeros(vshape)))
    pre = rng.integers(0, 3, vshape).astype(float) * 50
    variants.append(("volume", tmpl.astype(np.float32), dict(volume=pre, feature_to_color=feature), pre))
    if trial == 0:
        variants.append(("default colour", tmpl, dict(volume_shape=vshape), np.zeros(vshape)))
    for name, objs, kw, container in variants:
        f = kw.get("feature_to_color", "object_id")
        df_before = motl.df.copy()
        pre_before = pre.copy()
        got = cryomap.place_object(objs, motl, **kw)
        got_again = cryomap.place_object(objs, motl, **kw)
        ok(same(got, got_again), "repeated call on the same objects")
        ok(motl.df.equals(df_before) and np.array_equal(pre, pre_before), "inputs untouched")
        exp, amb = ref_place(objs, motl, container, f)
        ok(got.shape == tuple(vshape), "container shape")
        bad = (got != exp) & ~amb
        ok(not bad.any(), f"place_object ({name}, {n} poses, trial {trial}): {bad.sum()} voxels differ from the stamp")
        total_amb += amb.sum()
        total_vox += (exp != container).sum()
        ok(same(got, orig["place_object"](objs, motl, **kw)), f"place_object vs original ({name})")
ok(total_vox > 500 and total_amb < 0.05 * total_vox, f"too many undecided voxels {total_amb}/{total_vox}")

# 1-based -> 0-based at an exact position: a one-voxel body lands at x-1
one = np.zeros((4, 4, 4))  # even box: window start p - N/2, box centre N/2 -> lands exactly at p
one[2, 2, 2] = 1.0
m1 = make_motl(1, (10, 10, 10))
m1.df.loc[:, ["x", "y", "z"]] = [4.0, 6.0, 1.0]
m1.df.loc[:, ["shift_x", "shift_y", "shift_z"]] = [1.0, -2.0, 0.0]
m1.df.loc[:, ["phi", "theta", "psi"]] = [0.0, 0.0, 0.0]
m1.df.loc[:, "object_id"] = 9.0
res = cryomap.place_object(one, m1, volume_shape=(10, 10, 10))
ok(res[4, 3, 0] == 9.0 and (res != 0).sum() == 1, "one voxel body at the 0-based complete position")

# --------------------------------------------------------------------------------------------------------------------
# P5: C_n symmetrisation = mean of the n copies rotated by multiples of 360/n about z: invariant, same total density
# --------------------------------------------------------------------------------------------------------------------
for shape in [(28, 28, 28), (29, 29, 29), (26, 26, 16)]:
    centres = rng.uniform(-2.5, 2.5, (3, 3)) * [1.0, 1.0, 0.3]
    vol = blob_map(shape, centres, rng.uniform(1.8, 2.2, 3), rng.uniform(0.5, 1.5, 3))
    for n in range(2, 13):
        vol_before = vol.copy()
        sym = cryomap.symmetrize_volume(vol, n)
        ok(np.array_equal(vol, vol_before), "symmetrize_volume modified its input")
        ok(sym.shape == shape and sym.dtype == np.float64, "shape / dtype of the symmetrised map")
        exp = np.zeros(shape)
        unsafe = np.zeros(shape, dtype=bool)
        for k in range(1, n + 1):
            r_, u_ = ref_rotate(vol, Rz(k * 360.0 / n), with_unsafe=True)
            exp += r_
            unsafe |= u_
        exp /= n
        err = np.where(unsafe, 0.0, np.abs(sym - exp)).max()
        ok(not unsafe[2:-2, 2:-2, 2:-2].any(), f"undecided voxels away from the faces {shape} C{n}")  # the faces (z faces always: the axis is z)
        ok(err < 1e-9, f"C{n} {shape}: not the mean of the n rotated copies ({err:.2e})")
        inv = cryomap.rotate(sym, rotation_angles=[0, 0, 360.0 / n])
        ok(np.abs(inv - sym).max() < 1e-2, f"C{n}: not invariant under 360/n ({np.abs(inv-sym).max():.2e})")
        ok(abs(sym.sum() - vol.sum()) < 2e-3 * abs(vol.sum()), f"C{n}: total density {sym.sum()} vs {vol.sum()}")
        ok(same(sym, cryomap.symmetrize_volume(vol, f"C{n}")), "string symmetry")
        ok(same(sym, cryomap.symmetrize_volume(vol, n)), "repeated call")
        ok(same(sym, orig["symmetrize_volume"](vol, n)), f"symmetrize_volume vs original (C{n})")
        ok(same(cryomap.symmetrize_volume(vol, f"c{n}"), orig["symmetrize_volume"](vol, f"c{n}")), "string vs original")
    for v in (vol.astype(np.float32), np.asfortranarray(vol), np.rint(vol * 1000).astype(np.int32), vol[::-1, :, ::2], -vol,
              np.zeros(shape)):
        for n in (2, 3, 7, 12):
            ok(same(cryomap.symmetrize_volume(v, n), orig["symmetrize_volume"](v, n)),
               f"symmetrize_volume vs original ({v.dtype}, C{n})")
ok(same(cryomap.symmetrize_volume(vol, 1), orig["symmetrize_volume"](vol, 1)), "C1 vs original")
for bad_sym in (None, [3], 2.0, np.int64(3), 0, "C"):
    outcome = []
    for f in (cryomap.symmetrize_volume, orig["symmetrize_volume"]):
        try:
            outcome.append(("value", f(vol, bad_sym)))
        except Exception as e:  # noqa
            outcome.append(("raise", type(e)))
    if True:
        ok(outcome[0][0] == outcome[1][0] and (same(outcome[0][1], outcome[1][1]) if outcome[0][0] == "value" else
                                               outcome[0][1] is outcome[1][1]), f"symmetry={bad_sym!r} vs original")

# --------------------------------------------------------------------------------------------------------------------
# Motl helpers of the same convention vs their originals
# --------------------------------------------------------------------------------------------------------------------
for n, index in [(0, None), (1, [5]), (4, [9, 2, 7, 4]), (6, None)]:
    m = make_motl(n, (20, 20, 20), index=index, int_cols=(n == 4), poles=(n == 6))
    for tomo in (None, 1, 2, 99):
        a0, a1 = m.get_angles(tomo), orig_motl["get_angles"](m, tomo)
        ok(same(a0, a1) and a0.flags.writeable == a1.flags.writeable, "get_angles vs original")
        c0, c1 = m.get_coordinates(tomo), orig_motl["get_coordinates"](m, tomo)
        ok(same(c0, c1) and c0.flags.writeable == c1.flags.writeable, "get_coordinates vs original")
        r0, r1 = m.get_rotations(tomo), orig_motl["get_rotations"](m, tomo)
        ok(type(r0) is type(r1), "get_rotations type vs original")
        if isinstance(r1, list):
            ok(r0 == r1 == [], "empty rotations")
        else:
            ok(same(r0.as_quat(), r1.as_quat()) and len(r0) == len(r1), "get_rotations vs original")

# --------------------------------------------------------------------------------------------------------------------
# extra comparisons for this change
# --------------------------------------------------------------------------------------------------------------------
if CHANGE == "a" and "prefilter" in inspect.signature(cryomap.rotate).parameters:
    # rotate(coefficients, prefilter=False) is rotate(map): the route symmetrize_volume now takes
    for v in (vol, vol.astype(np.float32), np.rint(vol * 1000).astype(np.int32), np.asfortranarray(vol)):
        for order in (2, 3, 5):
            coeffs = spline_filter(v, order=order, output=np.float64, mode="constant")
            for ang in ([0, 0, 90], [10, 20, 30], [0, 0, 360.0 / 7]):
                ok(same(cryomap.rotate(coeffs, rotation_angles=ang, spline_order=order, prefilter=False),
                        orig["rotate"](v, rotation_angles=ang, spline_order=order)), "prefilter=False on coefficients")
                ok(same(cryomap.rotate(v, rotation_angles=ang, spline_order=order, prefilter=True),
                        orig["rotate"](v, rotation_angles=ang, spline_order=order)), "prefilter=True")
        for order in (0, 1):
            ok(same(cryomap.rotate(v, rotation_angles=[10, 20, 30], spline_order=order, prefilter=False),
                    orig["rotate"](v, rotation_angles=[10, 20, 30], spline_order=order)), "order <= 1: no prefilter anyway")

if CHANGE == "c":
    def outcome(f, *args, **kw):
        try:
            return ("value", f(*args, **kw))
        except Exception as e:  # noqa
            return ("raise", type(e), str(e))

    # the array returned by rotate: same kind of object as the buffer that used to be passed in
    for v in (vol, vol.astype(np.float32), (vol > 0.2), np.rint(vol * 100).astype(np.uint8), np.asfortranarray(vol), vol[::2, 1:, ::-1]):
        for kw in (dict(rotation_angles=[10, 20, 30]), dict(rotation_angles=[0, 0, 0], spline_order=0),
                   dict(rotation=Rotation.from_euler("zxz", [5, 6, 7], degrees=True), spline_order=1)):
            r0, r1 = cryomap.rotate(v, **kw), orig["rotate"](v, **kw)
            ok(same(r0, r1), "rotate vs original")
            ok(type(r0) is type(r1) and r0.flags.c_contiguous == r1.flags.c_contiguous
               and r0.flags.writeable == r1.flags.writeable and r0.flags.owndata == r1.flags.owndata
               and r0.strides == r1.strides, "kind of array returned by rotate")
    # element types / shapes that are rejected are rejected the same way
    for v in (vol.astype(complex), np.zeros((4, 4)), np.zeros((3, 3, 3, 3)), [[1.0]], np.zeros((0, 0, 0))):
        o0, o1 = outcome(cryomap.rotate, v, rotation_angles=[1, 2, 3]), outcome(orig["rotate"], v, rotation_angles=[1, 2, 3])
        ok(o0[0] == o1[0] and (same(o0[1], o1[1]) if o0[0] == "value" else o0[1:] == o1[1:]), f"rotate on {type(v)}: {o0} vs {o1}")
    # written file (output_name) is the same
    import tempfile
    with tempfile.TemporaryDirectory() as tmp:
        f0, f1 = os.path.join(tmp, "cur.mrc"), os.path.join(tmp, "orig.mrc")
        cryomap.rotate(vol, rotation_angles=[10, 20, 30], output_name=f0)
        orig["rotate"](vol, rotation_angles=[10, 20, 30], output_name=f1)
        ok(same(cryomap.read(f0), cryomap.read(f1)), "written rotated map")
        # and a map given as a file name
        ok(same(cryomap.rotate(f0, rotation_angles=[3, 2, 1]), orig["rotate"](f1, rotation_angles=[3, 2, 1])), "map from file")

    # Motl helpers on tables with holes, integer / object / mixed columns, duplicated and non-default indices
    for n, index in [(1, ["a"]), (5, [3, 3, 1, 1, 0]), (8, None), (3, pd.Index([2.5, 0.5, 1.5]))]:
        for variant in range(5):
            m = make_motl(n, (20, 20, 20), index=index, int_cols=(variant == 1), poles=(variant == 2))
            if variant == 3:
                m.df.iloc[0, m.df.columns.get_loc("shift_y")] = np.nan
                m.df.iloc[n - 1, m.df.columns.get_loc("x")] = np.nan
            if variant == 4:
                m.df = m.df.astype({"x": object, "phi": object, "shift_z": "float32", "psi": "int64"})
            for tomo in (None, 1, 2.0, 3, 99, "1"):
                a0, a1 = m.get_angles(tomo), orig_motl["get_angles"](m, tomo)
                ok(same(a0, a1) and a0.flags.writeable == a1.flags.writeable and a0.flags.c_contiguous == a1.flags.c_contiguous,
                   "get_angles vs original")
                c0, c1 = m.get_coordinates(tomo), orig_motl["get_coordinates"](m, tomo)
                ok(same(c0, c1) and c0.flags.writeable == c1.flags.writeable, "get_coordinates vs original")
                ok(np.shares_memory(a0, m.df["phi"].to_numpy()) == np.shares_memory(a1, m.df["phi"].to_numpy()), "view or copy")
                o0, o1 = outcome(m.get_rotations, tomo), outcome(orig_motl["get_rotations"], m, tomo)
                ok(o0[0] == o1[0], f"get_rotations outcome {o0} vs {o1}")
                if o0[0] == "value":
                    ok(type(o0[1]) is type(o1[1]), "get_rotations type")
                    if not isinstance(o0[1], list):
                        ok(same(o0[1].as_quat(), o1[1].as_quat()), "get_rotations vs original")
                else:
                    ok(o0[1:] == o1[1:], "get_rotations error")
            ok(same(m.get_coordinates(), m.get_coordinates()), "repeated call")
    # the expected values themselves: complete position = x + shift_x, ... by position, angles in the order phi, theta, psi
    m = make_motl(6, (20, 20, 20), index=[9, 8, 7, 3, 2, 1])
    d = m.df
    ok(np.array_equal(m.get_coordinates(), np.column_stack([d["x"].to_numpy() + d["shift_x"].to_numpy(),
                                                            d["y"].to_numpy() + d["shift_y"].to_numpy(),
                                                            d["z"].to_numpy() + d["shift_z"].to_numpy()])), "complete positions")
    ok(np.array_equal(m.get_angles(), np.column_stack([d["phi"], d["theta"], d["psi"]])), "order of the angles")
    for i in range(6):
        R = euler_zxz(d["phi"].iloc[i], d["theta"].iloc[i], d["psi"].iloc[i])
        ok(np.abs(m.get_rotations()[i].as_matrix() - R).max() < 1e-12, "rotation of the i-th row")

print(f"PASS ({checks} checks)")
