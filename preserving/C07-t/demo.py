"""C07 / change a -- Motl.clean_by_distance: per-group score summary for the log, computed by sorting a private copy
of the kept scores in place.

The demo
  1. checks the property (separated + dominating set per group, no cross-group influence) against an independent
     brute-force computation (scipy cdist + own greedy reference) over many random and edge-case particle lists,
  2. compares the function in the tree with a verbatim copy of the ORIGINAL function (kept below) on the same inputs,
  3. checks that the table object the caller handed in is left untouched, and that repeated calls behave.
Prints PASS and exits 0 when everything holds.
"""
import sys, os

sys.path.insert(0, os.getcwd())

import io
import contextlib
import numpy as np
import pandas as pd
from scipy.spatial.distance import cdist

from cryocat import cryomotl
from cryocat.cryomotl import Motl

# ----------------------------------------------------------------------------------------------------------------
# verbatim copy of the original method (HEAD d4d8304), executed in the namespace of cryocat.cryomotl
ORIGINAL = '''
def clean_by_distance_original(
    self,
    distance_in_voxels,
    feature_id,
    metric_id="score",
    keep_greater=True,
    dist_mask=None,
):
    # Distance cutoff (pixels)
    d_cut = distance_in_voxels

    # Load mask if provided
    if dist_mask is not None:
        nn_stats = nnana.get_nn_stats_within_radius(self, nn_radius=d_cut, feature=feature_id)
        nn_stats_filtered = nnana.filter_nn_radial_stats(nn_stats, dist_mask)

    # Parse tomograms
    features = np.unique(self.get_feature(feature_id))

    # Initialize clean motl
    cleaned_df = pd.DataFrame()

    # Loop through and clean
    for f in features:
        # Parse tomogram
        feature_m = self.get_motl_subset(f, feature_id=feature_id, reset_index=True)
        n_temp_motl = feature_m.df.shape[0]

        # Parse positions
        pos = feature_m.get_coordinates()

        # Parse scores
        temp_scores = feature_m.df[metric_id].values

        # prepare scores
        if keep_greater:
            # Sort scores
            sort_idx = np.argsort(temp_scores)[::-1]
        else:  # lower than
            # Sort scores
            sort_idx = np.argsort(temp_scores)

        # Temporary keep index
        temp_keep = np.ones((n_temp_motl,), dtype=bool)

        # Loop through in order of score
        for j in sort_idx:
            if temp_keep[j]:

                # classic radius-based cleaning
                if dist_mask is None:
                    # Calculate distances
                    dist = geom.point_pairwise_dist(pos[j, :], pos)
                    # Find cutoff
                    d_cut_idx = dist < d_cut

                    # Keep current entry
                    d_cut_idx[j] = False
                else:
                    d_cut_idx = np.arange(feature_m.df.shape[0])
                    subtomo_id = feature_m.df.loc[j, "subtomo_id"]
                    filtered_idx = nn_stats_filtered.loc[
                        nn_stats_filtered["qp_subtomo_id"] == subtomo_id, "nn_motl_idx"
                    ].values
                    d_cut_idx = np.isin(d_cut_idx, filtered_idx)

                # Remove other entries
                temp_keep[d_cut_idx] = False

        # Add entries to main list
        cleaned_df = pd.concat((cleaned_df, feature_m.df.iloc[temp_keep, :]), ignore_index=True)

    print(f"Cleaned {self.df.shape[0] - cleaned_df.shape[0]} particles.")
    self.df = cleaned_df
'''
_ns = dict(vars(cryomotl))
exec(ORIGINAL, _ns)
clean_by_distance_original = _ns["clean_by_distance_original"]

GROUP_FIELDS = ["tomo_id", "object_id", "class", "geom1", "geom2", "subtomo_mean"]
rng = np.random.default_rng(20260928)
n_checks = 0


def quiet(fn, *args, **kwargs):
    buf = io.StringIO()
    with contextlib.redirect_stdout(buf):
        out = fn(*args, **kwargs)
    return out, buf.getvalue()


def make_df(n, n_groups, group_field, tie_scores=False, same_coords_across_groups=False, int_scores=False):
    """clustered particle list; coordinates continuous, so exact-distance ties have probability zero"""
    n_clusters = int(rng.integers(1, max(2, n // 4) + 1))
    centres = rng.uniform(0, 200, size=(n_clusters, 3))
    spread = rng.uniform(0.5, 15)
    which = rng.integers(0, n_clusters, size=n)
    xyz = centres[which] + rng.normal(0, spread, size=(n, 3))
    base = np.round(xyz)
    shifts = xyz - base
    df = pd.DataFrame(0.0, index=np.arange(n), columns=Motl.motl_columns)
    df[["x", "y", "z"]] = base
    df[["shift_x", "shift_y", "shift_z"]] = shifts
    if int_scores:
        df["score"] = rng.integers(-5, 6, size=n).astype(float)
    elif tie_scores:
        df["score"] = np.round(rng.uniform(0, 1, size=n), 1)
    else:
        df["score"] = rng.normal(0, 1, size=n)
    df["subtomo_id"] = np.arange(1, n + 1, dtype=float)
    group_values = rng.choice(np.arange(1, 50), size=n_groups, replace=False).astype(float)
    if rng.random() < 0.3:
        group_values = group_values - 25.0  # negative / zero group labels as well
    groups = group_values[rng.integers(0, n_groups, size=n)]
    groups[:n_groups] = group_values  # every group occurs (n_groups <= n)
    df[group_field] = groups
    if group_field != "tomo_id":
        df["tomo_id"] = float(rng.integers(1, 4))
    if same_coords_across_groups and n >= 2:
        # every group sits on (almost) the same spots: groups must still not see each other
        df.loc[:, ["x", "y", "z"]] = base[0] + np.round(rng.uniform(0, 3, size=(n, 3)))
        df.loc[:, ["shift_x", "shift_y", "shift_z"]] = rng.uniform(-0.5, 0.5, size=(n, 3))
    df["phi"] = rng.uniform(-180, 180, size=n)
    df["theta"] = rng.uniform(0, 180, size=n)
    df["psi"] = rng.uniform(-180, 180, size=n)
    # shuffle the rows so that the groups are interleaved
    df = df.iloc[rng.permutation(n)].reset_index(drop=True)
    return df


def reference_greedy(coords, scores, d, keep_greater):
    """own greedy suppression (only used when the scores of the group are distinct -> unique answer)"""
    order = np.argsort(-scores if keep_greater else scores, kind="stable")
    alive = np.ones(len(scores), dtype=bool)
    keep = []
    for j in order:
        if not alive[j]:
            continue
        keep.append(j)
        dj = np.sqrt(((coords - coords[j]) ** 2).sum(axis=1))
        alive[dj < d] = False
    return np.sort(np.array(keep))


def check_property(df_in, df_out, d, group_field, keep_greater):
    global n_checks
    coords_in = df_in[["x", "y", "z"]].to_numpy() + df_in[["shift_x", "shift_y", "shift_z"]].to_numpy()
    ids_in = df_in["subtomo_id"].to_numpy()
    kept_ids = df_out["subtomo_id"].to_numpy()
    assert len(np.unique(kept_ids)) == len(kept_ids), "a particle was duplicated"
    assert np.isin(kept_ids, ids_in).all(), "a particle appeared from nowhere"
    # rows of kept particles are carried over unchanged
    a = df_in.set_index("subtomo_id").loc[kept_ids].reset_index()[Motl.motl_columns]
    b = df_out[Motl.motl_columns].reset_index(drop=True)
    assert np.array_equal(a.to_numpy(), b.to_numpy()), "kept rows were altered"
    kept_mask = np.isin(ids_in, kept_ids)
    groups = df_in[group_field].to_numpy()
    scores = df_in["score"].to_numpy()
    # the margin below only absorbs the last-bit difference between np.linalg.norm and cdist
    eps = 1e-9
    for g in np.unique(groups):
        gi = np.where(groups == g)[0]
        gk = gi[kept_mask[gi]]
        gr = gi[~kept_mask[gi]]
        assert len(gk) >= 1, "a group lost all its particles"
        dk = cdist(coords_in[gk], coords_in[gk])
        np.fill_diagonal(dk, np.inf)
        assert (dk >= d - eps).all(), f"two kept particles of group {g} closer than d"
        if len(gr):
            dr = cdist(coords_in[gr], coords_in[gk])
            near = dr < d + eps
            if keep_greater:
                better = scores[gk][None, :] >= scores[gr][:, None]
            else:
                better = scores[gk][None, :] <= scores[gr][:, None]
            assert (near & better).any(axis=1).all(), f"a removed particle of group {g} is not dominated"
        # no cross-group influence + exact agreement with the own greedy reference when the answer is unique
        if len(np.unique(scores[gi])) == len(gi):
            ref = reference_greedy(coords_in[gi], scores[gi], d, keep_greater)
            assert np.array_equal(np.sort(ids_in[gi][ref]), np.sort(ids_in[gk])), f"group {g}: differs from reference"
        n_checks += 1
    # groups come out in ascending order of the label, rows of a group in their original order
    exp_ids = []
    for g in np.unique(groups):
        gi = np.where(groups == g)[0]
        exp_ids.extend(ids_in[gi][kept_mask[gi]])
    assert np.array_equal(np.array(exp_ids), kept_ids), "order of the cleaned table changed"
    assert list(df_out.index) == list(range(len(df_out))), "index of the cleaned table is not 0..n-1"


def run_case(df, d, group_field, keep_greater, metric_kw=True):
    snapshot = df.copy(deep=True)
    m_new = Motl(df)  # the Motl holds the caller's table itself
    m_old = Motl(df.copy(deep=True))
    kw = dict(feature_id=group_field, keep_greater=keep_greater)
    if metric_kw:
        kw["metric_id"] = "score"
    _, log_new = quiet(m_new.clean_by_distance, d, **kw)
    _, log_old = quiet(clean_by_distance_original, m_old, d, **kw)
    # caller's table untouched (same object, same content, same dtypes, same index)
    pd.testing.assert_frame_equal(df, snapshot, check_exact=True)
    # same as the original function, bit for bit
    pd.testing.assert_frame_equal(m_new.df, m_old.df, check_exact=True)
    assert list(m_new.df.dtypes) == list(m_old.df.dtypes)
    # the original summary line is still the last one printed
    assert log_new.strip().splitlines()[-1] == log_old.strip().splitlines()[-1]
    check_property(snapshot, m_new.df, d, group_field, keep_greater)
    # repeated call on the same object: nothing more to remove, table identical
    once = m_new.df.copy(deep=True)
    quiet(m_new.clean_by_distance, d, **kw)
    pd.testing.assert_frame_equal(m_new.df.reset_index(drop=True), once.reset_index(drop=True), check_exact=True)
    # and a further call with a larger radius still obeys the property w.r.t. the once-cleaned list
    d2 = d * float(rng.uniform(1.1, 3))
    m_old2 = Motl(once.copy(deep=True))
    quiet(m_new.clean_by_distance, d2, **kw)
    quiet(clean_by_distance_original, m_old2, d2, **kw)
    pd.testing.assert_frame_equal(m_new.df, m_old2.df, check_exact=True)
    check_property(once, m_new.df, d2, group_field, keep_greater)


# ---------------------------------------------------------------------------------------------------------------
# random search
n_cases = 0
for it in range(260):
    n = int(rng.choice([1, 2, 3, 5, 8, 13, 30, 60, 120, 250, 400], p=[.05, .05, .05, .1, .1, .1, .2, .15, .1, .05, .05]))
    n_groups = int(min(n, rng.integers(1, 5)))
    field = GROUP_FIELDS[int(rng.integers(0, len(GROUP_FIELDS)))]
    mode = rng.random()
    df = make_df(
        n,
        n_groups,
        field,
        tie_scores=(0.6 < mode < 0.75),
        int_scores=(0.75 <= mode < 0.85),
        same_coords_across_groups=(mode >= 0.85),
    )
    d = float(rng.choice([1e-6, 0.3, 1.0, 2.5, 7.0, 20.0, 60.0, 1e4])) * float(rng.uniform(0.7, 1.3))
    run_case(df, d, field, keep_greater=bool(rng.integers(0, 2)), metric_kw=bool(rng.integers(0, 2)))
    n_cases += 1

# ---------------------------------------------------------------------------------------------------------------
# hand-made edge cases
# chain a - b - c with the middle one best / worst (adversarial for < vs <= and the sort direction)
for keep_greater in (True, False):
    for scores in ([1.0, 3.0, 2.0], [3.0, 1.0, 2.0], [2.0, 2.0, 2.0], [1.0, 2.0, 3.0]):
        df = pd.DataFrame(0.0, index=np.arange(3), columns=Motl.motl_columns)
        df["x"] = [0.0, 1.9, 3.8]
        df["score"] = scores
        df["subtomo_id"] = [1.0, 2.0, 3.0]
        df["tomo_id"] = 1.0
        for d in (1.0, 1.95, 2.0, 3.9, 10.0):
            run_case(df.copy(), d, "tomo_id", keep_greater)
            n_cases += 1
# the integer d given as int, a numpy scalar and a 0-d array
df = make_df(40, 3, "object_id")
for d in (3, np.float32(3.5), np.array(4.0), np.int64(2)):
    run_case(df.copy(), d, "object_id", True)
    n_cases += 1
# score column with NaN-free negative / huge values, a single group of one particle
df = make_df(1, 1, "class")
run_case(df, 5.0, "class", False)
df = make_df(25, 2, "geom2")
df["score"] = df["score"] * 1e12
run_case(df, 8.0, "geom2", False)
n_cases += 2
# a different metric column (integer-valued) is respected
df = make_df(60, 2, "tomo_id")
df["geom5"] = rng.permutation(60).astype(float)
m_new, m_old = Motl(df.copy()), Motl(df.copy())
quiet(m_new.clean_by_distance, 12.0, "tomo_id", metric_id="geom5", keep_greater=False)
quiet(clean_by_distance_original, m_old, 12.0, "tomo_id", metric_id="geom5", keep_greater=False)
pd.testing.assert_frame_equal(m_new.df, m_old.df, check_exact=True)
chk = df.copy()
chk["score"] = chk["geom5"]
out = m_new.df.copy()
out["score"] = out["geom5"]
check_property(chk, out, 12.0, "tomo_id", False)
n_cases += 1

print(f"{n_cases} particle lists, {n_checks} group checks")
print("PASS")
