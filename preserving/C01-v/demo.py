#!/venv/bin/python
"""C01 -- EM particle-list files round-trip losslessly for any table column order.

Run as:  cd /tmp/wt13/C01 && /venv/bin/python /tmp/seedsW/C01/a/demo.py

What is checked, for several hundred random tables (all 20 motl fields, random column permutation, N >= 1, finite
float64 values inside the float32 range, NaN holes, odd row labels) and for both writers
(Motl.write_out(path, "emmotl") and EmMotl(...).write_out(path)):

  1. the bytes on disk, parsed by an independent EM parser (struct only, no emfile / no cryocat): 512 byte header,
     machine 6, dtype 5 (float32), dims x=20, y=N, z=1, then N x 20 little-endian float32 in the canonical field
     order score, geom1, ..., class, every value equal to struct.pack("<f", v) of the input value and NaN -> 0.0;
  2. Motl.load(path).df: canonical columns, float64, RangeIndex, value == float64(float32(input)), NaN -> 0;
  3. the functions in the tree agree with the ORIGINAL EmMotl.read_in / EmMotl.write_out (text kept below) on the same
     inputs: identical file bytes, identical loaded frames / headers, identical error messages;
  4. the caller's table and the Motl / EmMotl objects are left untouched (values, NaN holes, column order, row labels);
  5. repeated calls: writing twice, write -> load -> write, write after the object was read from a file.
Prints PASS and exits 0 when everything holds.
"""
import os
import sys

sys.path.insert(0, os.getcwd())

import inspect
import math
import struct
import tempfile
import textwrap
import warnings
from pathlib import Path

import numpy as np
import pandas as pd

from cryocat import cryomotl
from cryocat.cryomotl import EmMotl, Motl
from cryocat.exceptions import UserInputError

warnings.filterwarnings("ignore")

# the canonical field order, written down independently of Motl.motl_columns
CANON = ["score", "geom1", "geom2", "subtomo_id", "tomo_id", "object_id", "subtomo_mean", "x", "y", "z",
         "shift_x", "shift_y", "shift_z", "geom3", "geom4", "geom5", "phi", "psi", "theta", "class"]

# ------------------------------------------------------------------------------------------------------------------
# original function texts (cryocat/cryomotl.py at HEAD b1093bd), executed inside the module namespace of cryomotl
# ------------------------------------------------------------------------------------------------------------------
ORIG_READ_IN = '''
def read_in(emfile_path):
    if not os.path.isfile(emfile_path):
        raise UserInputError(f"Provided file {emfile_path} does not exist.")

    header, parsed_emfile = emfile.read(emfile_path)
    if not len(parsed_emfile[0][0]) == 20:
        raise UserInputError(
            f"Provided file contains {len(parsed_emfile[0][0])} columns, while 20 columns are expected."
        )

    motl_df = pd.DataFrame(data=parsed_emfile[0], dtype=float, columns=Motl.motl_columns)

    return motl_df, header
'''

ORIG_WRITE_OUT = '''
def write_out(self, output_path):
    filled_df = self.df[Motl.motl_columns].fillna(0.0)
    motl_array = filled_df.to_numpy()
    motl_array = motl_array.reshape((1, motl_array.shape[0], motl_array.shape[1])).astype(np.single)
    self.header = {}  # FIXME fails on writing back the header
    emfile.write(output_path, motl_array, self.header, overwrite=True)
'''

ORIG_MOTL_WRITE_OUT = '''
def write_out(self, output_path, motl_type="emmotl"):
    if motl_type.lower() == "emmotl":
        OrigEmMotl(self.df).write_out(output_path)
    else:
        raise UserInputError(f"Provided motl file {output_path} has format that is currently not supported.")
'''

_ns = dict(vars(cryomotl))
exec(ORIG_READ_IN, _ns)
_orig_read_in = _ns["read_in"]
exec(ORIG_WRITE_OUT, _ns)
_orig_write_out = _ns["write_out"]


class OrigEmMotl(EmMotl):
    """EmMotl with the two original functions (constructor, check_df_type ... are inherited from the tree)."""

    read_in = staticmethod(_orig_read_in)
    write_out = _orig_write_out


_ns["OrigEmMotl"] = OrigEmMotl
exec(ORIG_MOTL_WRITE_OUT, _ns)
_orig_motl_write_out = _ns["write_out"]


def _same_code(func, orig_text):
    """True when func (in the tree) is the kept original, ignoring docstring, comments and layout."""
    import ast

    def body(src):
        fn = ast.parse(textwrap.dedent(src)).body[0]
        stmts = fn.body
        if stmts and isinstance(stmts[0], ast.Expr) and isinstance(getattr(stmts[0], "value", None), ast.Constant):
            stmts = stmts[1:]
        return [ast.dump(st) for st in stmts]

    return body(inspect.getsource(func)) == body(orig_text)


tree_is_original = _same_code(EmMotl.read_in, ORIG_READ_IN) and _same_code(EmMotl.write_out, ORIG_WRITE_OUT)

# ------------------------------------------------------------------------------------------------------------------
# independent EM reader and independent expectation
# ------------------------------------------------------------------------------------------------------------------
FLT_MAX = 3.4028234663852886e38


def parse_em(raw):
    """Independent EM parser: returns (machine, dtype code, xdim, ydim, zdim, list of float32 bit patterns)."""
    assert len(raw) >= 512, "file shorter than an EM header"
    machine, version, unused, dtype_code = struct.unpack("<bbbb", raw[0:4])
    xdim, ydim, zdim = struct.unpack("<iii", raw[4:16])
    body = raw[512:]
    assert len(body) % 4 == 0, "payload is not a whole number of float32"
    bits = struct.unpack("<%dI" % (len(body) // 4), body)
    return machine, dtype_code, xdim, ydim, zdim, bits


def expected_rows(table):
    """table: DataFrame with the 20 fields in any order -> list of rows (canonical order) of python floats, NaN -> 0.0."""
    cols = {name: [float(v) for v in table[name].tolist()] for name in CANON}
    n = len(table)
    rows = []
    for r in range(n):
        row = []
        for name in CANON:
            v = cols[name][r]
            row.append(0.0 if math.isnan(v) else v)
        rows.append(row)
    return rows


def expected_payload(rows):
    flat = [v for row in rows for v in row]
    return struct.pack("<%df" % len(flat), *flat)  # IEEE round-to-nearest-even, independent of numpy casting


def check_file(path, table, label):
    raw = Path(path).read_bytes()
    n = len(table)
    machine, dtype_code, xdim, ydim, zdim, bits = parse_em(raw)
    assert machine == 6, f"{label}: machine byte {machine}"
    assert dtype_code == 5, f"{label}: dtype code {dtype_code} is not float32"
    assert (xdim, ydim, zdim) == (20, n, 1), f"{label}: dims {(xdim, ydim, zdim)} != (20, {n}, 1)"
    assert len(raw) == 512 + 4 * 20 * n, f"{label}: file size {len(raw)}"
    rows = expected_rows(table)
    payload = expected_payload(rows)
    if raw[512:] != payload:
        exp_bits = struct.unpack("<%dI" % (20 * n), payload)
        bad = [i for i in range(20 * n) if exp_bits[i] != bits[i]][:5]
        raise AssertionError(
            f"{label}: payload differs at (row, field) " + ", ".join(f"({i // 20}, {CANON[i % 20]})" for i in bad)
        )
    return raw, rows, payload


def check_loaded(loaded_df, payload, n, label):
    assert list(loaded_df.columns) == CANON, f"{label}: loaded columns {list(loaded_df.columns)}"
    assert loaded_df.shape == (n, 20), f"{label}: loaded shape {loaded_df.shape}"
    assert all(str(t) == "float64" for t in loaded_df.dtypes), f"{label}: loaded dtypes {set(map(str, loaded_df.dtypes))}"
    assert list(loaded_df.index) == list(range(n)), f"{label}: loaded index"
    f32 = struct.unpack("<%df" % (20 * n), payload)  # exact float32 values as python floats
    k = 0
    got_rows = loaded_df.to_numpy().tolist()
    for r in range(n):
        got = got_rows[r]
        for c in range(20):
            e = f32[k]
            g = got[c]
            if not (g == e and math.copysign(1.0, g) == math.copysign(1.0, e)):
                raise AssertionError(f"{label}: loaded ({r}, {CANON[c]}) = {g!r}, expected {e!r}")
            k += 1


def snapshot(df):
    return (list(df.columns), list(df.index), [str(t) for t in df.dtypes], df.to_numpy(copy=True, dtype=object).tolist())


def same_snapshot(a, b):
    if a[0] != b[0] or a[1] != b[1] or a[2] != b[2] or len(a[3]) != len(b[3]):
        return False
    for ra, rb in zip(a[3], b[3]):
        for x, y in zip(ra, rb):
            if isinstance(x, float) and isinstance(y, float) and math.isnan(x) and math.isnan(y):
                continue
            if not (x == y and type(x) is type(y)):
                return False
            if isinstance(x, float) and math.copysign(1.0, x) != math.copysign(1.0, y):
                return False
    return True


# ------------------------------------------------------------------------------------------------------------------
# input generation
# ------------------------------------------------------------------------------------------------------------------
def random_values(rng, n):
    """n x 20 float64 values, finite, inside the float32 range."""
    kind = rng.integers(0, 7)
    if kind == 0:  # typical motl: ids, coordinates, angles
        a = rng.uniform(-180.0, 360.0, size=(n, 20))
        a[:, 3] = rng.integers(1, 10**6, size=n)
        a[:, 4] = rng.integers(1, 500, size=n)
        a[:, 5] = rng.integers(1, 5000, size=n)
        a[:, 7:10] = rng.integers(1, 4096, size=(n, 3))
    elif kind == 1:  # values that need rounding, many magnitudes
        a = rng.standard_normal((n, 20)) * 10.0 ** rng.integers(-30, 30, size=(n, 20))
    elif kind == 2:  # near the float32 limits and the subnormal range
        pool = np.array([FLT_MAX, -FLT_MAX, 3.4028234e38, 1.17549435e-38, 1e-40, -1e-42, 1.4e-45, 7e-46, 1e-50,
                         -1e-60, 0.0, -0.0, 1.0, -1.0, 16777216.0, 16777217.0, 16777219.0, 1e38, -3.3e38])
        a = rng.choice(pool, size=(n, 20))
    elif kind == 3:  # exact ties between two neighbouring float32 values (round half to even)
        m = rng.integers(1, 2**23, size=(n, 20)).astype(float)
        e = rng.integers(-20, 20, size=(n, 20))
        a = (1.0 + (2.0 * m + 1.0) / 2.0**24) * 2.0**e * rng.choice([-1.0, 1.0], size=(n, 20))
    elif kind == 4:  # large integers beyond 2**24 (subtomo ids of big data sets)
        a = rng.integers(-(2**40), 2**40, size=(n, 20)).astype(float)
    elif kind == 5:  # every column a different constant: any mix-up of fields is visible
        a = np.tile(np.arange(1.0, 21.0) * 1.1, (n, 1)) + rng.integers(0, 3, size=(n, 1))
    else:
        a = rng.uniform(-1.0, 1.0, size=(n, 20))
    return np.asarray(a, dtype=float)


def punch_holes(rng, a):
    a = a.copy()
    mode = rng.integers(0, 6)
    n = a.shape[0]
    if mode == 0:
        pass
    elif mode == 1:
        a[rng.random(a.shape) < 0.15] = np.nan
    elif mode == 2:
        a[:, rng.integers(0, 20)] = np.nan  # a whole field missing
    elif mode == 3:
        a[rng.integers(0, n), :] = np.nan  # a whole particle missing
    elif mode == 4:
        a[:, :] = np.nan  # nothing there at all
    else:
        a[rng.random(a.shape) < 0.6] = np.nan
    return a


def random_index(rng, n):
    mode = rng.integers(0, 6)
    if mode == 0:
        return None
    if mode == 1:
        return rng.permutation(n)
    if mode == 2:
        return rng.integers(0, 3, size=n)  # repeated labels
    if mode == 3:
        return [f"p{int(i)}" for i in rng.permutation(n)]
    if mode == 4:
        return np.arange(n)[::-1] * 10 + 5
    return rng.uniform(-5, 5, size=n)


def build_table(rng, values, perm, index):
    """The table in column order perm (names); three different ways of building it (different internal layouts)."""
    canon_pos = {name: i for i, name in enumerate(CANON)}
    how = rng.integers(0, 4)
    if how == 0:  # dict in the permuted order, one array per column
        df = pd.DataFrame({name: values[:, canon_pos[name]].copy() for name in perm})
    elif how == 1:  # one 2-D block
        df = pd.DataFrame(np.ascontiguousarray(values[:, [canon_pos[name] for name in perm]]), columns=perm)
    elif how == 2:  # canonical frame, columns re-selected
        df = pd.DataFrame(values.copy(), columns=CANON)[perm]
    else:  # Fortran ordered block, columns assigned afterwards
        df = pd.DataFrame(np.asfortranarray(values[:, [canon_pos[name] for name in perm]]))
        df.columns = perm
    if index is not None:
        df.index = index
    return df


def random_perm(rng, case):
    if case % 7 == 0:
        return list(CANON)
    if case % 7 == 1:
        return list(reversed(CANON))
    if case % 7 == 2:
        return sorted(CANON)
    if case % 7 == 3:  # one neighbouring pair swapped: phi / psi / theta is the classic
        p = list(CANON)
        i = int(rng.integers(0, 19))
        p[i], p[i + 1] = p[i + 1], p[i]
        return p
    return [CANON[i] for i in rng.permutation(20)]


# ------------------------------------------------------------------------------------------------------------------
# the checks
# ------------------------------------------------------------------------------------------------------------------
def frames_identical(a, b, label):
    assert list(a.columns) == list(b.columns), f"{label}: columns differ"
    assert list(a.index) == list(b.index), f"{label}: index differs"
    assert [str(t) for t in a.dtypes] == [str(t) for t in b.dtypes], f"{label}: dtypes differ"
    assert a.to_numpy().tobytes() == b.to_numpy().tobytes(), f"{label}: values differ"


def one_case(rng, case, tmp):
    n = int(rng.choice([1, 1, 2, 3, 5, 17, 64, 200]))
    values = punch_holes(rng, random_values(rng, n))
    perm = random_perm(rng, case)
    table = build_table(rng, values, perm, random_index(rng, n))
    snap = snapshot(table)
    label = f"case {case} (N={n})"

    p_motl = os.path.join(tmp, f"m{case}.em")
    p_em = Path(tmp) / f"e{case}.em"  # a pathlib.Path for one of the two
    p_orig = os.path.join(tmp, f"o{case}.em")
    p_orig2 = os.path.join(tmp, f"o2_{case}.em")

    # --- path 1: Motl.write_out(..., "emmotl") ---------------------------------------------------------------
    m = Motl(table)
    m_snap = snapshot(m.df)
    ret = m.write_out(p_motl, "emmotl" if case % 2 else "EmMotl")
    assert ret is None
    raw1, rows, payload = check_file(p_motl, table, label + " Motl.write_out")
    assert same_snapshot(snapshot(m.df), m_snap), f"{label}: Motl.df changed by write_out"
    assert same_snapshot(snapshot(table), snap), f"{label}: caller's table changed by Motl.write_out"

    # --- path 2: EmMotl(...).write_out ------------------------------------------------------------------------
    em = EmMotl(table)
    assert same_snapshot(snapshot(table), snap), f"{label}: caller's table changed by EmMotl()"
    if case % 3 == 0:
        # holes / another column order that appear after construction (em.df is the caller's to edit)
        em.df = em.df[[CANON[i] for i in rng.permutation(20)]]
        holes = rng.random((n, 20)) < 0.2
        em.df = em.df.mask(pd.DataFrame(holes, columns=em.df.columns, index=em.df.index))
    em_snap = snapshot(em.df)
    em_table = em.df.copy()
    ret = em.write_out(p_em)
    assert ret is None
    raw2, rows2, payload2 = check_file(p_em, em_table, label + " EmMotl.write_out")
    assert same_snapshot(snapshot(em.df), em_snap), f"{label}: EmMotl.df changed by write_out"
    assert em.header == {}, f"{label}: header after write_out {em.header!r}"
    if case % 3 != 0:
        assert raw2 == raw1, f"{label}: the two writers disagree"

    # --- original writer on the same inputs -------------------------------------------------------------------
    oem = OrigEmMotl(table)
    oem.df = em_table.copy()
    oem.write_out(p_orig)
    assert Path(p_orig).read_bytes() == raw2, f"{label}: file differs from the one of the original EmMotl.write_out"
    assert oem.header == em.header
    _orig_motl_write_out(Motl(table), p_orig2, "emmotl")
    assert Path(p_orig2).read_bytes() == raw1, f"{label}: file differs from the one of the original Motl.write_out path"
    assert same_snapshot(snapshot(table), snap), f"{label}: caller's table changed"

    # --- loading ----------------------------------------------------------------------------------------------
    for path, pl, nm in ((p_motl, payload, "Motl file"), (p_em, payload2, "EmMotl file")):
        loaded = Motl.load(path)  # default motl_type
        assert isinstance(loaded, EmMotl)
        check_loaded(loaded.df, pl, n, f"{label} load {nm}")
        loaded2 = Motl.load(str(path), "emmotl")
        frames_identical(loaded.df, loaded2.df, f"{label} load twice {nm}")
        df_new, h_new = EmMotl.read_in(path)
        df_old, h_old = OrigEmMotl.read_in(path)
        frames_identical(df_new, df_old, f"{label} read_in vs original {nm}")
        frames_identical(df_new, loaded.df, f"{label} read_in vs load {nm}")
        assert h_new == h_old and list(h_new) == list(h_old), f"{label}: headers differ from the original read_in"
        assert Path(path).read_bytes() == (raw1 if nm == "Motl file" else raw2), f"{label}: reading changed the file"

        # repeated calls: write the loaded list again (same object twice), bytes stay the same
        again = os.path.join(tmp, f"again{case}.em")
        loaded.write_out(again)
        first = Path(again).read_bytes()
        loaded.write_out(again)
        assert Path(again).read_bytes() == first == Path(path).read_bytes(), f"{label}: write -> load -> write not stable"
        Motl(loaded.df).write_out(again, "emmotl")
        assert Path(again).read_bytes() == first, f"{label}: Motl path on loaded list not stable"
        os.remove(again)

    # writing the same objects a second time gives the same files
    m.write_out(p_motl, "emmotl")
    em.write_out(p_em)
    assert Path(p_motl).read_bytes() == raw1 and Path(p_em).read_bytes() == raw2, f"{label}: second write differs"
    for p in (p_motl, p_em, p_orig, p_orig2):
        os.remove(p)


def error_paths(tmp):
    """Same exceptions, same messages as the original reader; nothing half written."""
    import emfile

    missing = os.path.join(tmp, "nope.em")
    msgs = []
    for reader in (EmMotl.read_in, OrigEmMotl.read_in):
        try:
            reader(missing)
            msgs.append("no error")
        except UserInputError as e:
            msgs.append(str(e))
    assert msgs[0] == msgs[1] and "does not exist" in msgs[0], msgs

    for width in (19, 21, 1):
        p = os.path.join(tmp, f"w{width}.em")
        emfile.write(p, np.zeros((1, 4, width), dtype=np.float32), {}, overwrite=True)
        msgs = []
        for reader in (EmMotl.read_in, OrigEmMotl.read_in):
            try:
                reader(p)
                msgs.append("no error")
            except UserInputError as e:
                msgs.append(str(e))
        assert msgs[0] == msgs[1] and f"contains {width} columns" in msgs[0], msgs
        try:
            Motl.load(p)
            raise AssertionError("20-column check did not fire through Motl.load")
        except UserInputError:
            pass

    # a float64 (dtype 9) and an int32 (dtype 4) EM file with 20 columns are still read into float64 columns
    for dt in (np.float64, np.int32, np.int16):
        p = os.path.join(tmp, "other.em")
        data = (np.arange(60).reshape(1, 3, 20) * 3 - 50).astype(dt)
        emfile.write(p, data, {}, overwrite=True)
        a, ha = EmMotl.read_in(p)
        b, hb = OrigEmMotl.read_in(p)
        frames_identical(a, b, f"read_in {dt.__name__}")
        assert ha == hb
        assert a.to_numpy().tolist() == data[0].astype(float).tolist()

    # wrong tables are still refused by both constructors
    bad = pd.DataFrame(np.zeros((2, 19)), columns=CANON[:19])
    for ctor in (Motl, EmMotl):
        try:
            ctor(bad)
            raise AssertionError("19-column table accepted")
        except ValueError:
            pass


def beyond_quantifier(rng, tmp):
    """Not needed for the property, but the writer should agree with the original here as well: integer / float32 /
    boolean columns (a Motl built by hand), an empty list."""
    for case in range(40):
        n = int(rng.choice([0, 1, 4, 30]))
        perm = [CANON[i] for i in rng.permutation(20)]
        data = {}
        for name in perm:
            k = rng.integers(0, 4)
            if k == 0:
                data[name] = rng.integers(-(2**23), 2**23, size=n)
            elif k == 1:
                data[name] = rng.standard_normal(n).astype(np.float32)
            elif k == 2:
                data[name] = rng.random(n) < 0.5
            else:
                col = rng.standard_normal(n) * 1e3
                col[rng.random(n) < 0.3] = np.nan
                data[name] = col
        table = pd.DataFrame(data)
        snap = snapshot(table)
        p_new = os.path.join(tmp, "bq_new.em")
        p_old = os.path.join(tmp, "bq_old.em")
        m = Motl(table)
        em, oem = EmMotl(table), OrigEmMotl(table)
        if case % 2:
            # skip the constructor's normalisation: the writer sees the mixed-dtype frame itself
            em.df, oem.df = table.copy(), table.copy()
        em.write_out(p_new)
        oem.write_out(p_old)
        assert Path(p_new).read_bytes() == Path(p_old).read_bytes(), f"beyond quantifier case {case}: files differ"
        m.write_out(p_new, "emmotl")
        _orig_motl_write_out(Motl(table), p_old, "emmotl")
        assert Path(p_new).read_bytes() == Path(p_old).read_bytes(), f"beyond quantifier case {case}: Motl files differ"
        assert same_snapshot(snapshot(table), snap)
        if n == 0:
            # an empty list cannot be read back (the width check indexes the first row): the same error as before
            errs = []
            for reader in (EmMotl.read_in, OrigEmMotl.read_in):
                try:
                    reader(p_new)
                    errs.append(None)
                except Exception as e:
                    errs.append((type(e).__name__, str(e)))
            assert errs[0] == errs[1] and errs[0] is not None and errs[0][0] == "IndexError", errs
            continue
        a, _ = EmMotl.read_in(p_new)
        b, _ = OrigEmMotl.read_in(p_new)
        frames_identical(a, b, f"beyond quantifier case {case} read_in")


def main():
    assert list(Motl.motl_columns) == CANON, "Motl.motl_columns is no longer the canonical EM field order"
    rng = np.random.default_rng(20260928)
    n_cases = 420
    with tempfile.TemporaryDirectory(prefix="c01_demo_") as tmp:
        for case in range(n_cases):
            one_case(rng, case, tmp)
        error_paths(tmp)
        beyond_quantifier(rng, tmp)
        left = os.listdir(tmp)
        assert all(f in ("nope.em", "w19.em", "w21.em", "w1.em", "other.em", "bq_new.em", "bq_old.em") for f in left), left
    print(f"tree functions EmMotl.read_in / EmMotl.write_out are {'the original ones' if tree_is_original else 'PATCHED (differ from the kept original text)'}")
    print(f"{n_cases} random tables x 2 writers: bytes, reload, original-vs-tree, inputs untouched, repeated calls -- all hold")
    print("PASS")


if __name__ == "__main__":
    try:
        main()
    except AssertionError as e:
        print("FAIL:", e)
        sys.exit(1)
