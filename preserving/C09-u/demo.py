"""C09 / change b -- clean_by_tomo_mask computes the inside-the-mask-volume flags through a helper that fills a boolean
buffer which clean_by_tomo_mask allocates for exactly that purpose (ufuncs with out=), instead of six comparisons
chained with `&`.  The demo checks the property (exactly the particles whose position x+shift falls into a voxel of the
mask volume of their own tomogram that holds zero are removed, all others - outside the volume, other tomograms - are
kept and not altered) against a per-particle computation, compares the method of the tree with a verbatim copy of the
original one and verifies that motl (inplace=False), masks and the tomogram list are left untouched.

run:  cd /tmp/wt11/C09 && /venv/bin/python /tmp/seedsV/C09/b/demo.py
"""
import os
import sys

sys.path.insert(0, os.getcwd())

import contextlib
import io
import math

import numpy as np
import pandas as pd

from cryocat import cryomap, cryomotl, ioutils
from cryocat.cryomotl import Motl


# ----------------------------------------------------------------------------------------------------------------------
# verbatim copy of the original method (HEAD d4d8304)
def orig_clean_by_tomo_mask(self, tomo_list, tomo_masks, inplace=True, output_file=None):
    tomos = ioutils.tlt_load(tomo_list)

    requries_loading = True

    if isinstance(tomo_masks, list):
        if len(tomos) != len(tomo_masks):
            raise ValueError(f"The list of tomograms has different length than lists of tomogram masks")
    else:
        tomo_mask = cryomap.binarize(tomo_masks)
        requries_loading = False

    cleaned_motl = Motl.load(self)

    for i, t in enumerate(tomos):
        tm = self.get_motl_subset(t, reset_index=True)
        coords = np.floor(tm.get_coordinates()).astype(int)  # voxel holding the position (astype alone puts -0.3 into voxel 0)
        if requries_loading:
            tomo_mask = cryomap.binarize(tomo_masks[i])

        # Ensure coordinates are within the bounds of the mask array
        within_bounds = (
            (coords[:, 0] >= 0)
            & (coords[:, 1] >= 0)
            & (coords[:, 2] >= 0)
            & (coords[:, 0] < tomo_mask.shape[0])
            & (coords[:, 1] < tomo_mask.shape[1])
            & (coords[:, 2] < tomo_mask.shape[2])
        )
        within_idx = np.where(within_bounds)[0]
        coords = coords[within_bounds]

        # Filter out coordinates where the mask value is 0
        mask_values = tomo_mask[coords[:, 0], coords[:, 1], coords[:, 2]]

        # Get the indices (within the tomogram subset) of the particles that sit on zero voxels
        idx_to_remove = within_idx[mask_values == 0]
        subtomo_idx = tm.df.loc[idx_to_remove, "subtomo_id"].values

        # only rows of this tomogram: subtomogram numbers may repeat in other tomograms
        hits = (cleaned_motl.df["tomo_id"] == t) & cleaned_motl.df["subtomo_id"].isin(subtomo_idx)
        cleaned_motl.df = cleaned_motl.df[~hits]

        print(f"Removed {str(idx_to_remove.shape[0])} particles from tomogram #{str(t)}")

    cleaned_motl.df.reset_index(inplace=True, drop=True)

    if output_file is not None:
        cleaned_motl.write_out(output_file)

    if inplace:
        self.df = cleaned_motl.df
    else:
        return cleaned_motl


# ----------------------------------------------------------------------------------------------------------------------
def make_motl(rng, n, tomo_ids, dims):
    """Positions inside, on the faces of and beyond the volume of the particle's tomogram."""
    df = pd.DataFrame(0.0, index=np.arange(n), columns=Motl.motl_columns)
    df["score"] = rng.random(n)
    df["subtomo_id"] = (rng.permutation(n) + 1).astype(float)  # unique, not in table order
    df["tomo_id"] = rng.choice(tomo_ids, size=n).astype(float)
    df["object_id"] = rng.integers(1, 4, size=n).astype(float)
    df["class"] = rng.integers(1, 3, size=n).astype(float)
    df[["phi", "psi", "theta"]] = rng.uniform(-180, 180, size=(n, 3))
    df["geom2"] = rng.integers(0, 100, size=n).astype(float)
    xyz = np.zeros((n, 3))
    shifts = np.zeros((n, 3))
    for k in range(n):
        d = np.asarray(dims.get(df["tomo_id"].iloc[k], (8, 8, 8)), dtype=float)
        kind = rng.integers(0, 6)
        if kind == 0:  # anywhere, fractional
            pos = rng.uniform(-4.0, d + 4.0)
        elif kind == 1:  # exactly on a face / edge / corner value
            pos = np.array([rng.choice([-1.0, -0.0, 0.0, 0.5, dd - 1.0, dd - 0.5, dd, dd + 1.0]) for dd in d])
        elif kind == 2:  # just around the faces
            pos = np.array([rng.choice([-1e-9, 1e-9, dd - 1e-9, dd + 1e-9, -0.3, dd - 0.3]) for dd in d])
        elif kind == 3:  # inside on whole numbers
            pos = np.floor(rng.uniform(0, d))
        elif kind == 4:  # one axis beyond, the others inside
            pos = rng.uniform(0, d)
            ax = rng.integers(0, 3)
            pos[ax] = rng.choice([-rng.uniform(0.001, 5.0), d[ax] + rng.uniform(0.0, 5.0)])
        else:  # inside, fractional
            pos = rng.uniform(0, d)
        if rng.integers(0, 2):  # the complete position is x + shift
            sh = np.round(rng.uniform(-2.5, 2.5, size=3), 2)
            xyz[k] = pos - sh
            shifts[k] = sh
        else:
            xyz[k] = pos
    df[["x", "y", "z"]] = xyz
    df[["shift_x", "shift_y", "shift_z"]] = shifts
    return df


def expected_keep(df, tomos, masks_by_pos):
    """Per particle, with python numbers only. masks_by_pos[i] is the (0/1) mask that belongs to tomos[i]."""
    keep = np.ones(len(df), dtype=bool)
    for k in range(len(df)):
        t = df["tomo_id"].iloc[k]
        p = [df[c].iloc[k] + df[s].iloc[k] for c, s in (("x", "shift_x"), ("y", "shift_y"), ("z", "shift_z"))]
        v = [math.floor(c) for c in p]
        for i, tt in enumerate(tomos):
            if tt != t:
                continue
            mask = masks_by_pos[i]
            inside = all(0 <= v[a] <= mask.shape[a] - 1 for a in range(3))
            if inside and mask[v[0]][v[1]][v[2]] == 0:
                keep[k] = False
    return keep


def same_table(a, b):
    if list(a.columns) != list(b.columns) or a.shape != b.shape:
        return False
    if not np.array_equal(a.index.to_numpy(), b.index.to_numpy()):
        return False
    return np.array_equal(a.to_numpy(dtype=float), b.to_numpy(dtype=float), equal_nan=True)


def quiet(fn, *args, **kwargs):
    with contextlib.redirect_stdout(io.StringIO()):
        return fn(*args, **kwargs)


def main():
    rng = np.random.default_rng(9092)
    failures = []
    n_cases = 0
    n_removed = 0
    n_outside = 0

    for trial in range(160):
        n_cases += 1
        n_tomo = int(rng.integers(1, 5))
        tomo_ids = [float(t) for t in rng.choice(np.arange(1, 30), size=n_tomo, replace=False)]
        dims = {t: tuple(int(v) for v in rng.integers(1, 12, size=3)) for t in tomo_ids}
        n = int(rng.integers(1, 70))
        df = make_motl(rng, n, tomo_ids, dims)

        # tomograms that get a mask: a subset of the motl's tomograms, sometimes one the motl does not have,
        # sometimes one of them twice; given as list or ndarray
        listed = [t for t in tomo_ids if rng.random() < 0.8] or [tomo_ids[0]]
        if trial % 5 == 0:
            listed.append(99.0)
            dims[99.0] = (3, 4, 5)
        if trial % 11 == 0:
            listed.append(listed[0])
        listed = [listed[j] for j in rng.permutation(len(listed))]
        tomo_list = np.array(listed) if trial % 2 else list(listed)

        mask_dtype = [np.int64, np.float32, np.uint8, bool][trial % 4]
        single = trial % 7 == 3
        if single:
            shape = tuple(int(v) for v in rng.integers(1, 12, size=3))
            one = (rng.random(shape) < rng.choice([0.0, 0.3, 0.7, 1.0])).astype(mask_dtype)
            tomo_masks = one
            masks_by_pos = [one.astype(int) for _ in listed]
        else:
            tomo_masks = [
                (rng.random(dims[t]) < rng.choice([0.0, 0.3, 0.7, 1.0])).astype(mask_dtype) for t in listed
            ]
            masks_by_pos = [m.astype(int) for m in tomo_masks]

        keep = expected_keep(df, listed, masks_by_pos)
        expected = df.loc[keep].reset_index(drop=True)
        n_removed += int((~keep).sum())

        df_before = df.copy(deep=True)
        masks_before = tomo_masks.copy() if single else [m.copy() for m in tomo_masks]
        list_before = np.array(listed)

        def inputs_untouched():
            ok = np.array_equal(np.asarray(tomo_list), list_before)
            if single:
                ok = ok and np.array_equal(tomo_masks, masks_before) and tomo_masks.dtype == masks_before.dtype
            else:
                ok = ok and len(tomo_masks) == len(masks_before)
                ok = ok and all(np.array_equal(a, b) and a.dtype == b.dtype for a, b in zip(tomo_masks, masks_before))
            return ok

        # --- inplace=False, twice on the same objects
        m = Motl(df)
        for rep in range(2):
            res = quiet(m.clean_by_tomo_mask, tomo_list, tomo_masks, inplace=False)
            if not same_table(res.df, expected):
                failures.append(f"case {n_cases} rep {rep}: result differs from the per-particle expectation")
            if not (m.df is df and same_table(df, df_before)):
                failures.append(f"case {n_cases} rep {rep}: motl changed by inplace=False")
            if not inputs_untouched():
                failures.append(f"case {n_cases} rep {rep}: masks / tomogram list changed")

        # --- the original method on the same input
        res_o = quiet(orig_clean_by_tomo_mask, Motl(df.copy(deep=True)), tomo_list, tomo_masks, inplace=False)
        if not same_table(res.df, res_o.df) or list(res.df.dtypes) != list(res_o.df.dtypes):
            failures.append(f"case {n_cases}: tree method and original method disagree (inplace=False)")

        # --- inplace=True against the original, then once more (nothing left to remove)
        m1 = Motl(df.copy(deep=True))
        m2 = Motl(df.copy(deep=True))
        r1 = quiet(m1.clean_by_tomo_mask, tomo_list, tomo_masks)
        r2 = quiet(orig_clean_by_tomo_mask, m2, tomo_list, tomo_masks)
        if r1 is not None or r2 is not None:
            failures.append(f"case {n_cases}: inplace=True returned something")
        if not same_table(m1.df, expected) or not same_table(m1.df, m2.df):
            failures.append(f"case {n_cases}: inplace result wrong / differs from the original")
        quiet(m1.clean_by_tomo_mask, tomo_list, tomo_masks)
        if not same_table(m1.df, expected):
            failures.append(f"case {n_cases}: second inplace call changed the survivors")
        if not inputs_untouched():
            failures.append(f"case {n_cases}: masks / tomogram list changed by the inplace calls")

        # count particles outside the volume of their mask (they all have to survive - covered by `expected`)
        pos = np.floor(df[["x", "y", "z"]].to_numpy() + df[["shift_x", "shift_y", "shift_z"]].to_numpy())
        for i, t in enumerate(listed):
            sel = df["tomo_id"].to_numpy() == t
            shp = np.array(masks_by_pos[i].shape)
            n_outside += int((((pos[sel] < 0) | (pos[sel] >= shp)).any(axis=1)).sum())

    # --- error behaviour is the same: wrong number of masks, mask that is not 3D
    df = make_motl(rng, 10, [1.0, 2.0], {1.0: (5, 5, 5), 2.0: (5, 5, 5)})
    for fn in (Motl.clean_by_tomo_mask, orig_clean_by_tomo_mask):
        mm = Motl(df.copy(deep=True))
        try:
            quiet(fn, mm, [1.0, 2.0], [np.ones((5, 5, 5))])
            failures.append("no ValueError for a wrong number of masks")
        except ValueError:
            pass
        try:
            quiet(fn, mm, [1.0], [np.ones((5, 5))])
            failures.append("no IndexError for a 2D mask")
        except IndexError:
            pass
        if not same_table(mm.df, df):
            failures.append("motl changed by a failing call")

    # --- the helper of the patched tree (if present) against the chained expression, buffer convention
    helper = getattr(cryomotl, "_fill_within_shape", None)
    if helper is not None:
        for trial in range(300):
            k = int(rng.integers(0, 40))
            vox = rng.integers(-3, 12, size=(k, 3))
            shape = tuple(int(v) for v in rng.integers(1, 10, size=3))
            ref = (
                (vox[:, 0] >= 0) & (vox[:, 1] >= 0) & (vox[:, 2] >= 0)
                & (vox[:, 0] < shape[0]) & (vox[:, 1] < shape[1]) & (vox[:, 2] < shape[2])
            )
            vox_before = vox.copy()
            out = np.empty(k, dtype=bool)
            out[:] = rng.integers(0, 2, size=k).astype(bool)  # stale content must not matter
            helper(vox, shape, out)
            if not (np.array_equal(out, ref) and out.dtype == ref.dtype and np.array_equal(vox, vox_before)):
                failures.append(f"helper trial {trial}: flags differ / voxels changed")

    if failures:
        print("FAIL")
        for f in failures[:20]:
            print("  ", f)
        sys.exit(1)
    print(f"PASS ({n_cases} cases, {n_removed} particles removed, {n_outside} particles outside their mask volume kept)")


if __name__ == "__main__":
    main()
