"""C01 / change b -- EM particle lists round-trip losslessly for any column order of the source table.

Checks, over many random and edge-case tables (every one in a random column permutation, NaN holes included):
  1. the constructor accepts the table in every column order and keeps that order (Motl.check_df_correct_format);
  2. the bytes on disk, read with an independent EM parser (struct + numpy.frombuffer), are a float32 volume of shape
     1 x N x 20 whose fields are score, geom1, ..., class and whose values are the single-precision roundings of the
     source values, NaN written as 0;
  3. Motl.load(path).df has the same particles in the same order, canonical columns, float values equal to (2);
  4. both paths (Motl.write_out(..., 'emmotl') and EmMotl.write_out), repeated calls on the same object give the same bytes;
  5. the caller's table / the object's table / Motl.motl_columns are left untouched (values, NaN holes, column order, index);
  6. the current Motl.check_df_correct_format answers exactly like the ORIGINAL one (text kept below) on right and wrong
     tables, also after Motl.motl_columns is edited and restored, and the files written with the original check patched
     in are byte-for-byte the same.
Prints PASS and exits 0 when everything holds.
"""
import os
import sys

sys.path.insert(0, os.getcwd())

import struct
import tempfile
import textwrap
import warnings

import numpy as np
import pandas as pd

from cryocat import cryomotl
from cryocat.cryomotl import EmMotl, Motl

CANON = ["score", "geom1", "geom2", "subtomo_id", "tomo_id", "object_id", "subtomo_mean", "x", "y", "z",
         "shift_x", "shift_y", "shift_z", "geom3", "geom4", "geom5", "phi", "psi", "theta", "class"]
assert Motl.motl_columns == CANON, "canonical field order changed"

# ---------------------------------------------------------------------------------------------------------------
# the original function, verbatim (HEAD d4d8304), compiled into a stand-alone function
ORIGINAL_CHECK = '''
def check_df_correct_format(input_df):
    if sorted(Motl.motl_columns) == sorted(input_df.columns):
        return True
    else:
        return False
'''
_ns = {"Motl": Motl}
exec(textwrap.dedent(ORIGINAL_CHECK), _ns)
orig_check = _ns["check_df_correct_format"]


# ---------------------------------------------------------------------------------------------------------------
def read_bytes(path):
    with open(path, "rb") as fh:
        return fh.read()


def parse_em(path):
    """Independent EM parser: 512-byte header (machine, version, unused, dtype, xdim, ydim, zdim as b b b b i i i)."""
    raw = read_bytes(path)
    assert len(raw) >= 512, "file shorter than an EM header"
    machine, _version, _unused, dtype_code = struct.unpack("<4b", raw[:4])
    xdim, ydim, zdim = struct.unpack("<3i", raw[4:16])
    assert machine == 6, f"machine code {machine}"
    assert dtype_code == 5, f"data type code {dtype_code} is not float32"
    assert len(raw) == 512 + 4 * xdim * ydim * zdim, "payload size does not match the header"
    data = np.frombuffer(raw, dtype="<f4", offset=512).reshape(zdim, ydim, xdim)
    return data, raw


def expected_volume(columns):
    """columns: dict name -> 1-d float64 array. Built field by field, without pandas."""
    n = len(columns["score"])
    vol = np.zeros((1, n, 20), dtype=np.float32)
    for j, name in enumerate(CANON):
        for i in range(n):
            v = float(columns[name][i])
            vol[0, i, j] = np.float32(0.0) if v != v else np.float32(v)
    return vol


def same_bits(a, b):
    a = np.ascontiguousarray(a, dtype=np.float32)
    b = np.ascontiguousarray(b, dtype=np.float32)
    return a.shape == b.shape and a.tobytes() == b.tobytes()


def frames_identical(a, b):
    """Same columns in the same order, same index, same dtypes, same values with NaN == NaN and -0.0 != 0.0."""
    if list(a.columns) != list(b.columns) or not a.index.equals(b.index):
        return False
    if list(a.dtypes) != list(b.dtypes):
        return False
    for c in a.columns:
        x, y = a[c].to_numpy(), b[c].to_numpy()
        if x.dtype.kind == "f":
            if x.tobytes() != y.tobytes():
                return False
        elif not all((p is q) or (p == q) or (p != p and q != q) for p, q in zip(x, y)):
            return False
    return True


EDGE = np.array([0.0, -0.0, 1.0, -1.0, 0.1, 1.0 / 3.0, 16777217.0, -16777217.0, 3.4028234e38, -3.4028234e38,
                 1.17549435e-38, 1e-45, 7e-46, 1e-50, -1e-50, 1 + 2.0 ** -24, 1 + 2.0 ** -24 + 2.0 ** -50,
                 1 + 3 * 2.0 ** -24, 360.0, -179.99999999, 2147483648.0, 123456789.0, 1e-300, 5e-324])


def random_columns(rng, n, flavour):
    cols = {}
    for name in CANON:
        if flavour == "edge":
            v = rng.choice(EDGE, size=n)
        elif flavour == "wide":
            v = rng.uniform(-1, 1, size=n) * 10.0 ** rng.integers(-40, 38, size=n)
        elif flavour == "ids":
            v = rng.integers(-5, 40000000, size=n).astype(float)
        else:
            v = rng.normal(0, 200, size=n)
        v = np.asarray(v, dtype=np.float64)
        if flavour != "nonan":
            holes = rng.random(n) < rng.choice([0.0, 0.1, 0.5, 1.0])
            v = np.where(holes, np.nan, v)
        cols[name] = v
    return cols


def build_table(rng, cols, index_kind):
    order = [CANON[k] for k in rng.permutation(20)]
    df = pd.DataFrame({name: cols[name].copy() for name in order})
    assert list(df.columns) == order
    n = len(df)
    if index_kind == 1:
        df.index = rng.permutation(n) + 7
    elif index_kind == 2:
        df.index = [f"p{k}" for k in rng.permutation(n)]
    return df


def check_loaded(path, vol, what):
    loaded = Motl.load(path)
    assert isinstance(loaded, EmMotl)
    ldf = loaded.df
    assert list(ldf.columns) == CANON, f"{what}: loaded columns {list(ldf.columns)}"
    assert ldf.shape == (vol.shape[1], 20), f"{what}: loaded shape {ldf.shape}"
    assert ldf.index.equals(pd.RangeIndex(vol.shape[1])), f"{what}: loaded index"
    assert all(dt == np.float64 for dt in ldf.dtypes), f"{what}: loaded dtypes"
    for j, name in enumerate(CANON):
        got = ldf[name].to_numpy()
        want = vol[0, :, j].astype(np.float64)
        assert got.tobytes() == want.tobytes(), f"{what}: field {name} differs after loading"
    assert not ldf.isna().to_numpy().any(), f"{what}: NaN after loading"


def one_case(rng, tmp, n, flavour, index_kind, case_no):
    cols = random_columns(rng, n, flavour)
    vol = expected_volume(cols)
    df = build_table(rng, cols, index_kind)
    df_before = df.copy(deep=True)
    tag = f"case {case_no} (N={n}, {flavour}, index {index_kind}, order {list(df.columns)[:3]}...)"
    p1, p2, p3, p4, p5 = (os.path.join(tmp, f"{case_no}_{k}.em") for k in range(5))

    # path 1: generic Motl built by the constructor (keeps the caller's column order), dispatching writer
    m = Motl(df)
    assert list(m.df.columns) == list(df_before.columns)
    m.write_out(p1, "emmotl")
    data, raw1 = parse_em(p1)
    assert data.shape == (1, n, 20), f"{tag}: volume shape {data.shape}"
    assert same_bits(data, vol), f"{tag}: Motl.write_out bytes differ from the single-precision source values"
    check_loaded(p1, vol, tag + " Motl.write_out")
    assert frames_identical(df, df_before), f"{tag}: caller's table changed by Motl.write_out"
    assert m.df is df or frames_identical(m.df, df_before)
    m.write_out(p1, "emmotl")  # repeated call, same object, same file
    assert read_bytes(p1) == raw1, f"{tag}: second Motl.write_out wrote different bytes"
    assert frames_identical(df, df_before)

    # path 2: EmMotl built from the table, its own writer; holes punched into the object's table afterwards, so
    # that the writer itself has to zero them and must not touch the object's table
    e = EmMotl(df)
    assert frames_identical(df, df_before), f"{tag}: caller's table changed by EmMotl()"
    perm = rng.permutation(n)
    e.df = e.df.iloc[perm]  # non-default index, permuted particles
    mask = rng.random((n, 20)) < 0.15
    e.df = e.df.mask(mask)
    edf_before = e.df.copy(deep=True)
    cols2 = {name: edf_before[name].to_numpy().copy() for name in CANON}
    vol2 = expected_volume(cols2)
    # reference for vol2 straight from the source arrays
    for j, name in enumerate(CANON):
        src = np.where(np.isnan(cols[name]), 0.0, cols[name])[perm]
        src = np.where(mask[:, list(edf_before.columns).index(name)], 0.0, src)
        assert vol2[0, :, j].tobytes() == src.astype(np.float32).tobytes()
    held = e.df  # another holder of the object's table
    e.write_out(p2)
    data2, raw2 = parse_em(p2)
    assert same_bits(data2, vol2), f"{tag}: EmMotl.write_out bytes differ"
    check_loaded(p2, vol2, tag + " EmMotl.write_out")
    assert e.df is held, f"{tag}: EmMotl.write_out replaced the object's table"
    assert frames_identical(e.df, edf_before), f"{tag}: EmMotl.write_out changed the object's table"
    e.write_out(p3)
    assert read_bytes(p3) == raw2, f"{tag}: second EmMotl.write_out wrote different bytes"
    assert frames_identical(e.df, edf_before)
    assert frames_identical(df, df_before)

    # current check versus the original check: same answers, and the same files with the original check patched in
    assert Motl.check_df_correct_format(df) is True and orig_check(df) is True
    assert Motl.check_df_correct_format(e.df) is True and orig_check(e.df) is True
    assert Motl.motl_columns == CANON, f"{tag}: Motl.motl_columns was reordered"
    assert frames_identical(df, df_before)
    current_check = Motl.__dict__["check_df_correct_format"]
    Motl.check_df_correct_format = staticmethod(orig_check)
    try:
        Motl(df).write_out(p4, "emmotl")
        e2 = EmMotl(df)
        e2.df = e2.df.iloc[perm].mask(mask)
        e2.write_out(p5)
    finally:
        Motl.check_df_correct_format = current_check
    assert read_bytes(p4) == raw1, f"{tag}: Motl.write_out differs when the original check is patched in"
    assert read_bytes(p5) == raw2, f"{tag}: EmMotl.write_out differs when the original check is patched in"

    # loading a written list and writing it again is the identity on the bytes
    again = Motl.load(p2)
    again.write_out(p3)
    assert read_bytes(p3) == raw2
    for p in (p1, p2, p3, p4, p5):
        os.remove(p)


def outcome(fn, arg):
    try:
        r = fn(arg)
        return ("value", type(r), r)
    except Exception as err:  # same kind of failure is the same behaviour
        return ("raises", type(err))


class FakeTable:
    """Anything with a .columns attribute goes through the check."""

    def __init__(self, columns):
        self.columns = columns


def check_cases():
    """Motl.check_df_correct_format against the original on right and wrong tables; inputs must stay as they were."""
    rng = np.random.default_rng(77)
    tables = []
    for _ in range(300):
        order = [CANON[k] for k in rng.permutation(20)]
        kind = int(rng.integers(0, 9))
        if kind == 0:
            names = order
        elif kind == 1:
            names = order[:-1]  # a field is missing
        elif kind == 2:
            names = order + ["extra"]
        elif kind == 3:
            names = order[:-1] + [order[0]]  # 20 names, one twice
        elif kind == 4:
            names = [n.upper() if k == 3 else n for k, n in enumerate(order)]
        elif kind == 5:
            names = order[:-1] + [7]  # not sortable together with strings
        elif kind == 6:
            names = list(range(20))
        elif kind == 7:
            names = order[: int(rng.integers(0, 20))]
        else:
            names = order + order
        tables.append(pd.DataFrame(np.zeros((2, len(names))), columns=names))
    tables.append(pd.DataFrame())
    tables.append(pd.DataFrame(np.zeros((1, 20)), columns=pd.MultiIndex.from_product([["a"], CANON])))
    tables.append(pd.DataFrame(np.zeros((1, 20)), columns=pd.Index(CANON, name="field")))
    tables.append(pd.DataFrame(np.zeros((1, 20)), columns=pd.Index(CANON[::-1], dtype="str")))
    tables.append(pd.DataFrame(np.zeros((1, 20)), columns=pd.Index(CANON[::-1], dtype=object)))
    tables.append(FakeTable(list(reversed(CANON))))
    tables.append(FakeTable(tuple(CANON)))
    tables.append(FakeTable(np.array(CANON[5:] + CANON[:5])))
    tables.append(FakeTable(iter(CANON)))  # a one-shot iterator: consumed exactly once by either version
    tables.append(FakeTable(CANON[:19]))
    tables.append(object())  # no .columns at all
    n_true = 0
    for k, t in enumerate(tables):
        one_shot = isinstance(t, FakeTable) and not hasattr(t.columns, "__len__")
        if one_shot:
            t_orig = FakeTable(iter(CANON))
        else:
            t_orig = t
        before = None if not hasattr(t, "columns") or one_shot else list(t.columns)
        got = outcome(Motl.check_df_correct_format, t)
        want = outcome(orig_check, t_orig)
        assert got == want, f"check case {k}: current {got}, original {want}"
        again = outcome(Motl.check_df_correct_format, t) if not one_shot else got
        assert again == got, f"check case {k}: second call answers differently"
        if before is not None:
            assert list(t.columns) == before, f"check case {k}: the names of the input were reordered"
        assert Motl.motl_columns == CANON, f"check case {k}: Motl.motl_columns was reordered"
        n_true += got[0] == "value" and got[2] is True
    assert n_true >= 30

    # an edited canonical list is honoured at once, and so is the restored one (nothing stale is remembered)
    saved = Motl.motl_columns
    right = pd.DataFrame(np.zeros((1, 20)), columns=CANON[::-1])
    try:
        for edited in (CANON + ["extra"], CANON[:-1], CANON[::-1], ["extra"] + CANON, list(CANON)):
            Motl.motl_columns = edited
            fits = pd.DataFrame(np.zeros((1, len(edited))), columns=edited[::-1])
            for t in (right, fits):
                assert outcome(Motl.check_df_correct_format, t) == outcome(orig_check, t), f"edited list {edited[:2]}"
            assert Motl.motl_columns is edited and Motl.motl_columns == list(edited)
    finally:
        Motl.motl_columns = saved
    assert Motl.check_df_correct_format(right) is True and Motl.motl_columns == CANON
    return len(tables)


def main():
    rng = np.random.default_rng(20240901)
    flavours = ["normal", "edge", "wide", "ids", "nonan"]
    sizes = [1, 1, 2, 3, 5, 17, 64, 257]
    case_no = 0
    with warnings.catch_warnings():
        warnings.simplefilter("error")  # a new warning from the writer would be a change of behaviour, too
        with tempfile.TemporaryDirectory() as tmp:
            for rep in range(6):
                for n in sizes:
                    for flavour in flavours:
                        one_case(rng, tmp, n, flavour, int(rng.integers(0, 3)), case_no)
                        case_no += 1
            n_checks = check_cases()
    print(f"{n_checks} right / wrong tables: the format check answers like the original one")
    print(f"{case_no} tables in random column orders, both writer paths, repeated calls: all round-trip losslessly")
    print("PASS")


if __name__ == "__main__":
    try:
        main()
    except AssertionError as err:
        print("FAIL:", err)
        sys.exit(1)
