#!/venv/bin/python
"""C13 -- masks: analytic shapes and voxel-wise set algebra.   change b: postprocess() gets defaults and every caller passes keywords (callee and callers together)

Run as:  cd /tmp/wt7/C13 && /venv/bin/python /tmp/seedsT/C13/b/demo.py

Part 1 tests the property against an independent computation (exact integer arithmetic on np.indices) for
many box sizes, centres, radii / heights, shell thicknesses, Gaussian widths and both edge modes, and the set
algebra for lists of 1..5 binary / soft masks.
Part 2 compares, on the very same inputs, the functions of the imported (possibly patched) cryocat.cryomask
with the ORIGINAL function texts kept below (docstrings removed, otherwise verbatim), executed in a copy of
the module's namespace: same values, same dtype, same shape, same exception type.
Part 3 (change b): postprocess called positionally as before, identity when there is nothing to do, rotated
shapes, the two tight masks, files written exactly when a name is given.
Prints PASS and exits 0 when everything holds.
"""
import os
import sys

sys.path.insert(0, os.getcwd())

import inspect
import warnings

import numpy as np

from cryocat import cryomask

warnings.filterwarnings("ignore")

ORIG_SRC = r'''
def parse_shape_string(shape_string):

    # Define regular expressions for each shape type
    patterns = {
        "sphere": r"^sphere_r(\d+)$",
        "cylinder": r"^cylinder_r(\d+)_h(\d+)$",
        "s_shell": r"^s_shell_r(\d+)_s(\d+)$",
        "ellipsoid": r"^ellipsoid_rx(\d+)_ry(\d+)_rz(\d+)$",
        "e_shell": r"^e_shell_rx(\d+)_ry(\d+)_rz(\d+)_s(\d+)$",
    }

    for shape_type, pattern in patterns.items():
        match = re.match(pattern, shape_string)
        if match:
            numbers = [int(num) for num in match.groups()]
            return shape_type, numbers

    raise ValueError(f"String '{shape_string}' does not match any known shape pattern.")


def generate_mask(mask_shape, mask_size=None, mask_expansion=4):

    shape, specs = parse_shape_string(mask_shape)

    if mask_size is None:
        mask_size = 2 * np.max(specs) + mask_expansion
        mask_size = math.ceil(mask_size / 2) * 2

    if shape == "sphere":
        mask = spherical_mask(mask_size=mask_size, radius=specs[0])
    elif shape == "cylinder":
        mask = cylindrical_mask(mask_size=mask_size, radius=specs[0], height=specs[1])
    elif shape == "s_shell":
        mask_size = math.ceil((mask_size + specs[1]) / 2) * 2
        mask = spherical_shell_mask(mask_size=mask_size, shell_thickness=specs[1], radius=specs[0])
    elif shape == "ellipsoid":
        mask = ellipsoid_mask(mask_size=mask_size, radii=specs)
    elif shape == "e_shell":
        mask = ellipsoid_shell_mask(mask_size=mask_size, shell_thickness=specs[3], radii=specs[0:3])

    return mask


def add_gaussian(input_mask, sigma):

    if sigma == 0:
        return input_mask
    else:
        return filters.gaussian(input_mask, sigma=sigma)


def write_out(input_mask, output_name):

    if output_name is not None:
        cryomap.write(input_mask, output_name, data_type=np.single)


def rotate(input_mask, angles):

    if angles is None or not np.any(angles):
        return input_mask
    else:
        return cryomap.rotate(input_mask, rotation_angles=angles)


def postprocess(input_mask, gaussian, angles, output_name):

    mask = add_gaussian(input_mask, gaussian)
    mask = rotate(mask, angles)
    write_out(mask, output_name)

    return mask


def union(mask_list, output_name=None):

    final_mask = np.zeros(cryomap.read(mask_list[0]).shape)

    for m in mask_list:
        mask = cryomap.read(m)
        final_mask += mask

    final_mask = np.clip(final_mask, 0.0, 1.0)

    write_out(final_mask, output_name)

    return final_mask


def intersection(mask_list, output_name=None):
    final_mask = np.ones(cryomap.read(mask_list[0]).shape)

    for m in mask_list:
        mask = cryomap.read(m)
        final_mask *= mask

    final_mask = np.clip(final_mask, 0.0, 1.0)
    write_out(final_mask, output_name)

    return final_mask


def subtraction(mask_list, output_name=None):
    # in floating point, like union and intersection: unsigned masks would wrap around at 0 - 1, boolean ones have no `-`
    final_mask = cryomap.read(mask_list[0]).astype(float)

    for m in mask_list[1:]:
        mask = cryomap.read(m)
        final_mask -= mask

    final_mask = np.clip(final_mask, 0.0, 1.0)
    write_out(final_mask, output_name)

    return final_mask


def difference(mask_list, output_name=None):

    union_mask = union(mask_list)
    inter_mask = intersection(mask_list)

    final_mask = union_mask - inter_mask
    final_mask = np.clip(final_mask, 0.0, 1.0)
    write_out(final_mask, output_name)

    return final_mask


def spherical_shell_mask(mask_size, shell_thickness, radius=None, center=None, gaussian=0.0, output_name=None):

    mask_size = get_correct_format(mask_size)
    center = get_correct_format(center, reference_size=mask_size)

    if radius is None:
        radius = np.amin(mask_size) // 2

    shell_thickness = shell_thickness / 2

    sp1 = spherical_mask(mask_size, radius=radius + shell_thickness, center=center)
    sp2 = spherical_mask(mask_size, radius=radius - shell_thickness, center=center)

    shell_mask = sp1 - sp2

    shell_mask = postprocess(shell_mask, gaussian, np.asarray([0, 0, 0]), output_name)

    return shell_mask


def spherical_mask(mask_size, radius=None, center=None, gaussian=0.0, gaussian_outwards=True, output_name=None):

    mask_size = get_correct_format(mask_size)
    center = get_correct_format(center, reference_size=mask_size)

    if radius is None:
        radius = np.amin(mask_size) // 2

    radius = preprocess_params(radius, gaussian, gaussian_outwards)

    x, y, z = np.mgrid[0 : mask_size[0] : 1, 0 : mask_size[1] : 1, 0 : mask_size[2] : 1]
    mask = np.sqrt((x - center[0]) ** 2 + (y - center[1]) ** 2 + (z - center[2]) ** 2)
    mask[mask > radius] = 0
    mask[mask > 0] = 1
    if radius >= 0:
        # the distance map is zero at the center, so the center has to be set explicitly (a negative radius is an empty sphere)
        mask[center[0], center[1], center[2]] = 1

    mask = postprocess(mask, gaussian, np.asarray([0, 0, 0]), output_name)

    return mask


def cylindrical_mask(
    mask_size,
    radius=None,
    height=None,
    center=None,
    gaussian=0,
    gaussian_outwards=True,
    angles=None,
    output_name=None,
):
    mask_size = get_correct_format(mask_size)
    center = get_correct_format(center, reference_size=mask_size)

    if radius is None:
        radius = np.amin(mask_size[:2]) // 2  # only x, y are relevant

    if height is None:
        height = mask_size[2]

    height = height // 2

    radius = preprocess_params(radius, gaussian, gaussian_outwards)
    height = preprocess_params(height, gaussian, gaussian_outwards)

    x, y = np.mgrid[0 : mask_size[0] : 1, 0 : mask_size[1] : 1]
    mask_xy = np.sqrt((x - center[0]) ** 2 + (y - center[1]) ** 2)
    mask_xy[mask_xy > radius] = 0
    mask_xy[mask_xy > 0] = 1
    mask_xy[center[0], center[1]] = 1

    mask = np.zeros(mask_size)
    mask[:, :, center[2] - height : center[2] + height + 1] = np.tile(mask_xy[:, :, None], (1, 1, height * 2 + 1))

    mask = postprocess(mask, gaussian, angles, output_name)

    return mask


def get_correct_format(input_value, reference_size=None):

    def format_input(unformatted_value):
        if isinstance(unformatted_value, (tuple, list, np.ndarray)):
            if len(unformatted_value) == 3:
                return np.asarray(unformatted_value).astype(int)
            elif len(unformatted_value) == 1:
                return np.full((3,), unformatted_value).astype(int)
            else:
                raise ValueError("The size have to be a single number or have to have length of 3!")
        elif isinstance(unformatted_value, (float, int)):
            return np.full((3,), unformatted_value).astype(int)

    if input_value is not None:
        size_correct_format = format_input(input_value)
    elif reference_size is not None:
        box_size = format_input(reference_size)
        size_correct_format = box_size // 2
    else:
        raise ValueError("Either input_size or referene_size have to be specified")

    return size_correct_format


def ellipsoid_shell_mask(mask_size, shell_thickness, radii, center=None, gaussian=0.0, angles=None, output_name=None):

    mask_size = get_correct_format(mask_size)
    center = get_correct_format(center, reference_size=mask_size)
    radii = get_correct_format(radii, reference_size=mask_size)

    shell_thickness = shell_thickness / 2

    e1 = ellipsoid_mask(mask_size, radii=radii + shell_thickness, center=center)
    e2 = ellipsoid_mask(mask_size, radii=radii - shell_thickness, center=center)

    shell_mask = e1 & ~e2

    shell_mask = postprocess(shell_mask, gaussian, angles, output_name)

    return shell_mask


def ellipsoid_mask(
    mask_size,
    radii=None,
    center=None,
    gaussian=0,
    output_name=None,
    angles=None,
    gaussian_outwards=True,
):
    mask_shape = get_correct_format(mask_size)
    center = get_correct_format(center, reference_size=mask_shape)
    radii = get_correct_format(radii, reference_size=mask_shape)

    radii = preprocess_params(radii, gaussian, gaussian_outwards)

    # Build a grid and get its points as a list
    xi = tuple(np.linspace(1, s, s) - np.floor(0.5 * s) for s in mask_shape)

    # Build a list of points forming the grid
    xi = np.meshgrid(*xi, indexing="ij")
    points = np.array(xi).reshape(3, -1)[::-1]

    # Find grid center
    grid_center = 0.5 * mask_shape - center
    grid_center = np.tile(grid_center.reshape(3, 1), (1, points.shape[1]))

    # Reorder coordinates back to ZYX to match the order of numpy array axis
    points = points[:, ::-1]
    grid_center = grid_center[::-1]
    radii = radii[::-1]
    radii = np.tile(radii.reshape(3, 1), (1, points.shape[1]))

    # Draw the ellipsoid
    # dx**2 + dy**2 + dz**2 = r**2
    # dx**2 / r**2 + dy**2 / r**2 + dz**2 / r**2 = 1
    ellipsoid = (points - grid_center) ** 2
    ellipsoid = ellipsoid / radii**2
    # Sum dx, dy, dz / r**2
    distance = np.sum(ellipsoid, axis=0).reshape(mask_shape)

    mask = distance <= 1

    mask = postprocess(mask, gaussian, angles, output_name)

    return mask


def preprocess_params(radius, gaussian, gaussian_outwards):

    blur_factor = 5.0

    if gaussian != 0.0 and gaussian_outwards:
        new_radius = np.ceil(radius + gaussian * blur_factor).astype(int)
    else:
        new_radius = radius

    return new_radius


def molmap_tight_mask(
    input_map,
    threshold=0.0,
    dilation_size=0,
    gaussian=0,
    gaussian_outwards=True,
    angles=None,
    output_name=None,
):

    model = cryomap.read(input_map)

    dilation_size = preprocess_params(dilation_size, gaussian, gaussian_outwards)

    if dilation_size == 0:
        mask = np.where(model > threshold, 1.0, 0.0)
    else:
        mask = ndimage.binary_dilation(model, iterations=dilation_size)

    mask = postprocess(mask, gaussian, angles, output_name)

    return mask


def map_tight_mask(
    input_map,
    threshold=None,
    dilation_size=0,
    gaussian=0,
    gaussian_outwards=True,
    angles=None,
    n_regions=1,
    output_name=None,
):

    mask = cryomap.read(input_map)

    if threshold is None:
        threshold = 3.0 * np.std(mask)
        if np.median(mask) > 0.0:
            threshold *= -1

    if threshold < 0.0:
        mask = np.where(mask < threshold, 1.0, 0.0)
    else:
        mask = np.where(mask > threshold, 1.0, 0.0)

    labeled_mask = measure.label(mask, connectivity=1)
    info_table = pd.DataFrame(
        measure.regionprops_table(
            labeled_mask,
            properties=["label", "area"],
        )
    ).set_index("label")
    info_table = info_table.reset_index()

    label_ids = info_table.sort_values(by="area", ascending=False).head(n_regions)["label"].values
    # label_id = info_table.iloc[info_table['area'].idxmax()]['label']
    mask = np.where(np.isin(labeled_mask, [label_ids]), 1.0, 0.0)

    dilation_size = preprocess_params(dilation_size, gaussian, gaussian_outwards)

    if dilation_size > 0:
        mask = ndimage.binary_dilation(mask, iterations=dilation_size)

    mask = postprocess(mask, gaussian, angles, output_name)

    return mask


'''

# ---------------------------------------------------------------------------------------------------------
# the original functions, living in their own namespace (they call each other, not the patched ones)
orig_ns = dict(vars(cryomask))
exec(compile(ORIG_SRC, "<original cryomask functions>", "exec"), orig_ns)


class _NS:
    pass


O = _NS()
for _k, _v in list(orig_ns.items()):
    if inspect.isfunction(_v) and _v.__code__.co_filename == "<original cryomask functions>":
        setattr(O, _k, _v)

N_COMPARED = [0]
N_CHECKED = [0]
N_RAISED = {}
FAIL = []


def fail(msg):
    FAIL.append(msg)
    print("FAIL:", msg)
    if len(FAIL) > 20:
        print("too many failures")
        sys.exit(1)


def call(f, args, kw):
    try:
        with np.errstate(all="ignore"):
            return ("ok", f(*args, **kw))
    except Exception as e:  # noqa
        return ("exc", type(e))


def both(name, *args, **kw):
    """Call the current and the original function `name` on (copies of) the same arguments, require identical
    outcomes and return the current outcome: an array, or the exception class."""
    a_args = [np.array(a, copy=True) if isinstance(a, np.ndarray) else a for a in args]
    r_new = call(getattr(cryomask, name), args, kw)
    r_old = call(getattr(O, name), a_args, kw)
    N_COMPARED[0] += 1
    tag = f"{name}{args!r}{kw!r}"[:300]
    if r_new[0] != r_old[0]:
        fail(f"outcome kind differs new={r_new!r:.200} old={r_old!r:.200} for {tag}")
        return r_new[1]
    if r_new[0] == "exc":
        N_RAISED[name] = N_RAISED.get(name, 0) + 1
        if r_new[1] is not r_old[1]:
            fail(f"exception differs new={r_new[1]} old={r_old[1]} for {tag}")
        return r_new[1]
    n, o = r_new[1], r_old[1]
    if isinstance(n, np.ndarray) or isinstance(o, np.ndarray):
        if not (isinstance(n, np.ndarray) and isinstance(o, np.ndarray)):
            fail(f"type differs {type(n)} {type(o)} for {tag}")
        elif n.dtype != o.dtype or n.shape != o.shape:
            fail(f"dtype/shape differs {n.dtype}{n.shape} vs {o.dtype}{o.shape} for {tag}")
        elif not np.array_equal(n, o, equal_nan=(n.dtype.kind == "f")):
            fail(f"values differ in {np.count_nonzero(n != o)} voxels for {tag}")
    else:
        if type(n) is not type(o) or n != o:
            fail(f"result differs {n!r} vs {o!r} for {tag}")
    return n


def is_exc(r):
    return isinstance(r, type) and issubclass(r, Exception)


def expect(cond, msg):
    N_CHECKED[0] += 1
    if not cond:
        fail(msg)


# ---------------------------------------------------------------------------------------------------------
# independent reference shapes: exact integer arithmetic, radii given as fractions num/den
def grid(size):
    return np.indices(tuple(int(s) for s in size)).astype(np.int64)


def ref_sphere(size, c, num, den=1):
    """voxels with |v-c| <= num/den  <=>  den^2 * d2 <= num^2 (and num >= 0)"""
    i, j, k = grid(size)
    d2 = (i - c[0]) ** 2 + (j - c[1]) ** 2 + (k - c[2]) ** 2
    if num < 0:
        return np.zeros(d2.shape, bool)
    return den * den * d2 <= num * num


def ref_cylinder(size, c, r, hh):
    i, j, k = grid(size)
    d2 = (i - c[0]) ** 2 + (j - c[1]) ** 2
    return (d2 <= r * r) & (np.abs(k - c[2]) <= hh)


def ref_ellipsoid(size, c, rad):
    """sum(((v-c)/r)^2) <= 1 in exact integers; also returns the voxels lying exactly on the surface"""
    i, j, k = grid(size)
    rx, ry, rz = (int(r) for r in rad)
    lhs = (i - c[0]) ** 2 * (ry * rz) ** 2 + (j - c[1]) ** 2 * (rx * rz) ** 2 + (k - c[2]) ** 2 * (rx * ry) ** 2
    rhs = (rx * ry * rz) ** 2
    return lhs <= rhs, lhs == rhs


rng = np.random.default_rng(1313)


def rand_size(even=False):
    if even:
        return [int(2 * rng.integers(3, 25)) for _ in range(3)]
    return [int(rng.integers(6, 49)) for _ in range(3)]


def rand_center(size):
    mode = rng.integers(0, 5)
    if mode == 0:
        return None
    if mode == 1:  # a corner / face of the box: first and last elements
        return [int(rng.choice([0, s - 1])) for s in size]
    return [int(rng.integers(0, s)) for s in size]


def eff_center(size, center):
    return [s // 2 for s in size] if center is None else list(center)


def as_kind(v, kind):
    """the same size / centre given as list, tuple, int array or float array"""
    if v is None:
        return None
    return [list(v), tuple(v), np.asarray(v), np.asarray(v, dtype=float)][kind % 4]


def binary_ok(m):
    return isinstance(m, np.ndarray) and np.all((m == 0) | (m == 1))


# ---------------------------------------------------------------------------------------------------------
def test_spheres(n=160):
    fixed = [([6, 6, 6], None, None), ([48, 7, 6], None, 3), ([7, 48, 9], [0, 0, 0], 60), ([9, 8, 47], [8, 7, 46], 1)]
    for t in range(n):
        if t < len(fixed):
            size, center, radius = fixed[t]
        else:
            size, center = rand_size(), None
            center = rand_center(size)
            radius = [None, 1, int(rng.integers(1, 12)), int(rng.integers(1, 70)), float(rng.integers(1, 30))][t % 5]
        c = eff_center(size, center)
        m = both("spherical_mask", as_kind(size, t), radius=radius, center=as_kind(center, t // 4))
        r = min(size) // 2 if radius is None else int(radius)
        expect(not is_exc(m) and m.shape == tuple(size) and m.dtype == np.float64, f"sphere shape/dtype {size}")
        expect(binary_ok(m) and np.array_equal(m == 1, ref_sphere(size, c, r)), f"sphere {size} c={center} r={radius}")
    # cubic box given as one number, positional arguments
    for s in (6, 7, 20, 33):
        m = both("spherical_mask", s, 4, [2, 3, 1])
        expect(np.array_equal(m == 1, ref_sphere([s] * 3, [2, 3, 1], 4)), f"sphere cubic {s}")


def test_cylinders(n=160):
    n_ok = 0
    for t in range(n):
        size = rand_size()
        center = rand_center(size)
        radius = [None, 1, int(rng.integers(1, 12)), int(rng.integers(1, 70))][t % 4]
        height = [None, 1, 2, int(rng.integers(1, 14)), int(rng.integers(1, 14)), int(rng.integers(1, 70))][t % 6]
        if t % 3 == 0 and center is not None:  # give the cylinder room along z more often
            center[2] = size[2] // 2
        c = eff_center(size, center)
        m = both("cylindrical_mask", as_kind(size, t), radius=radius, height=height, center=as_kind(center, t // 4))
        r = min(size[:2]) // 2 if radius is None else radius
        hh = (size[2] if height is None else height) // 2
        fits = c[2] - hh >= 0 and c[2] + hh + 1 <= size[2]
        if not fits:
            # the slab does not fit between the first and the last section: the original refuses (shape mismatch)
            expect(m is ValueError, f"cylinder beyond the box {size} c={center} h={height} -> {m}")
            continue
        n_ok += 1
        expect(not is_exc(m) and m.shape == tuple(size) and m.dtype == np.float64, f"cyl shape/dtype {size}")
        expect(binary_ok(m) and np.array_equal(m == 1, ref_cylinder(size, c, r, hh)),
               f"cylinder {size} c={center} r={radius} h={height}")
    expect(n_ok > n // 4, "too few cylinders inside the box")


def test_ellipsoids(n=160):
    ties = 0
    for t in range(n):
        size = rand_size(even=True)
        center = rand_center(size)
        if t % 4 == 0:
            radii = None
        elif t % 4 == 1:
            radii = [int(rng.integers(1, 8)) for _ in range(3)]
        elif t % 4 == 2:
            radii = [int(rng.integers(1, 70)) for _ in range(3)]
        else:
            radii = [5, 5, 5] if t % 8 == 3 else [int(rng.integers(1, 30))]  # many voxels exactly on the surface
        c = eff_center(size, center)
        m = both("ellipsoid_mask", as_kind(size, t), radii=as_kind(radii, t // 2), center=as_kind(center, t // 4))
        rad = [s // 2 for s in size] if radii is None else (radii * 3 if len(radii) == 1 else radii)
        ref, tie = ref_ellipsoid(size, c, rad)
        ties += int(tie.sum())
        expect(not is_exc(m) and m.shape == tuple(size) and m.dtype == bool, f"ellipsoid shape/dtype {size}")
        # off the surface the membership is exact; on the surface (sum == 1 analytically) the three quotients
        # are rounded before they are added, so those voxels are only compared with the original function
        expect(np.array_equal(m[~tie], ref[~tie]), f"ellipsoid {size} c={center} radii={radii}")
        if len(set(rad)) == 1:  # a sphere written as ellipsoid: k/r^2 sums are exact enough on the surface
            expect(np.array_equal(m, ref), f"ellipsoid-sphere surface {size} c={center} radii={radii}")
    expect(ties > 0, "no voxel on a surface was exercised")


def test_shells(n=100):
    for t in range(n):
        size = rand_size()
        center = rand_center(size)
        c = eff_center(size, center)
        radius = [None, int(rng.integers(1, 12)), int(rng.integers(1, 60))][t % 3]
        thick = int(rng.integers(1, 9))
        m = both("spherical_shell_mask", as_kind(size, t), thick, radius=radius, center=as_kind(center, t // 4))
        r = min(size) // 2 if radius is None else radius
        ref = ref_sphere(size, c, 2 * r + thick, 2) & ~ref_sphere(size, c, 2 * r - thick, 2)
        expect(not is_exc(m) and binary_ok(m) and np.array_equal(m == 1, ref),
               f"s_shell {size} c={center} r={radius} s={thick}")
    for t in range(n):
        size = rand_size(even=True)
        center = rand_center(size)
        c = eff_center(size, center)
        radii = [int(rng.integers(2, 20)) for _ in range(3)]
        thick = int(rng.integers(1, 2 * min(radii) - 1)) if min(radii) > 1 else 1
        thick = min(thick, 2 * (min(radii) - 1))  # inner radii stay >= 1
        thick = max(thick, 1)
        m = both("ellipsoid_shell_mask", as_kind(size, t), thick, as_kind(radii, t // 2), center=as_kind(center, t // 4))
        outer = [int(r + thick / 2) for r in radii]
        inner = [int(r - thick / 2) for r in radii]
        if min(inner) < 1:
            continue
        (ro, to), (ri, ti) = ref_ellipsoid(size, c, outer), ref_ellipsoid(size, c, inner)
        ok = ~(to | ti)
        expect(not is_exc(m) and m.dtype == bool and np.array_equal(m[ok], (ro & ~ri)[ok]),
               f"e_shell {size} c={center} radii={radii} s={thick}")
        # outer solid minus inner solid, built from the solids of the same module
        e1 = cryomask.ellipsoid_mask(size, radii=outer, center=c)
        e2 = cryomask.ellipsoid_mask(size, radii=inner, center=c)
        expect(np.array_equal(m, e1 & ~e2), f"e_shell is not outer minus inner {size}")
    # degenerate inner radius (0): only old against new
    both("ellipsoid_shell_mask", [12, 10, 8], 4, [2, 3, 2])
    both("ellipsoid_shell_mask", [12, 10, 8], 3, [1, 1, 1], center=[0, 9, 3])
    both("spherical_shell_mask", [12, 10, 8], 6, radius=2)


def test_names(n=40):
    for t in range(n):
        r, h, s = int(rng.integers(1, 18)), int(rng.integers(1, 18)), int(rng.integers(1, 7))
        rx, ry, rz = (int(v) for v in rng.integers(2, 16, 3))
        ms = None if t % 2 == 0 else int(2 * rng.integers(3, 25))
        # sphere
        m = both("generate_mask", f"sphere_r{r}", mask_size=ms)
        n0 = ms if ms is not None else -(-(2 * r + 4) // 2) * 2
        expect(not is_exc(m) and m.shape == (n0,) * 3 and np.array_equal(m == 1, ref_sphere([n0] * 3, [n0 // 2] * 3, r)),
               f"name sphere_r{r} size {ms}")
        # cylinder
        m = both("generate_mask", f"cylinder_r{r}_h{h}", mask_size=ms)
        n0 = ms if ms is not None else 2 * max(r, h) + 4
        if n0 // 2 - h // 2 >= 0 and n0 // 2 + h // 2 + 1 <= n0:
            expect(not is_exc(m) and np.array_equal(m == 1, ref_cylinder([n0] * 3, [n0 // 2] * 3, r, h // 2)),
                   f"name cylinder_r{r}_h{h} size {ms}")
        else:
            expect(m is ValueError, f"name cylinder beyond box r{r} h{h} size {ms}: {m}")
        # spherical shell
        m = both("generate_mask", f"s_shell_r{r}_s{s}", mask_size=ms)
        n0 = ms if ms is not None else 2 * max(r, s) + 4
        n0 = -(-(n0 + s) // 2) * 2
        ref = ref_sphere([n0] * 3, [n0 // 2] * 3, 2 * r + s, 2) & ~ref_sphere([n0] * 3, [n0 // 2] * 3, 2 * r - s, 2)
        expect(not is_exc(m) and m.shape == (n0,) * 3 and np.array_equal(m == 1, ref), f"name s_shell_r{r}_s{s} size {ms}")
        # ellipsoid
        m = both("generate_mask", f"ellipsoid_rx{rx}_ry{ry}_rz{rz}", mask_size=ms)
        n0 = ms if ms is not None else 2 * max(rx, ry, rz) + 4
        ref, tie = ref_ellipsoid([n0] * 3, [n0 // 2] * 3, [rx, ry, rz])
        expect(not is_exc(m) and m.shape == (n0,) * 3 and np.array_equal(m[~tie], ref[~tie]),
               f"name ellipsoid {rx},{ry},{rz} size {ms}")
        # ellipsoid shell
        s2 = min(s, 2 * (min(rx, ry, rz) - 1))
        if s2 >= 1:
            m = both("generate_mask", f"e_shell_rx{rx}_ry{ry}_rz{rz}_s{s2}", mask_size=ms)
            n0 = ms if ms is not None else 2 * max(rx, ry, rz, s2) + 4
            outer = [int(v + s2 / 2) for v in (rx, ry, rz)]
            inner = [int(v - s2 / 2) for v in (rx, ry, rz)]
            (ro, to), (ri, ti) = ref_ellipsoid([n0] * 3, [n0 // 2] * 3, outer), ref_ellipsoid([n0] * 3, [n0 // 2] * 3, inner)
            ok = ~(to | ti)
            expect(not is_exc(m) and np.array_equal(m[ok], (ro & ~ri)[ok]), f"name e_shell {rx},{ry},{rz},{s2} size {ms}")
    for bad in ("sphere10", "cylinder_r_h20", "random_string"):
        expect(both("parse_shape_string", bad) is ValueError, "bad name accepted")
    for good in ("sphere_r10", "cylinder_r5_h20", "s_shell_r15_s3", "ellipsoid_rx4_ry5_rz6", "e_shell_rx8_ry9_rz10_s2"):
        both("parse_shape_string", good)


def test_soft(n=90):
    sigmas = [0.0, 0.3, 0.5, 1.0, 1.7, 2.4, 3.0]
    for t in range(n):
        g = sigmas[t % len(sigmas)]
        outw = bool((t // len(sigmas)) % 2 == 0)
        ext = int(np.ceil(5.0 * g)) if (g != 0 and outw) else 0
        size = rand_size(even=True)
        center = rand_center(size)
        c = eff_center(size, center)
        # sphere
        r = int(rng.integers(1, 25))
        m = both("spherical_mask", size, radius=r, center=center, gaussian=g, gaussian_outwards=outw)
        expect(not is_exc(m) and m.min() >= -1e-12 and m.max() <= 1 + 1e-12, f"soft sphere range g={g}")
        if outw:
            expect(np.all(np.abs(m[ref_sphere(size, c, r)] - 1) <= 1e-3), f"soft sphere core g={g} r={r} {size} {center}")
        if g != 0:
            hard = ref_sphere(size, c, r + ext)
            if hard.any() and not hard.all():
                expect(len(np.unique(m)) > 2, "mask was not blurred")
        # cylinder
        h = int(rng.integers(1, 16))
        m = both("cylindrical_mask", size, radius=r, height=h, center=center, gaussian=g, gaussian_outwards=outw)
        hh = h // 2 + ext
        if c[2] - hh >= 0 and c[2] + hh + 1 <= size[2]:
            expect(not is_exc(m) and m.min() >= -1e-12 and m.max() <= 1 + 1e-12, f"soft cylinder range g={g}")
            if outw:
                expect(np.all(np.abs(m[ref_cylinder(size, c, r, h // 2)] - 1) <= 1e-3), f"soft cylinder core g={g}")
        else:
            expect(m is ValueError, f"soft cylinder beyond the box: {m}")
        # ellipsoid
        radii = [int(v) for v in rng.integers(1, 25, 3)]
        m = both("ellipsoid_mask", size, radii=radii, center=center, gaussian=g, gaussian_outwards=outw)
        expect(not is_exc(m) and m.min() >= -1e-12 and m.max() <= 1 + 1e-12, f"soft ellipsoid range g={g}")
        if outw:
            core, _ = ref_ellipsoid(size, c, radii)
            expect(np.all(np.abs(m[core].astype(float) - 1) <= 1e-3), f"soft ellipsoid core g={g} radii={radii}")
        # shells (blur is centred on the surface there): range only
        m = both("spherical_shell_mask", size, 3, radius=r, center=center, gaussian=g)
        expect(not is_exc(m) and m.min() >= -1e-12 and m.max() <= 1 + 1e-12, f"soft s_shell range g={g}")
        m = both("ellipsoid_shell_mask", size, 2, [v + 2 for v in radii], center=center, gaussian=g)
        expect(not is_exc(m) and m.min() >= -1e-12 and m.max() <= 1 + 1e-12, f"soft e_shell range g={g}")
    # helpers on their own
    for r, g, o in [(20, 0.97, True), (16, 0.59, True), (3, 0.72, True), (8, 0, False), (8, 0.12, True), (15, 0, True),
                    (15, 0.52, False), (0, 3.0, True), (7, 0.2, True), (7, 1.0, True)]:
        v = both("preprocess_params", r, g, o)
        expect(v == (int(np.ceil(r + 5.0 * g)) if (g != 0 and o) else r), f"preprocess_params {r},{g},{o}")
    v = both("preprocess_params", np.array([3, 4, 5]), 0.5, True)
    expect(np.array_equal(v, [6, 7, 8]), "preprocess_params on radii")
    x = rng.random((9, 8, 7))
    expect(cryomask.add_gaussian(x, 0) is x, "sigma 0 must hand the input back")
    both("add_gaussian", x, 0.7)
    both("add_gaussian", x > 0.5, 1.2)


def test_algebra(n=60):
    for t in range(n):
        size = [int(v) for v in rng.integers(6, 20, 3)]
        k = int(rng.integers(1, 6))
        dtype = [np.float64, np.float32, np.int64][t % 3]
        masks = []
        for q in range(k):
            if q % 2 == 0:
                masks.append((rng.random(size) < rng.random()).astype(dtype))
            else:
                c = [int(rng.integers(0, s)) for s in size]
                masks.append(np.asarray(cryomask.spherical_mask(size, radius=int(rng.integers(1, 12)), center=c)).astype(dtype))
        if t % 5 == 0:
            masks = tuple(masks)
        keep = [m.copy() for m in masks]
        bm = [m != 0 for m in masks]
        any_, all_ = np.logical_or.reduce(bm), np.logical_and.reduce(bm)
        rest = np.logical_or.reduce(bm[1:]) if k > 1 else np.zeros(size, bool)
        for rep in range(2):  # repeated calls on the same objects
            u = both("union", masks)
            i = both("intersection", masks)
            s = both("subtraction", masks)
            d = both("difference", masks)
            expect(np.array_equal(u, any_.astype(float)), f"union k={k} {dtype}")
            expect(np.array_equal(i, all_.astype(float)), f"intersection k={k} {dtype}")
            expect(np.array_equal(s, (bm[0] & ~rest).astype(float)), f"subtraction k={k} {dtype}")
            expect(np.array_equal(d, (any_ & ~all_).astype(float)), f"difference k={k} {dtype}")
            if k == 2:
                expect(np.array_equal(d, (bm[0] ^ bm[1]).astype(float)), "difference of two is XOR")
            for a, b in zip(masks, keep):
                expect(np.array_equal(a, b) and a.dtype == b.dtype, "an input mask was modified")
        # soft masks: values stay in [0, 1], inputs untouched
        soft = [rng.random(size) if q % 2 else cryomask.spherical_mask(size, radius=3, gaussian=float(rng.uniform(0, 3)))
                for q in range(k)]
        keep = [m.copy() for m in soft]
        for name in ("union", "intersection", "subtraction", "difference"):
            r = both(name, soft)
            expect(not is_exc(r) and r.min() >= 0.0 and r.max() <= 1.0, f"{name} of soft masks out of [0,1]")
        for a, b in zip(soft, keep):
            expect(np.array_equal(a, b), "a soft input mask was modified")


# ---------------------------------------------------------------------------------------------------------
def test_extra():
    """change b: postprocess with defaults, every caller by keyword"""
    from cryocat import cryomap  # noqa

    x = (rng.random((10, 9, 8)) < 0.4).astype(float)
    zero_angles = [None, np.asarray([0, 0, 0]), [0, 0, 0], (0.0, 0.0, 0.0), np.zeros(3)]
    for ang in zero_angles:
        # nothing to do: the very same object comes back, from the old and from the new function
        expect(cryomask.postprocess(x, 0, ang, None) is x, "postprocess(…, 0, no rotation, None) must return its input")
        expect(O.postprocess(x, 0.0, ang, None) is x, "original postprocess must return its input")
        for g in (0, 0.0, 0.5, 2.0):
            both("postprocess", x, g, ang, None)  # positional, as the tests and older callers do
    for ang in ([0.3, 0.2, 0.1], np.asarray([30.0, 45.0, -10.0]), [0, 90, 0]):
        for g in (0, 0.7):
            both("postprocess", x, g, ang, None)
            both("postprocess", x > 0, g, ang, None)
    # keyword spelling works on both trees (same parameter names)
    both("postprocess", input_mask=x, gaussian=0.5, angles=None, output_name=None)
    both("rotate", x, None)
    both("rotate", x, np.zeros(3))
    both("rotate", x, [10.0, 20.0, 30.0])
    # rotated shapes (the callers that hand their angles on)
    for ang in (None, [0, 0, 0], [15.0, 30.0, 45.0]):
        both("cylindrical_mask", [14, 12, 16], radius=3, height=7, angles=ang)
        both("cylindrical_mask", [14, 12, 16], radius=3, height=5, gaussian=0.6, angles=ang)
        both("ellipsoid_mask", [14, 12, 16], radii=[3, 4, 5], angles=ang)
        both("ellipsoid_mask", [14, 12, 16], [3, 4, 5], None, 0.5, None, ang, False)  # all positional
        both("ellipsoid_shell_mask", [14, 12, 16], 2, [3, 4, 5], angles=ang)
        both("ellipsoid_shell_mask", [14, 12, 16], 2, [3, 4, 5], None, 0.5, ang, None)
    # the two tight masks call postprocess as well
    vol = rng.normal(size=(16, 14, 12))
    vol[5:9, 4:8, 3:9] += 6.0
    for g in (0, 0.8):
        for outw in (True, False):
            for dil in (0, 2):
                both("molmap_tight_mask", vol, threshold=2.0, dilation_size=dil, gaussian=g, gaussian_outwards=outw)
                both("map_tight_mask", vol, threshold=2.0, dilation_size=dil, gaussian=g, gaussian_outwards=outw)
                both("map_tight_mask", -vol, dilation_size=dil, gaussian=g, gaussian_outwards=outw, angles=[0, 0, 0])
    # files are written exactly when a name is given (and hold the returned mask)
    import tempfile

    with tempfile.TemporaryDirectory() as d:
        for name, f in (("new", cryomask), ("old", O)):
            p = os.path.join(d, f"sphere_{name}.em")
            m = f.spherical_mask([10, 9, 8], radius=3, output_name=p)
            expect(os.path.isfile(p) and np.allclose(cryomap.read(p), m), f"{name}: sphere not written")
            p = os.path.join(d, f"shell_{name}.mrc")
            m = f.spherical_shell_mask([10, 9, 8], 2, radius=3, gaussian=0.5, output_name=p)
            expect(os.path.isfile(p) and np.allclose(cryomap.read(p), m, atol=1e-6), f"{name}: shell not written")
            n_before = len(os.listdir(d))
            f.spherical_mask([10, 9, 8], radius=3)
            f.postprocess(x, 0.5, None, None)
            expect(len(os.listdir(d)) == n_before, f"{name}: a file was written without a name")
    # after the change the short spelling is available; on the unmodified tree the parameters are required
    sig = inspect.signature(cryomask.postprocess)
    expect(list(sig.parameters) == ["input_mask", "gaussian", "angles", "output_name"], "parameter order changed")
    if sig.parameters["gaussian"].default is not inspect.Parameter.empty:
        expect(cryomask.postprocess(x) is x, "postprocess(mask) with the defaults must be the identity")
        expect(np.array_equal(cryomask.postprocess(x, gaussian=0.5), O.postprocess(x, 0.5, None, None)), "keyword call")


# ---------------------------------------------------------------------------------------------------------
if __name__ == "__main__":
    test_spheres()
    test_cylinders()
    test_ellipsoids()
    test_shells()
    test_names()
    test_soft()
    test_algebra()
    test_extra()
    print("calls refused by both versions alike (cylinder slab beyond the box, malformed sizes / names):", N_RAISED)
    print(f"property checks: {N_CHECKED[0]}   old-vs-new comparisons: {N_COMPARED[0]}   failures: {len(FAIL)}")
    if FAIL:
        print("FAIL")
        sys.exit(1)
    print("PASS")
