import os, sys

sys.path.insert(0, os.getcwd())


# --------------------------------------------------------------------------------------------------------------
# Property C12: Fourier filters are the documented radial low / high / band-pass gains.
# Independent model: the gain of a low-pass with cutoff c and soft edge sigma is, in the centred layout (zero
# frequency at index n//2), the indicator of the integer-frequency ball |k| <= c blurred by a separable Gaussian
# (scipy.ndimage.gaussian_filter, replicated border, truncated at 4 sigma); without soft edge it is the indicator
# written directly over np.fft.fftfreq.
# --------------------------------------------------------------------------------------------------------------
import contextlib, io, tempfile, itertools
import numpy as np
from scipy import ndimage as _ndi

_ORIG_CWD = os.getcwd()
_TMP = tempfile.mkdtemp(prefix="c12demo_")
os.chdir(_TMP)  # bandpass writes a scratch file "band.em" into the working directory

from cryocat import cryomap, cryomask  # noqa: E402

FAIL = []


def check(cond, msg):
    if not cond:
        FAIL.append(msg)
        if len(FAIL) < 30:
            print("FAIL:", msg)


def quiet(fn, *a, **k):
    buf = io.StringIO()
    with contextlib.redirect_stdout(buf):
        out = fn(*a, **k)
    return out


def int_freqs(shape):
    return np.meshgrid(*[np.rint(np.fft.fftfreq(n) * n).astype(int) for n in shape], indexing="ij")


def model_gain(shape, cutoff, sigma):
    """Gain per DFT bin (numpy FFT layout), computed without cryocat."""
    fx, fy, fz = int_freqs(shape)
    r2 = fx**2 + fy**2 + fz**2
    if sigma == 0:
        return (r2 <= cutoff * cutoff).astype(float)
    # centred layout: index i <-> frequency i - n//2
    cen = np.zeros(shape)
    for i in range(shape[0]):
        for j in range(shape[1]):
            di = (i - shape[0] // 2) ** 2 + (j - shape[1] // 2) ** 2
            kk = np.arange(shape[2]) - shape[2] // 2
            cen[i, j, :] = (di + kk**2 <= cutoff * cutoff)
    blurred = _ndi.gaussian_filter(cen, sigma=sigma, mode="nearest", truncate=4.0)
    for ax, n in enumerate(shape):
        blurred = np.roll(blurred, -(n // 2), axis=ax)
    return blurred


def apply_gain(x, gain):
    return np.real(np.fft.ifftn(np.fft.fftn(x) * gain))


def sym(gain):
    """Gain seen by real signals: mean of the gains at +k and -k."""
    rev = gain
    for ax in range(3):
        rev = np.roll(np.flip(rev, axis=ax), 1, axis=ax)
    return 0.5 * (gain + rev)


def measured_gain(filter_fn, shape, **kw):
    delta = np.zeros(shape)
    delta[0, 0, 0] = 1.0
    return np.fft.fftn(quiet(filter_fn, delta, **kw))


def plane_wave(shape, k, phase):
    grids = np.meshgrid(*[np.arange(n) for n in shape], indexing="ij")
    arg = sum(2 * np.pi * k[a] * grids[a] / shape[a] for a in range(3))
    return np.cos(arg + phase)


def check_documented_shape(gs, shape, cutoff, sigma, tag):
    fx, fy, fz = int_freqs(shape)
    r = np.sqrt(fx**2 + fy**2 + fz**2)
    tol = 1e-9 if sigma == 0 else 2e-3
    check(gs.min() >= -1e-12 and gs.max() <= 1 + 1e-12, f"{tag}: gain outside [0,1]: {gs.min()} {gs.max()}")
    inside = r <= cutoff - 4 * sigma - 1
    outside = r >= cutoff + 4 * sigma + 1
    if sigma == 0:
        inside = r <= cutoff
        outside = r > cutoff
        check(np.all(gs[inside] == 1.0) and np.all(gs[outside] == 0.0), f"{tag}: hard cutoff is not exact")
    else:
        if inside.any():
            check(np.all(np.abs(gs[inside] - 1) <= tol), f"{tag}: gain below 1 inside: {gs[inside].min()}")
        if outside.any():
            check(np.all(np.abs(gs[outside]) <= tol), f"{tag}: gain above 0 outside: {gs[outside].max()}")
    # non-increasing along every axis from the zero frequency outwards
    for ax, n in enumerate(shape):
        idx = [0, 0, 0]
        line = []
        for f in range(0, (n - 1) // 2 + 1):
            idx[ax] = f
            line.append(gs[tuple(idx)])
        line = np.asarray(line)
        check(np.all(np.diff(line) <= 1e-12), f"{tag}: gain increases along axis {ax}")


def property_checks(seed=0, heavy=True):
    rng = np.random.default_rng(seed)
    shapes = [(8, 8, 8), (9, 9, 9), (16, 16, 16), (15, 15, 15), (12, 10, 8), (8, 13, 17), (21, 16, 10), (24, 24, 24)]
    if heavy:
        shapes += [(48, 48, 48), (31, 48, 20), (33, 33, 33)]
    n_cases = 0
    for shape in shapes:
        n0 = shape[0]
        nmin = min(shape)
        cutoffs = sorted(set([1, 2, max(1, nmin // 4), max(1, nmin // 2 - 1), nmin // 2, n0 // 2]))
        if max(shape) > 30:
            cutoffs = sorted(set([1, nmin // 3, n0 // 2]))
        x = rng.normal(size=shape)
        y = rng.normal(size=shape) * 3 - 1
        x_copy = x.copy()
        for cutoff in cutoffs:
            sig_list = [0, 1, 2, 3, 4, 0.0, 1.5] if max(shape) <= 16 else [0, 2, 3.0, 4]
            for sigma in sig_list:
                tag = f"shape={shape} cutoff={cutoff} sigma={sigma}"
                g = model_gain(shape, cutoff, sigma)
                lp = quiet(cryomap.lowpass, x, fourier_pixels=cutoff, gaussian=sigma)
                check(lp.shape == x.shape and np.isrealobj(lp), f"{tag}: low-pass output not a real map")
                check(np.allclose(lp, apply_gain(x, g), atol=1e-9), f"{tag}: low-pass differs from the model gain")
                check(np.array_equal(x, x_copy), f"{tag}: input modified")
                # repeated call
                lp2 = quiet(cryomap.lowpass, x, fourier_pixels=cutoff, gaussian=sigma)
                check(np.array_equal(lp, lp2), f"{tag}: repeated call differs")
                # high-pass is the exact complement
                hp = quiet(cryomap.highpass, x, fourier_pixels=cutoff, gaussian=sigma)
                check(np.allclose(hp, x - lp, atol=1e-9), f"{tag}: high-pass is not the complement")
                check(np.allclose(hp, apply_gain(x, 1 - g), atol=1e-9), f"{tag}: high-pass differs from model")
                # linearity
                a, b = rng.normal(size=2)
                lpy = quiet(cryomap.lowpass, y, fourier_pixels=cutoff, gaussian=sigma)
                lpc = quiet(cryomap.lowpass, a * x + b * y, fourier_pixels=cutoff, gaussian=sigma)
                check(np.allclose(lpc, a * lp + b * lpy, atol=1e-8), f"{tag}: low-pass not linear")
                # circular shifts
                s = tuple(int(rng.integers(-n, n)) for n in shape)
                lps = quiet(cryomap.lowpass, np.roll(x, s, axis=(0, 1, 2)), fourier_pixels=cutoff, gaussian=sigma)
                check(np.allclose(lps, np.roll(lp, s, axis=(0, 1, 2)), atol=1e-9), f"{tag}: shift does not commute")
                hps = quiet(cryomap.highpass, np.roll(x, s, axis=(0, 1, 2)), fourier_pixels=cutoff, gaussian=sigma)
                check(np.allclose(hps, np.roll(hp, s, axis=(0, 1, 2)), atol=1e-9), f"{tag}: hp shift")
                # the measured (real-signal) gain and its documented shape
                gm = measured_gain(cryomap.lowpass, shape, fourier_pixels=cutoff, gaussian=sigma)
                check(np.allclose(gm.imag, 0, atol=1e-9), f"{tag}: gain not real")
                check(np.allclose(gm.real, sym(g), atol=1e-9), f"{tag}: measured gain differs from model")
                gs = gm.real
                gs = np.where(np.abs(gs) < 1e-12, 0.0, gs)
                gs = np.where(np.abs(gs - 1) < 1e-12, 1.0, gs)
                check_documented_shape(gs, shape, cutoff, sigma, tag)
                gh = measured_gain(cryomap.highpass, shape, fourier_pixels=cutoff, gaussian=sigma)
                check(np.allclose(gh, 1 - gm, atol=1e-9), f"{tag}: high-pass gain is not 1 - low-pass gain")
                n_cases += 1
            # band-pass = difference of its two low-passes (different soft edges)
            for hp_cut in sorted(set([1, max(1, cutoff // 2), cutoff])):
                for lg, hg in [(0, 0), (3, 2), (1, 0), (2.0, 4)]:
                    tag = f"shape={shape} lp={cutoff}/{lg} hp={hp_cut}/{hg}"
                    bp = quiet(cryomap.bandpass, x, lp_fourier_pixels=cutoff, hp_fourier_pixels=hp_cut,
                               lp_gaussian=lg, hp_gaussian=hg)
                    l1 = quiet(cryomap.lowpass, x, fourier_pixels=cutoff, gaussian=lg)
                    l2 = quiet(cryomap.lowpass, x, fourier_pixels=hp_cut, gaussian=hg)
                    check(np.allclose(bp, l1 - l2, atol=1e-9), f"{tag}: band-pass is not lp - lp")
                    gb = model_gain(shape, cutoff, lg) - model_gain(shape, hp_cut, hg)
                    check(np.allclose(bp, apply_gain(x, gb), atol=1e-9), f"{tag}: band-pass differs from model")
                    check(np.array_equal(x, x_copy), f"{tag}: input modified by band-pass")
                    n_cases += 1
        # default soft edges (low-pass 3, high-pass 2, band-pass 3/2)
        c = max(1, nmin // 3)
        check(np.allclose(quiet(cryomap.lowpass, x, fourier_pixels=c), apply_gain(x, model_gain(shape, c, 3)), atol=1e-9),
              f"shape={shape}: default low-pass edge")
        check(np.allclose(quiet(cryomap.highpass, x, fourier_pixels=c), apply_gain(x, 1 - model_gain(shape, c, 2)), atol=1e-9),
              f"shape={shape}: default high-pass edge")
        check(np.allclose(quiet(cryomap.bandpass, x, lp_fourier_pixels=c, hp_fourier_pixels=1),
                          apply_gain(x, model_gain(shape, c, 3) - model_gain(shape, 1, 2)), atol=1e-9),
              f"shape={shape}: default band-pass edges")

    # pure plane waves at every integer frequency of small boxes
    for shape in [(8, 8, 8), (9, 9, 9), (8, 10, 7)]:
        for cutoff, sigma in [(1, 0), (2, 0), (3, 0), (4, 0), (3, 1), (2, 2), (4, 3)]:
            if cutoff > shape[0] // 2:
                continue
            g = sym(model_gain(shape, cutoff, sigma))
            fx, fy, fz = int_freqs(shape)
            for idx in itertools.product(*[range(n) for n in shape]):
                k = (fx[idx], fy[idx], fz[idx])
                w = plane_wave(shape, k, 0.37)
                out = quiet(cryomap.lowpass, w, fourier_pixels=cutoff, gaussian=sigma)
                ok = np.allclose(out, g[idx] * w, atol=1e-9)
                if sigma == 0:
                    inside = k[0] ** 2 + k[1] ** 2 + k[2] ** 2 <= cutoff**2
                    ok = ok and np.allclose(out, w if inside else 0 * w, atol=1e-9)
                check(ok, f"plane wave {k} in {shape}, cutoff {cutoff}, sigma {sigma}")
                if idx[0] % 3 == 0 and idx[1] % 2 == 0:
                    outh = quiet(cryomap.highpass, w, fourier_pixels=cutoff, gaussian=sigma)
                    check(np.allclose(outh, (1 - g[idx]) * w, atol=1e-9), f"hp plane wave {k} in {shape}")
            n_cases += 1

    # cutoffs given as resolution + pixel size
    for shape in [(8, 8, 8), (16, 12, 10), (25, 25, 25), (10, 20, 14)]:
        x = rng.normal(size=shape)
        for _ in range(8):
            pix = float(rng.uniform(0.5, 12.0))
            want = int(rng.integers(1, shape[0] // 2 + 1))
            res = shape[0] * pix / (want + float(rng.uniform(-0.45, 0.45)))
            npx = round(shape[0] * pix / res)
            buf = io.StringIO()
            with contextlib.redirect_stdout(buf):
                got = cryomap.resolution2pixels(res, shape[0], pix)
            check(got == npx and isinstance(got, int), f"resolution2pixels {res} {shape[0]} {pix}: {got} != {npx}")
            check(buf.getvalue() == f"The target resolution corresponds to {npx} pixels.\n", "resolution2pixels print")
            check(cryomap.resolution2pixels(res, shape[0], pix, print_out=False) == npx, "resolution2pixels silent")
            r = quiet(cryomap.get_filter_radius, shape[0], None, res, pix)
            check(r == npx, f"get_filter_radius from resolution: {r} != {npx}")
            r = quiet(cryomap.get_filter_radius, shape[0], want, None, None)
            check(r == want, "get_filter_radius from pixels")
            r = quiet(cryomap.get_filter_radius, shape[0], want, res, pix)
            check(r == want, "get_filter_radius: pixels take precedence")
            check(np.isclose(cryomap.pixels2resolution(want, shape[0], pix, print_out=False), shape[0] * pix / want),
                  "pixels2resolution")
            for sigma in (0, 2):
                a = quiet(cryomap.lowpass, x, target_resolution=res, pixel_size=pix, gaussian=sigma)
                b = quiet(cryomap.lowpass, x, fourier_pixels=npx, gaussian=sigma)
                check(np.array_equal(a, b), f"low-pass by resolution {res}/{pix} != {npx} pixels")
                check(np.allclose(a, apply_gain(x, model_gain(shape, npx, sigma)), atol=1e-9), "lp by resolution vs model")
                a = quiet(cryomap.highpass, x, target_resolution=res, pixel_size=pix, gaussian=sigma)
                b = quiet(cryomap.highpass, x, fourier_pixels=npx, pixel_size=pix, gaussian=sigma)
                check(np.array_equal(a, b), f"high-pass by resolution {res}/{pix} != {npx} pixels")
            res2 = shape[0] * pix / 1.2
            a = quiet(cryomap.bandpass, x, lp_target_resolution=res, hp_target_resolution=res2, pixel_size=pix)
            b = quiet(cryomap.bandpass, x, lp_fourier_pixels=npx, hp_fourier_pixels=1)
            check(np.array_equal(a, b), "band-pass by resolution")
            n_cases += 1
        try:
            quiet(cryomap.lowpass, x)
            check(False, "no cutoff given: no error")
        except ValueError:
            pass
        try:
            quiet(cryomap.lowpass, x, target_resolution=10.0)
            check(False, "resolution without pixel size: no error")
        except ValueError:
            pass

    # other real input dtypes and memory layouts give the same result as their float64 C-ordered copy
    base = rng.normal(size=(12, 10, 9))
    variants = {
        "float32": base.astype(np.float32),
        "fortran": np.asfortranarray(base),
        "strided": np.repeat(base, 2, axis=0)[::2],
        "int": np.rint(base * 10).astype(int),
        "readonly": base.copy(),
    }
    variants["readonly"].setflags(write=False)
    for name, v in variants.items():
        ref = np.ascontiguousarray(np.asarray(v, dtype=float))
        for fn, kw in [(cryomap.lowpass, dict(fourier_pixels=3, gaussian=1)), (cryomap.highpass, dict(fourier_pixels=2, gaussian=0)),
                       (cryomap.bandpass, dict(lp_fourier_pixels=4, hp_fourier_pixels=1))]:
            keep = v.copy()
            out = quiet(fn, v, **kw)
            check(np.allclose(out, quiet(fn, ref, **kw), atol=1e-6 if name == "float32" else 1e-9), f"{name}: {fn.__name__}")
            check(np.array_equal(v, keep), f"{name}: input changed")
    return n_cases


# --------------------------------------------------------------------------------------------------------------
# Helper comparison: cryomap.read of the tree under test against the original function text.
# --------------------------------------------------------------------------------------------------------------
ORIGINAL_READ = '''
def read_original(input_map, transpose=True, data_type=None):
    if isinstance(input_map, str):

        def valid_mrc(filename):
            pattern = r"\\.(mrc|ali|rec|st)(\\.\\d+)?$"
            return bool(re.search(pattern, filename))

        if valid_mrc(input_map):
            data = mrcfile.open(input_map).data
        elif input_map.endswith(".em"):
            data = emfile.read(input_map)[1]
        else:
            raise ValueError("The input map file name", input_map, "is neither em or mrc file!")

        if transpose:
            data = data.transpose(2, 1, 0)
    elif isinstance(input_map, np.ndarray):
        data = np.array(input_map)
    else:
        raise ValueError(f"Input map must be path to valid file or nparray")

    data = np.array(data, copy=True)
    if data_type is not None:
        data = data.astype(data_type)

    return data
'''


def helper_checks(seed=2):
    import warnings, shutil

    ns = dict(vars(cryomap))
    exec(ORIGINAL_READ, ns)
    orig = ns["read_original"]
    rng = np.random.default_rng(seed)
    n = 0

    def same(arg, **kw):
        with warnings.catch_warnings():
            warnings.simplefilter("ignore")
            a = orig(arg, **kw)
            b = cryomap.read(arg, **kw)
        ok = (type(a) is type(b) and a.dtype == b.dtype and a.shape == b.shape and a.strides == b.strides
              and np.array_equal(a, b, equal_nan=a.dtype.kind == "f")
              and b.flags.writeable == a.flags.writeable and b.flags.owndata == a.flags.owndata
              and b.flags.c_contiguous == a.flags.c_contiguous and b.flags.f_contiguous == a.flags.f_contiguous)
        check(ok, f"read differs from the original for {type(arg).__name__} {getattr(arg, 'shape', arg)} {kw}")
        if isinstance(arg, np.ndarray):
            check(not np.shares_memory(b, arg), "read returned the caller's buffer")
        return b

    # arrays: dtypes, layouts, views, subclasses, read-only inputs, NaN holes, negative values
    base = rng.normal(size=(9, 8, 7))
    holes = base.copy()
    holes[rng.random(base.shape) < 0.1] = np.nan
    arrays = [base, -np.abs(base), holes, base.astype(np.float32), np.rint(base * 5).astype(np.int16), base > 0,
              np.asfortranarray(base), base[::2, ::-1, 1:], base.transpose(2, 0, 1), np.zeros((0, 3, 3)),
              np.zeros((1, 1, 1)), base[0], base[0, 0], np.array(3.5), base.view(),
              np.ma.masked_less(base, 0), np.lib.stride_tricks.as_strided(base, shape=(4, 4, 4), strides=(8, 16, 0))]
    ro = base.copy()
    ro.setflags(write=False)
    arrays.append(ro)
    for arr in arrays:
        keep = np.array(arr, copy=True)
        for kw in [dict(), dict(transpose=False), dict(data_type=np.float32), dict(data_type=float), dict(data_type=np.int32)]:
            with np.errstate(invalid="ignore"), warnings.catch_warnings():
                warnings.simplefilter("ignore")
                out = same(arr, **kw)
            n += 1
        check(np.array_equal(np.asarray(arr), keep, equal_nan=keep.dtype.kind == "f"), "read changed its input")
        out = cryomap.read(arr)
        if out.size and out.flags.writeable and arr.dtype.kind == "f":
            out[...] = 0  # the result is private: writing to it leaves the input alone
            check(np.array_equal(np.asarray(arr), keep, equal_nan=True), "result of read aliases the input")
    # repeated calls on the same object
    r1, r2 = cryomap.read(base), cryomap.read(base)
    check(np.array_equal(r1, r2) and not np.shares_memory(r1, r2), "repeated read")

    # files: every accepted extension, odd / even / non-cubic sizes, several voxel types
    for shape in [(8, 8, 8), (7, 9, 5), (1, 2, 3), (16, 10, 12)]:
        for dt in (np.float32, np.int16, np.int8):
            vol = (rng.normal(size=shape) * 20).astype(dt)
            cryomap.write(vol, "v.mrc")
            cryomap.write(vol, "v.em")
            cryomap.write(vol, "v.rec")
            for extra in ("v.ali", "v.st", "v.mrc.1", "v.rec.22"):
                shutil.copy("v.mrc", extra)
            for name in ("v.mrc", "v.em", "v.rec", "v.ali", "v.st", "v.mrc.1", "v.rec.22"):
                for kw in [dict(), dict(transpose=False), dict(data_type=np.float64), dict(transpose=False, data_type=np.float32)]:
                    out = same(name, **kw)
                    n += 1
                check(np.array_equal(cryomap.read(name), vol), f"{name}: voxels read are not the voxels written")
                out = cryomap.read(name)
                out[...] = 1  # writable, and the file is untouched
                check(np.array_equal(cryomap.read(name), vol), f"{name}: file changed by writing to the result")
    # a file read and filtered gives the same as the array filtered
    vol = rng.normal(size=(12, 10, 8)).astype(np.float32)
    cryomap.write(vol, "f.mrc")
    cryomap.write(vol, "f.em")
    for name in ("f.mrc", "f.em"):
        check(np.array_equal(quiet(cryomap.lowpass, name, fourier_pixels=3), quiet(cryomap.lowpass, vol, fourier_pixels=3)),
              f"low-pass of {name}")
    # the file can be replaced straight after reading (no handle left behind that matters)
    out = cryomap.read("f.mrc")
    os.remove("f.mrc")
    check(np.array_equal(out, vol), "array invalid after the file is gone")
    # refusals are unchanged
    for bad in ["x.txt", "nofile.mrc", "nofile.em", 5, None, [[1.0]], ("a",)]:
        res = []
        for fn in (orig, cryomap.read):
            try:
                fn(bad)
                res.append("ok")
            except Exception as e:
                res.append((type(e).__name__, str(e.args)))
        check(res[0] == res[1], f"refusal for {bad!r}: {res}")
        n += 1
    return n


if __name__ == "__main__":
    n = property_checks()
    m = helper_checks()
    os.chdir(_ORIG_CWD)
    import shutil

    shutil.rmtree(_TMP, ignore_errors=True)
    print(f"property cases: {n}, helper comparisons: {m}")
    if FAIL:
        print(f"FAILED ({len(FAIL)} checks)")
        sys.exit(1)
    print("PASS")
