import sys, os

sys.path.insert(0, os.getcwd())
import contextlib, io, tempfile, warnings

warnings.filterwarnings("ignore")
WORKTREE = os.getcwd()
# bandpass() writes a file "band.em" into the current directory: run in a scratch directory, not in the worktree
SCRATCH = tempfile.mkdtemp(prefix="c12demo_")
os.chdir(SCRATCH)

import numpy as np
from numpy import fft
from scipy import ndimage
from cryocat import cryomap, cryomask

FAILS = []
NCHECK = [0]


def check(cond, msg):
    NCHECK[0] += 1
    if not cond:
        FAILS.append(msg)
        if len(FAILS) <= 25:
            print("FAIL:", msg)


def quiet(f, *a, **k):
    """call f without the prints of get_filter_radius"""
    buf = io.StringIO()
    with contextlib.redirect_stdout(buf):
        out = f(*a, **k)
    return out


# --------------------------------------------------------------------------------------------------------------------
# ORIGINAL function texts (HEAD of the scratch tree, docstrings removed)
# --------------------------------------------------------------------------------------------------------------------
ORIG_CRYOMASK = '''
def spherical_mask(mask_size, radius=None, center=None, gaussian=0.0, gaussian_outwards=True, output_name=None):
    mask_size = get_correct_format(mask_size)
    center = get_correct_format(center, reference_size=mask_size)

    if radius is None:
        radius = np.amin(mask_size) // 2

    radius = preprocess_params(radius, gaussian, gaussian_outwards)

    x, y, z = np.mgrid[0 : mask_size[0] : 1, 0 : mask_size[1] : 1, 0 : mask_size[2] : 1]
    mask = np.sqrt((x - center[0]) ** 2 + (y - center[1]) ** 2 + (z - center[2]) ** 2)
    mask[mask > radius] = 0
    mask[mask > 0] = 1
    if radius >= 0:
        # the distance map is zero at the center, so the center has to be set explicitly (a negative radius is an empty sphere)
        mask[center[0], center[1], center[2]] = 1

    mask = postprocess(mask, gaussian, np.asarray([0, 0, 0]), output_name)

    return mask
'''

ORIG_CRYOMAP = '''
def pixels2resolution(fourier_pixels, edge_size, pixel_size, print_out=True):
    res = edge_size * pixel_size / fourier_pixels

    if print_out:
        print(f"The target resolution is {res} Angstroms.")

    return res


def resolution2pixels(resolution, edge_size, pixel_size, print_out=True):
    pixels = round(edge_size * pixel_size / resolution)

    if print_out:
        print(f"The target resolution corresponds to {pixels} pixels.")

    return pixels


def get_filter_radius(edge_size, fourier_pixels, target_resolution, pixel_size):
    if fourier_pixels is not None:
        radius = fourier_pixels
        if pixel_size is not None:
            _ = pixels2resolution(fourier_pixels=fourier_pixels, edge_size=edge_size, pixel_size=pixel_size)
    elif target_resolution is not None and pixel_size is not None:
        radius = resolution2pixels(target_resolution, edge_size=edge_size, pixel_size=pixel_size)
    else:
        raise ValueError(
            "Either target_voxels or target_resolution in combination with pixel_size have to be specified!"
        )

    return radius


def bandpass(
    input_map,
    lp_fourier_pixels=None,
    lp_target_resolution=None,
    hp_fourier_pixels=None,
    hp_target_resolution=None,
    pixel_size=None,
    lp_gaussian=3,
    hp_gaussian=2,
    output_name=None,
):
    input_map = read(input_map)
    lp_radius = get_filter_radius(
        input_map.shape[0],
        fourier_pixels=lp_fourier_pixels,
        target_resolution=lp_target_resolution,
        pixel_size=pixel_size,
    )

    hp_radius = get_filter_radius(
        input_map.shape[0],
        fourier_pixels=hp_fourier_pixels,
        target_resolution=hp_target_resolution,
        pixel_size=pixel_size,
    )
    outer_mask = cryomask.spherical_mask(input_map.shape, lp_radius, gaussian=lp_gaussian, gaussian_outwards=False)
    inner_mask = cryomask.spherical_mask(input_map.shape, hp_radius, gaussian=hp_gaussian, gaussian_outwards=False)
    band_mask = fft.ifftshift(outer_mask - inner_mask)
    write(outer_mask - inner_mask, "band.em", data_type=np.single)
    bandpass_filtered = np.real(fft.ifftn(fft.fftn(input_map) * band_mask))

    if output_name is not None:
        write(bandpass_filtered, output_name, data_type=np.single)

    return bandpass_filtered


def lowpass(input_map, fourier_pixels=None, target_resolution=None, pixel_size=None, gaussian=3, output_name=None):
    input_map = read(input_map)
    radius = get_filter_radius(
        input_map.shape[0], fourier_pixels=fourier_pixels, target_resolution=target_resolution, pixel_size=pixel_size
    )

    lowpass_filter = fft.ifftshift(
        cryomask.spherical_mask(input_map.shape, radius, gaussian=gaussian, gaussian_outwards=False)
    )
    # Apply filter
    filtered_map = np.real(fft.ifftn(fft.fftn(input_map) * lowpass_filter))

    if output_name is not None:
        write(filtered_map, output_name, data_type=np.single)

    return filtered_map


def highpass(input_map, fourier_pixels=None, target_resolution=None, pixel_size=None, gaussian=2, output_name=None):
    input_map = read(input_map)
    radius = get_filter_radius(
        input_map.shape[0], fourier_pixels=fourier_pixels, target_resolution=target_resolution, pixel_size=pixel_size
    )

    highpass_filter = fft.ifftshift(
        np.ones(input_map.shape)
        - cryomask.spherical_mask(input_map.shape, radius, gaussian=gaussian, gaussian_outwards=False)
    )

    # Apply filter
    filtered_map = np.real(fft.ifftn(fft.fftn(input_map) * highpass_filter))

    if output_name is not None:
        write(filtered_map, output_name, data_type=np.single)

    return filtered_map
'''


class _NS:
    pass


def build_originals():
    """the original filter chain: original cryomap functions on top of the original spherical_mask; the helpers that
    no change of this series touches (get_correct_format, preprocess_params, postprocess, read, write) come from the tree"""
    ns_mask = {
        "np": np,
        "get_correct_format": cryomask.get_correct_format,
        "preprocess_params": cryomask.preprocess_params,
        "postprocess": cryomask.postprocess,
    }
    exec(ORIG_CRYOMASK, ns_mask)
    shim = _NS()
    shim.spherical_mask = ns_mask["spherical_mask"]
    ns_map = {"np": np, "fft": fft, "read": cryomap.read, "write": cryomap.write, "cryomask": shim}
    exec(ORIG_CRYOMAP, ns_map)
    o = _NS()
    o.spherical_mask = ns_mask["spherical_mask"]
    for n in ("pixels2resolution", "resolution2pixels", "get_filter_radius", "bandpass", "lowpass", "highpass"):
        setattr(o, n, ns_map[n])
    return o


ORIG = build_originals()


def same(a, b):
    a = np.asarray(a)
    b = np.asarray(b)
    return a.shape == b.shape and a.dtype == b.dtype and np.array_equal(a, b)


# --------------------------------------------------------------------------------------------------------------------
# independent model of the documented gain
# --------------------------------------------------------------------------------------------------------------------
def int_freqs(n):
    k = np.arange(n)
    return np.where(k <= (n - 1) // 2, k, k - n)  # 0, 1, ..., -2, -1 (even n: index n/2 is -n/2)


def kgrid(shape):
    return np.meshgrid(*[int_freqs(n) for n in shape], indexing="ij")


def model_gain(shape, cutoff, sigma):
    """documented low-pass gain on the unshifted DFT grid: a ball of integer frequency radius <= cutoff (compared on the
    squared integers), softened by a Gaussian of width sigma centred on the edge (scipy, truncated at 4 sigma)"""
    k0, k1, k2 = kgrid(shape)
    r2 = k0**2 + k1**2 + k2**2
    ball = (r2 <= cutoff**2).astype(float)
    if sigma == 0:
        return ball, np.sqrt(r2)
    centred = fft.fftshift(ball)
    soft = ndimage.gaussian_filter(centred, sigma, mode="nearest", truncate=4.0)
    return fft.ifftshift(soft), np.sqrt(r2)


def negate_index(g):
    """g(-k) on the DFT grid"""
    out = g
    for ax in range(g.ndim):
        out = np.roll(np.flip(out, axis=ax), 1, axis=ax)
    return out


def apply_gain(x, g):
    return np.real(fft.ifftn(fft.fftn(np.asarray(x, dtype=float)) * g))


def measured_gain(filter_call, shape, rng):
    """gain of a linear shift-invariant real filter from its response to a delta at a random place"""
    d = np.zeros(shape)
    p = tuple(int(rng.integers(0, n)) for n in shape)
    d[p] = 1.0
    out = filter_call(d)
    G = fft.fftn(out) * np.conj(fft.fftn(d))
    return G


def axis_monotone(g_centred, tol):
    """non-increasing away from the centre along every line parallel to an axis"""
    worst = 0.0
    for ax, n in enumerate(g_centred.shape):
        c = n // 2
        m = np.moveaxis(g_centred, ax, 0)
        right = m[c:]
        left = m[: c + 1][::-1]
        for part in (right, left):
            if part.shape[0] > 1:
                worst = max(worst, float(np.max(part[1:] - part[:-1])))
    return worst <= tol, worst


SHAPES = [
    (8, 8, 8),
    (9, 9, 9),
    (8, 9, 10),
    (12, 11, 16),
    (16, 16, 16),
    (17, 12, 21),
    (24, 24, 24),
    (31, 31, 31),
    (32, 20, 27),
    (48, 48, 48),
    (48, 8, 13),
    (8, 48, 47),
]
SIGMAS = [0, 0.5, 1, 2, 2.5, 3, 4, 0.0, 3.0]


def cutoffs_for(shape):
    n0 = shape[0]
    cs = {1, 2, max(1, n0 // 4), max(1, n0 // 2 - 1), n0 // 2, min(shape) // 2, max(shape) // 2}
    return sorted(cs)


def property_suite(seed=0, heavy=True):
    """tests the property C12 on the functions of the tree (cryomap.lowpass / highpass / bandpass, resolution2pixels,
    get_filter_radius, cryomask.spherical_mask as transfer function) against the independent model, and compares them
    with the ORIGINAL function texts on the same inputs (exact equality)."""
    rng = np.random.default_rng(seed)
    lp, hp, bp = cryomap.lowpass, cryomap.highpass, cryomap.bandpass

    for shape in SHAPES:
        x = rng.normal(size=shape) * 3.0 + 0.7
        x_keep = x.copy()
        y = rng.normal(size=shape)
        for c in cutoffs_for(shape):
            sig_list = SIGMAS if (heavy and np.prod(shape) <= 20000) else [0, 1, 3, 2.5]
            for s in sig_list:
                tag = f"shape={shape} cutoff={c} sigma={s}"
                g_model, r = model_gain(shape, c, s)
                g_eff = 0.5 * (g_model + negate_index(g_model))  # what a real map sees after np.real

                out = quiet(lp, x, fourier_pixels=c, gaussian=s)
                # real-valued, same shape, input untouched, repeatable
                check(np.isrealobj(out) and out.dtype == np.float64 and out.shape == shape, tag + " lowpass is real float64")
                check(np.array_equal(x, x_keep), tag + " input map left unchanged")
                check(same(out, quiet(lp, x, fourier_pixels=c, gaussian=s)), tag + " repeated call gives the same map")
                # against the independent model
                ref = apply_gain(x, g_eff)
                check(np.allclose(out, ref, rtol=0, atol=1e-10), tag + f" lowpass == model ({np.abs(out-ref).max():.2e})")
                # against the ORIGINAL text
                o_out = quiet(ORIG.lowpass, x, fourier_pixels=c, gaussian=s)
                check(same(out, o_out), tag + " lowpass identical to ORIGINAL")

                # the gain itself, measured on a delta
                G = measured_gain(lambda d: quiet(lp, d, fourier_pixels=c, gaussian=s), shape, rng)
                g = G.real
                check(np.abs(G.imag).max() < 1e-10, tag + " gain is real")
                check(g.min() > -1e-9 and g.max() < 1 + 1e-9, tag + f" gain in [0,1] ({g.min()}, {g.max()})")
                check(np.allclose(g, g_eff, rtol=0, atol=1e-10), tag + " measured gain == model gain")
                if s == 0:
                    k0, k1, k2 = kgrid(shape)
                    r2 = k0**2 + k1**2 + k2**2
                    check(np.abs(g[r2 <= c * c] - 1).max() < 1e-12, tag + " sharp gain 1 up to the cutoff")
                    if (r2 > c * c).any():
                        check(np.abs(g[r2 > c * c]).max() < 1e-12, tag + " sharp gain 0 beyond the cutoff")
                    if c + 1 <= (shape[0] - 1) // 2:
                        check(abs(g[c + 1, 0, 0]) < 1e-12 and abs(g[-(c + 1), 0, 0]) < 1e-12, tag + " gain 0 at cutoff+1 on the axis")
                        check(abs(g[c, 0, 0] - 1) < 1e-12 and abs(g[-c, 0, 0] - 1) < 1e-12, tag + " gain 1 at the cutoff on the axis")
                else:
                    inside = r <= c - 4 * s - 1
                    outside = r >= c + 4 * s + 1
                    if inside.any():
                        check(g[inside].min() > 1 - 1e-3, tag + f" soft gain 1 inside cutoff-4s-1 ({g[inside].min()})")
                    if outside.any():
                        check(np.abs(g[outside]).max() < 1e-3, tag + f" soft gain 0 outside cutoff+4s+1 ({np.abs(g[outside]).max()})")
                    # (a cutoff beyond the half-length of a short axis of a non-cubic box is left out here: the blur
                    # replicates the box edge there, see the note in meta.json)
                    ok, worst = axis_monotone(fft.fftshift(g), 1e-10) if c <= min(shape) // 2 else (True, 0.0)
                    check(ok, tag + f" soft gain non-increasing away from the origin along the axes ({worst:.2e})")

                # high-pass: exact complement with the same parameters
                h = quiet(hp, x, fourier_pixels=c, gaussian=s)
                check(np.isrealobj(h) and h.shape == shape, tag + " highpass real")
                check(np.allclose(h + out, x, rtol=0, atol=1e-10), tag + f" highpass + lowpass == map ({np.abs(h+out-x).max():.2e})")
                check(np.allclose(h, apply_gain(x, 1 - g_eff), rtol=0, atol=1e-10), tag + " highpass == model complement")
                check(same(h, quiet(ORIG.highpass, x, fourier_pixels=c, gaussian=s)), tag + " highpass identical to ORIGINAL")
                check(np.array_equal(x, x_keep), tag + " input map left unchanged by highpass")

            # linearity and shifts (default Gaussian widths as well: gaussian omitted)
            for kw in ({"gaussian": 0}, {}, {"gaussian": 1.5}):
                tag = f"shape={shape} cutoff={c} {kw}"
                a, b = 2.5, -0.75
                for f, name in ((lp, "lowpass"), (hp, "highpass")):
                    fx = quiet(f, x, fourier_pixels=c, **kw)
                    fy = quiet(f, y, fourier_pixels=c, **kw)
                    fxy = quiet(f, a * x + b * y, fourier_pixels=c, **kw)
                    check(np.allclose(fxy, a * fx + b * fy, rtol=0, atol=1e-9), tag + f" {name} linear")
                    sh = tuple(int(rng.integers(-n, n)) for n in shape)
                    fs = quiet(f, np.roll(x, sh, axis=(0, 1, 2)), fourier_pixels=c, **kw)
                    check(np.allclose(fs, np.roll(fx, sh, axis=(0, 1, 2)), rtol=0, atol=1e-10), tag + f" {name} commutes with shift {sh}")
                    check(same(fx, quiet(getattr(ORIG, name), x, fourier_pixels=c, **kw)), tag + f" {name} identical to ORIGINAL")

        # band-pass == difference of its two low-passes
        n0 = shape[0]
        for c_lp, c_hp, s_lp, s_hp in [(n0 // 2, 1, 3, 2), (n0 // 2, 2, 0, 0), (max(2, n0 // 4), 1, 1, 0.5), (n0 // 2 - 1, n0 // 4, 0, 2)]:
            if c_hp < 1 or c_lp < 1:
                continue
            tag = f"shape={shape} band lp={c_lp}/{s_lp} hp={c_hp}/{s_hp}"
            b = quiet(bp, x, lp_fourier_pixels=c_lp, hp_fourier_pixels=c_hp, lp_gaussian=s_lp, hp_gaussian=s_hp)
            l1 = quiet(lp, x, fourier_pixels=c_lp, gaussian=s_lp)
            l2 = quiet(lp, x, fourier_pixels=c_hp, gaussian=s_hp)
            check(np.isrealobj(b) and b.shape == shape, tag + " bandpass real")
            check(np.allclose(b, l1 - l2, rtol=0, atol=1e-10), tag + f" bandpass == lowpass - lowpass ({np.abs(b-(l1-l2)).max():.2e})")
            g1, _ = model_gain(shape, c_lp, s_lp)
            g2, _ = model_gain(shape, c_hp, s_hp)
            gb = g1 - g2
            check(np.allclose(b, apply_gain(x, 0.5 * (gb + negate_index(gb))), rtol=0, atol=1e-10), tag + " bandpass == model")
            check(same(b, quiet(ORIG.bandpass, x, lp_fourier_pixels=c_lp, hp_fourier_pixels=c_hp, lp_gaussian=s_lp, hp_gaussian=s_hp)), tag + " bandpass identical to ORIGINAL")
            check(np.array_equal(x, x_keep), tag + " input map left unchanged by bandpass")
        # band-pass with the default widths (3 and 2)
        b = quiet(bp, x, lp_fourier_pixels=n0 // 2, hp_fourier_pixels=1)
        check(np.allclose(b, quiet(lp, x, fourier_pixels=n0 // 2, gaussian=3) - quiet(lp, x, fourier_pixels=1, gaussian=2), rtol=0, atol=1e-10), f"shape={shape} bandpass defaults")
        check(same(b, quiet(ORIG.bandpass, x, lp_fourier_pixels=n0 // 2, hp_fourier_pixels=1)), f"shape={shape} bandpass defaults identical to ORIGINAL")

        # resolution + pixel size -> round(box * pixel_size / resolution) Fourier pixels (box = first axis)
        for px in (1.0, 1.35, 7.89, 2):
            for c in sorted({1, 2, n0 // 2, max(1, n0 // 3)}):
                for frac in (0.0, 0.3, -0.3, 0.5, -0.5, 0.49):
                    res = n0 * px / (c + frac)
                    want = round(n0 * px / res)
                    if want < 1 or want > max(shape) // 2:
                        continue
                    tag = f"shape={shape} px={px} res={res}"
                    got = quiet(cryomap.resolution2pixels, res, n0, px)
                    check(got == want and isinstance(got, int), tag + f" resolution2pixels {got} != {want}")
                    check(quiet(cryomap.resolution2pixels, res, n0, px, print_out=False) == want, tag + " resolution2pixels silent")
                    check(quiet(cryomap.get_filter_radius, n0, None, res, px) == want, tag + " get_filter_radius from resolution")
                    check(quiet(cryomap.get_filter_radius, n0, c, res, px) == c, tag + " get_filter_radius: pixels win")
                    check(quiet(cryomap.get_filter_radius, n0, c, None, None) == c, tag + " get_filter_radius: pixels only")
                    check(quiet(ORIG.get_filter_radius, n0, None, res, px) == quiet(cryomap.get_filter_radius, n0, None, res, px), tag + " get_filter_radius identical to ORIGINAL")
                    check(abs(quiet(cryomap.pixels2resolution, c, n0, px) - n0 * px / c) < 1e-12, tag + " pixels2resolution")
                    if frac in (0.0, 0.5, -0.3) and np.prod(shape) <= 30000:
                        for s in (0, 3):
                            o1 = quiet(lp, x, target_resolution=res, pixel_size=px, gaussian=s)
                            o2 = quiet(lp, x, fourier_pixels=want, gaussian=s)
                            check(same(o1, o2), tag + " lowpass by resolution == lowpass by pixels")
                            check(same(o1, quiet(ORIG.lowpass, x, target_resolution=res, pixel_size=px, gaussian=s)), tag + " lowpass by resolution identical to ORIGINAL")
                            h1 = quiet(hp, x, target_resolution=res, pixel_size=px, gaussian=s)
                            check(same(h1, quiet(hp, x, fourier_pixels=want, pixel_size=px, gaussian=s)), tag + " highpass by resolution == by pixels")
                            check(same(h1, quiet(ORIG.highpass, x, target_resolution=res, pixel_size=px, gaussian=s)), tag + " highpass by resolution identical to ORIGINAL")
                        if want >= 2:
                            res_hp = n0 * px / 1.0
                            b1 = quiet(bp, x, lp_target_resolution=res, hp_target_resolution=res_hp, pixel_size=px)
                            b2 = quiet(bp, x, lp_fourier_pixels=want, hp_fourier_pixels=1)
                            check(same(b1, b2), tag + " bandpass by resolution == by pixels")
                            check(same(b1, quiet(ORIG.bandpass, x, lp_target_resolution=res, hp_target_resolution=res_hp, pixel_size=px)), tag + " bandpass by resolution identical to ORIGINAL")

    # pure plane waves at every integer frequency (small boxes), and a sample for a larger one
    for shape, configs, every in [
        ((8, 8, 8), [(2, 0), (4, 0), (3, 1), (4, 3)], True),
        ((8, 9, 10), [(3, 0), (4, 0.5), (2, 2)], True),
        ((9, 8, 11), [(1, 0), (4, 0)], True),
        ((24, 17, 20), [(5, 0), (12, 0), (8, 2)], False),
        ((48, 48, 48), [(24, 0), (11, 3)], False),
    ]:
        grids = np.meshgrid(*[np.arange(n) for n in shape], indexing="ij")
        allk = [(a, b, c) for a in range(shape[0]) for b in range(shape[1]) for c in range(shape[2])]
        if not every:
            pick = rng.choice(len(allk), size=25, replace=False)
            allk = [allk[i] for i in pick] + [(0, 0, 0), (shape[0] // 2, 0, 0), (0, shape[1] // 2, shape[2] // 2), (1, 0, 0), (shape[0] - 1, 0, 0)]
        for c, s in configs:
            g_model, r = model_gain(shape, c, s)
            g_eff = 0.5 * (g_model + negate_index(g_model))
            for kk in allk:
                phase = rng.uniform(0, 2 * np.pi)
                arg = 2 * np.pi * sum(kk[i] * grids[i] / shape[i] for i in range(3)) + phase
                w = np.cos(arg)
                out = quiet(lp, w, fourier_pixels=c, gaussian=s)
                kint = tuple(int(int_freqs(shape[i])[kk[i]]) for i in range(3))
                rad2 = sum(v * v for v in kint)
                if s == 0:
                    gain = 1.0 if rad2 <= c * c else 0.0
                else:
                    gain = g_eff[kk]
                tag = f"plane wave shape={shape} k={kint} cutoff={c} sigma={s}"
                check(np.allclose(out, gain * w, rtol=0, atol=1e-10), tag + f" lowpass scales the wave by {gain}")
                if every and (kk[0] + kk[1] + kk[2]) % 3 == 0 or not every:
                    h = quiet(hp, w, fourier_pixels=c, gaussian=s)
                    check(np.allclose(h, (1 - gain) * w, rtol=0, atol=1e-10), tag + " highpass scales the wave by the complement")
                    check(same(out, quiet(ORIG.lowpass, w, fourier_pixels=c, gaussian=s)), tag + " identical to ORIGINAL")

    # element types, memory layouts, constant / zero maps
    for shape in [(8, 8, 8), (11, 10, 13), (16, 9, 12)]:
        base = rng.integers(-40, 90, size=shape)
        for dt in (np.int16, np.int32, np.int64, np.uint8, np.float32, np.float64):
            m = np.abs(base).astype(dt) if dt == np.uint8 else base.astype(dt)
            keep = m.copy()
            for c, s in [(1, 0), (shape[0] // 2, 0), (3, 1), (shape[0] // 2, 3)]:
                tag = f"dtype={np.dtype(dt).name} shape={shape} cutoff={c} sigma={s}"
                g_model, _ = model_gain(shape, c, s)
                g_eff = 0.5 * (g_model + negate_index(g_model))
                tol = 1e-3 if dt == np.float32 else 1e-9
                o = quiet(lp, m, fourier_pixels=c, gaussian=s)
                h = quiet(hp, m, fourier_pixels=c, gaussian=s)
                check(np.isrealobj(o) and np.issubdtype(o.dtype, np.floating), tag + " real output")
                check(np.allclose(o, apply_gain(m, g_eff), rtol=0, atol=tol), tag + " lowpass == model")
                check(np.allclose(o + h, m.astype(float), rtol=0, atol=tol), tag + " complement")
                check(np.array_equal(m, keep) and m.dtype == dt, tag + " input untouched")
                check(same(o, quiet(ORIG.lowpass, m, fourier_pixels=c, gaussian=s)), tag + " lowpass identical to ORIGINAL")
                check(same(h, quiet(ORIG.highpass, m, fourier_pixels=c, gaussian=s)), tag + " highpass identical to ORIGINAL")
        f = np.asfortranarray(base.astype(float))
        v = rng.normal(size=tuple(2 * n for n in shape))[::2, ::2, ::2]
        for m, nm in ((f, "fortran"), (v, "strided view"), (np.zeros(shape), "zeros"), (np.full(shape, -3.5), "constant")):
            g_model, _ = model_gain(shape, 2, 1)
            g_eff = 0.5 * (g_model + negate_index(g_model))
            o = quiet(lp, m, fourier_pixels=2, gaussian=1)
            check(np.allclose(o, apply_gain(m, g_eff), rtol=0, atol=1e-10), f"{nm} {shape} lowpass == model")
            check(same(o, quiet(ORIG.lowpass, m, fourier_pixels=2, gaussian=1)), f"{nm} {shape} identical to ORIGINAL")
            bb = quiet(bp, m, lp_fourier_pixels=shape[0] // 2, hp_fourier_pixels=1)
            check(same(bb, quiet(ORIG.bandpass, m, lp_fourier_pixels=shape[0] // 2, hp_fourier_pixels=1)), f"{nm} {shape} bandpass identical to ORIGINAL")
        # a constant map passes the low-pass (gain 1 at the origin, sharp edge) and is removed by the high-pass
        cst = np.full(shape, 4.25)
        check(np.allclose(quiet(lp, cst, fourier_pixels=1, gaussian=0), cst, atol=1e-12), f"{shape} constant map passes lowpass")
        check(np.allclose(quiet(hp, cst, fourier_pixels=1, gaussian=0), 0, atol=1e-12), f"{shape} constant map removed by highpass")

    # the transfer function itself: spherical_mask(gaussian_outwards=False) is a centred ball, compared with ORIGINAL
    for shape in [(8, 8, 8), (9, 9, 9), (8, 9, 10), (17, 12, 21), (32, 20, 27)]:
        for c in cutoffs_for(shape):
            for s in (0, 0.0, 0.5, 2, 3):
                m = cryomask.spherical_mask(shape, c, gaussian=s, gaussian_outwards=False)
                g_model, _ = model_gain(shape, c, s)
                check(m.dtype == np.float64 and m.shape == shape, f"mask {shape} {c} {s} float64")
                check(np.allclose(fft.ifftshift(m), g_model, rtol=0, atol=1e-12), f"mask {shape} {c} {s} == model ball")
                check(same(m, ORIG.spherical_mask(shape, c, gaussian=s, gaussian_outwards=False)), f"mask {shape} {c} {s} identical to ORIGINAL")
                m2 = cryomask.spherical_mask(np.asarray(shape), c, gaussian=s, gaussian_outwards=False)
                check(same(m, m2), f"mask {shape} {c} {s} shape given as array")

    # writing the result out does not change what is returned
    xs = rng.normal(size=(10, 9, 12))
    fn = os.path.join(SCRATCH, "lp_out.mrc")
    o1 = quiet(lp, xs, fourier_pixels=3, output_name=fn)
    check(same(o1, quiet(lp, xs, fourier_pixels=3)), "output_name does not change the returned map")
    check(os.path.isfile(fn) and np.allclose(cryomap.read(fn), o1.astype(np.single), atol=1e-6), "written map == returned map (single)")
    check(same(cryomap.read(fn), (lambda: (quiet(ORIG.lowpass, xs, fourier_pixels=3, output_name=fn), cryomap.read(fn))[1])()), "written file identical to ORIGINAL")


def extra_c(seed=3):
    """change c adds debug logging (read-only reductions over the transfer function) and an always-true assert to the
    three filters. The property suite is repeated with DEBUG logging switched ON (so that the diagnostic code actually
    runs), the outputs must stay bit-identical to the ORIGINAL texts; the global random state, the input maps and the
    logging configuration must be left alone."""
    import logging

    patched = hasattr(cryomap, "_log_filter")
    print("diagnostics present:", patched)

    records = []

    class Grab(logging.Handler):
        def emit(self, record):
            records.append(record.getMessage())  # forces the formatting of the arguments

    root = logging.getLogger()
    lg = logging.getLogger("cryocat.cryomap")
    before = (root.level, list(root.handlers), lg.level, list(lg.handlers), lg.propagate, lg.disabled)
    # importing / calling the filters configures nothing
    x = np.random.default_rng(seed).normal(size=(10, 12, 9))
    quiet(cryomap.lowpass, x, fourier_pixels=3)
    check((root.level, list(root.handlers), lg.level, list(lg.handlers), lg.propagate, lg.disabled) == before, "logging configuration untouched by the filters")
    check(lg.level == logging.NOTSET and not lg.handlers, "cryocat.cryomap logger has no level / handler of its own")

    h = Grab()
    h.setLevel(logging.DEBUG)
    lg.addHandler(h)
    lg.setLevel(logging.DEBUG)
    try:
        # global random state (legacy and the bit generator behind default_rng are separate; the legacy one is global)
        np.random.seed(12345)
        st0 = np.random.get_state()
        keep = x.copy()
        outs = []
        for f, o, kw in [
            (cryomap.lowpass, ORIG.lowpass, dict(fourier_pixels=3)),
            (cryomap.lowpass, ORIG.lowpass, dict(fourier_pixels=5, gaussian=0)),
            (cryomap.highpass, ORIG.highpass, dict(fourier_pixels=2)),
            (cryomap.highpass, ORIG.highpass, dict(target_resolution=4.0, pixel_size=1.5, gaussian=1)),
            (cryomap.bandpass, ORIG.bandpass, dict(lp_fourier_pixels=5, hp_fourier_pixels=1)),
            (cryomap.bandpass, ORIG.bandpass, dict(lp_target_resolution=3.0, hp_target_resolution=15.0, pixel_size=1.5, lp_gaussian=0, hp_gaussian=0)),
        ]:
            a = quiet(f, x, **kw)
            b = quiet(o, x, **kw)
            check(same(a, b), f"DEBUG on: {f.__name__}{kw} identical to ORIGINAL")
            check(same(a, quiet(f, x, **kw)), f"DEBUG on: {f.__name__}{kw} repeatable")
            check(np.array_equal(x, keep), f"DEBUG on: {f.__name__}{kw} leaves the input alone")
            outs.append(a)
        st1 = np.random.get_state()
        check(st0[0] == st1[0] and np.array_equal(st0[1], st1[1]) and st0[2:] == st1[2:], "global random state untouched")
        # integer maps: the summary must not turn them into something else
        xi = np.random.default_rng(seed).integers(-5, 50, size=(9, 8, 11)).astype(np.int16)
        ki = xi.copy()
        a = quiet(cryomap.lowpass, xi, fourier_pixels=2, gaussian=1)
        check(same(a, quiet(ORIG.lowpass, xi, fourier_pixels=2, gaussian=1)) and np.array_equal(xi, ki) and xi.dtype == np.int16, "DEBUG on: int16 map")
        # the whole property once more, with the diagnostics running
        n_before = len(records)
        property_suite(seed=7, heavy=False)
        if patched:
            check(len(records) > n_before and len(records) > 10, "debug records were produced while DEBUG was on")
            check(all(r.split(":")[0] in ("lowpass", "highpass", "bandpass") for r in records), "records name the filter")
            print("   sample record:", records[0])
            print("   sample record:", [r for r in records if r.startswith("bandpass")][0])
        else:
            check(len(records) == 0, "clean tree logs nothing")
    finally:
        lg.removeHandler(h)
        lg.setLevel(logging.NOTSET)
    # DEBUG off again: silent
    n = len(records)
    quiet(cryomap.lowpass, x, fourier_pixels=3)
    check(len(records) == n, "no record with DEBUG off")
    # the prints of get_filter_radius (stdout) are the same as before: logging does not go to stdout
    b1, b2 = io.StringIO(), io.StringIO()
    with contextlib.redirect_stdout(b1):
        cryomap.lowpass(x, fourier_pixels=3, pixel_size=1.5)
        cryomap.bandpass(x, lp_target_resolution=3.0, hp_target_resolution=15.0, pixel_size=1.5)
    with contextlib.redirect_stdout(b2):
        ORIG.lowpass(x, fourier_pixels=3, pixel_size=1.5)
        ORIG.bandpass(x, lp_target_resolution=3.0, hp_target_resolution=15.0, pixel_size=1.5)
    check(b1.getvalue() == b2.getvalue(), "stdout text identical to ORIGINAL")
    return len(records)


if __name__ == "__main__":
    property_suite(seed=0)  # diagnostics idle (default log level)
    nrec = extra_c()  # diagnostics running
    os.chdir(WORKTREE)
    import shutil

    shutil.rmtree(SCRATCH, ignore_errors=True)
    print(f"checks: {NCHECK[0]}, debug records: {nrec}, failures: {len(FAILS)}")
    if FAILS:
        print("FAIL")
        sys.exit(1)
    print("PASS")
