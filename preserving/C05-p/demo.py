"""C05 / change c: shift_positions gets an option frame="particle" | "tomogram". The default "particle" is the route
the function always had (shift rotated by each particle's orientation); "tomogram" adds the unrotated shift.

The demo
 1. checks the property (complete position x+shift and orientation transform rigidly under update / scale / shift /
    rotate / flip, histories of up to 6 operations; shift_positions called the old way) against an independent model
    built from plain 3x3 matrices and exact rational arithmetic for the rounding,
 2. runs the ORIGINAL shift_positions (text kept below) next to the one in the tree on the same tables -- called with
    one argument, with inplace positional, with inplace as keyword, and (where the tree has the option) with
    frame="particle" spelled out -- and requires identical tables (values bit for bit, dtypes, index, column order),
    identical treatment of the object the call was made on, or the same exception,
 3. where the tree has the option: frame="tomogram" moves every complete position by exactly the given vector and
    leaves the orientations alone.
Run:  cd /tmp/wt7/C05 && /venv/bin/python /tmp/seedsT/C05/c/demo.py
"""
import os
import sys

sys.path.insert(0, os.getcwd())

import copy
import warnings
from fractions import Fraction

import numpy as np
import pandas as pd
from scipy.spatial.transform import Rotation as rot

warnings.filterwarnings("ignore")

from cryocat import cryomotl
from cryocat.cryomotl import Motl

COLS = list(Motl.motl_columns)

# ----------------------------------------------------------------------------------------------------------------------
# the original function, verbatim from HEAD 6462733 (docstring dropped)
ORIG_SRC = '''
def shift_positions(self, shift, inplace=True):

    def shift_coords(row):
        v = np.array(shift)
        euler_angles = np.array([[row["phi"], row["theta"], row["psi"]]])
        orientations = rot.from_euler(seq="zxz", angles=euler_angles, degrees=True)
        rshifts = orientations.apply(v)

        row["shift_x"] = row["shift_x"] + rshifts[0][0]
        row["shift_y"] = row["shift_y"] + rshifts[0][1]
        row["shift_z"] = row["shift_z"] + rshifts[0][2]
        return row

    if inplace:
        self.df = self.df.apply(shift_coords, axis=1).reset_index(drop=True)
    else:
        new_motl = copy.deepcopy(self)
        new_motl.df = new_motl.df.apply(shift_coords, axis=1).reset_index(drop=True)
        return new_motl
'''
_ns = dict(vars(cryomotl))
exec(ORIG_SRC, _ns)


class OrigMotl(Motl):
    shift_positions = _ns["shift_positions"]


# ----------------------------------------------------------------------------------------------------------------------
# independent model
def Rz(a):
    a = np.deg2rad(a)
    c, s = np.cos(a), np.sin(a)
    return np.array([[c, -s, 0.0], [s, c, 0.0], [0.0, 0.0, 1.0]])


def Rx(a):
    a = np.deg2rad(a)
    c, s = np.cos(a), np.sin(a)
    return np.array([[1.0, 0.0, 0.0], [0.0, c, -s], [0.0, s, c]])


def euler_to_matrix(phi, theta, psi):
    # extrinsic zxz: first about z by phi, then about the fixed x by theta, then about the fixed z by psi
    return Rz(psi) @ Rx(theta) @ Rz(phi)


def half_away(v):
    """Round the float v to an integer, ties away from zero, in exact rational arithmetic."""
    f = Fraction(float(v))
    a = abs(f)
    n = a.numerator // a.denominator
    if a - n >= Fraction(1, 2):
        n += 1
    return -n if f < 0 else n


S = np.diag([1.0, 1.0, -1.0])


class Model:
    def __init__(self, df):
        self.P = df[["x", "y", "z"]].to_numpy(dtype=float) + df[["shift_x", "shift_y", "shift_z"]].to_numpy(dtype=float)
        self.M = [euler_to_matrix(*r) for r in df[["phi", "theta", "psi"]].to_numpy(dtype=float)]
        self.tomo = df["tomo_id"].to_numpy(dtype=float)

    def scale(self, f):
        self.P = self.P * f

    def shift(self, s):
        s = np.asarray(s, dtype=float).reshape(3)
        self.P = np.array([p + m @ s for p, m in zip(self.P, self.M)]).reshape(-1, 3)

    def rotate(self, Q):
        q = Q.as_matrix()
        self.M = [m @ q for m in self.M]

    def flip(self, table):
        self.M = [S @ m @ S for m in self.M]
        if table is None:
            return
        for i in range(len(self.P)):
            if isinstance(table, dict):
                if self.tomo[i] in table:
                    self.P[i, 2] = table[self.tomo[i]] + 1 - self.P[i, 2]
            else:
                self.P[i, 2] = table + 1 - self.P[i, 2]


def check_state(m, model, what):
    n = len(model.P)
    c = m.get_coordinates()
    assert c.shape == (n, 3), (what, c.shape)
    scale = 1.0 + np.abs(model.P)
    assert np.all(np.abs(c - model.P) <= 1e-7 * scale), (what, "position", np.abs(c - model.P).max())
    r = m.get_rotations()
    if n == 0:
        assert len(r) == 0
    else:
        mats = r.as_matrix().reshape(-1, 3, 3)
        assert mats.shape[0] == n
        err = max(np.abs(a - b).max() for a, b in zip(mats, model.M))
        assert err <= 1e-6, (what, "orientation", err)


def check_updated(m, before, what):
    """x, y, z are the half-away rounding of the former complete position, |shift| <= 0.5, sum unchanged."""
    xyz = m.df[["x", "y", "z"]].to_numpy(dtype=float)
    sh = m.df[["shift_x", "shift_y", "shift_z"]].to_numpy(dtype=float)
    assert xyz.shape == before.shape
    for (i, j), v in np.ndenumerate(before):
        assert xyz[i, j] == half_away(v), (what, v, xyz[i, j])
        assert abs(sh[i, j]) <= 0.5, (what, v, sh[i, j])
        assert Fraction(float(xyz[i, j])) + Fraction(float(sh[i, j])) == Fraction(float(v)) or abs(
            xyz[i, j] + sh[i, j] - v
        ) <= 1e-9 * (1 + abs(v)), (what, v)


# ----------------------------------------------------------------------------------------------------------------------
# inputs
rng = np.random.default_rng(int(os.environ.get("DEMO_SEED", "5")))

SPECIAL = [0.0, -0.0, 0.5, -0.5, 1.5, -1.5, 2.5, -2.5, 3.5, 0.49999999999999994, -0.49999999999999994,
           0.5000000000000001, 1e-20, -1e-20, 4503599627370495.5, -4503599627370495.5, 4503599627370496.0,
           2251799813685247.5, 1e15 + 0.5, 123456.5, -123456.5, 7.0, -7.0, 0.25, -0.75]
POLES = [0.0, 180.0, -180.0, 90.0, -90.0, 360.0, 1e-9, 180 - 1e-9]


def make_df(n, kind):
    d = {c: np.zeros(n) for c in COLS}
    d["score"] = rng.random(n)
    d["subtomo_id"] = np.arange(1, n + 1, dtype=float)
    d["tomo_id"] = rng.integers(1, 4, n).astype(float)
    d["object_id"] = rng.integers(1, 3, n).astype(float)
    d["class"] = np.ones(n)
    if kind == "integer_pos":
        xyz = rng.integers(-50, 200, (n, 3)).astype(float)
        sh = np.zeros((n, 3))
    elif kind == "ties":
        xyz = rng.integers(-50, 200, (n, 3)).astype(float)
        sh = rng.choice([0.5, -0.5, 1.5, -1.5, 2.5, -2.5, 0.0], (n, 3))
    elif kind == "special":
        xyz = rng.choice([0.0, 1.0, -1.0, 10.0], (n, 3))
        sh = rng.choice(SPECIAL, (n, 3))
        xyz[sh > 1e10] = 0.0
        xyz[sh < -1e10] = 0.0
    else:
        xyz = rng.uniform(-300, 300, (n, 3))
        sh = rng.uniform(-5, 5, (n, 3))
    d["x"], d["y"], d["z"] = xyz[:, 0], xyz[:, 1], xyz[:, 2]
    d["shift_x"], d["shift_y"], d["shift_z"] = sh[:, 0], sh[:, 1], sh[:, 2]
    ang = np.column_stack([rng.uniform(-180, 180, n), rng.uniform(0, 180, n), rng.uniform(-180, 180, n)])
    for i in range(n):
        if rng.random() < 0.3:
            ang[i, 1] = rng.choice(POLES)
        if rng.random() < 0.2:
            ang[i, 0] = rng.choice(POLES)
        if rng.random() < 0.1:
            ang[i, 1] = -ang[i, 1]
    d["phi"], d["theta"], d["psi"] = ang[:, 0], ang[:, 1], ang[:, 2]
    df = pd.DataFrame(d, columns=COLS)
    return df


def decorate(df, variant):
    """Same particles, different table layouts."""
    df = df.copy()
    n = len(df)
    if variant == "int_columns":
        for c in ("tomo_id", "object_id", "subtomo_id", "class"):
            df[c] = df[c].astype(np.int64)
    elif variant == "shuffled_columns":
        df = df.loc[:, list(rng.permutation(COLS))]
    elif variant == "odd_index":
        df.index = pd.Index(rng.permutation(np.arange(100, 100 + n)) * 3, name="pid")
    elif variant == "dup_index":
        df.index = pd.Index(np.zeros(n, dtype=int) + 7)
    elif variant == "nan_holes":
        for c in ("geom1", "geom4", "score"):
            col = df[c].to_numpy(copy=True)
            col[rng.random(n) < 0.4] = np.nan
            df[c] = col
    return df


def random_rotation():
    k = rng.integers(0, 5)
    if k == 0:
        return rot.identity()
    if k == 1:
        return rot.from_euler("zxz", [rng.choice(POLES), rng.choice([0.0, 180.0]), rng.choice(POLES)], degrees=True)
    if k == 2:
        return rot.from_euler("z", rng.uniform(-180, 180), degrees=True)
    return rot.random(random_state=int(rng.integers(0, 2**31)))


def random_dims(df):
    """Returns (argument for flip_handedness, model table)."""
    k = rng.integers(0, 7)
    tomos = sorted(set(df["tomo_id"].astype(float)))
    z = float(rng.integers(50, 400))
    if k == 0:
        return None, None
    if k == 1:
        return [400, 300, z], z
    if k == 2:
        return np.array([400.0, 300.0, z]), z
    if k == 3:
        return np.array([[400, 300, int(z)]]), z
    zs = {t: float(rng.integers(50, 400)) for t in tomos}
    if k == 4 and len(zs) > 1:  # a tomogram missing from the table keeps its positions
        zs.pop(tomos[-1])
    if not zs:
        zs = {1.0: z}
    rows = [[t, 400.0, 300.0, v] for t, v in zs.items()]
    if k == 5:
        return np.array(rows), zs
    return pd.DataFrame(rows), zs


def random_history(df, length):
    ops = []
    for _ in range(length):
        k = rng.choice(["update", "scale", "shift", "shift_copy", "rotate", "flip", "flip2"])
        if k == "scale":
            ops.append((k, float(rng.choice([0.5, 2.0, 4.0, 1.0, 0.25, 3.0, rng.uniform(0.1, 8)]))))
        elif k in ("shift", "shift_copy"):
            s = rng.choice([0, 1, -1, 2.5, -0.5], 3) if rng.random() < 0.4 else rng.uniform(-20, 20, 3)
            ops.append((k, list(s) if rng.random() < 0.5 else np.asarray(s)))
        elif k == "rotate":
            ops.append((k, random_rotation()))
        elif k in ("flip", "flip2"):
            ops.append((k, random_dims(df)))
        else:
            ops.append((k, None))
    return ops


def run_op(m, op, arg):
    if op == "update":
        m.update_coordinates()
    elif op == "scale":
        m.scale_coordinates(arg)
    elif op == "shift":
        m.shift_positions(copy.deepcopy(arg))
    elif op == "shift_copy":
        m = m.shift_positions(copy.deepcopy(arg), inplace=False)
    elif op == "rotate":
        m.apply_rotation(arg)
    elif op == "flip":
        m.flip_handedness(copy.deepcopy(arg[0]))
    elif op == "flip2":
        m.flip_handedness(copy.deepcopy(arg[0]))
        m.flip_handedness(copy.deepcopy(arg[0]))
    return m


def model_op(model, op, arg):
    if op == "scale":
        model.scale(arg)
    elif op in ("shift", "shift_copy"):
        model.shift(arg)
    elif op == "rotate":
        model.rotate(arg)
    elif op == "flip":
        model.flip(arg[1])
    # update and flip2 leave the model as it is


def same_frames(a, b, what):
    pd.testing.assert_frame_equal(a, b, check_exact=True, check_dtype=True, obj=what)
    assert list(a.columns) == list(b.columns), what
    assert a.index.equals(b.index) and a.index.names == b.index.names, what
    va, vb = a.to_numpy(dtype=float), b.to_numpy(dtype=float)
    assert np.array_equal(np.signbit(va), np.signbit(vb)), (what, "sign of zero")
    assert np.array_equal(va, vb, equal_nan=True), what


# ----------------------------------------------------------------------------------------------------------------------
def part1_property():
    count = 0
    for n in (0, 1, 2, 5, 17):
        for kind in ("integer_pos", "ties", "special", "random"):
            for variant in ("plain", "int_columns", "shuffled_columns", "odd_index", "dup_index", "nan_holes"):
                base = decorate(make_df(n, kind), variant)
                for rep in range(2):
                    hist = random_history(base, int(rng.integers(1, 7)))
                    for cls in (Motl, OrigMotl):
                        m = cls(base.copy())
                        model = Model(base)
                        check_state(m, model, "start")
                        for step, (op, arg) in enumerate(hist):
                            before = m.get_coordinates().copy()
                            m = run_op(m, op, arg)
                            model_op(model, op, arg)
                            what = (n, kind, variant, step, op)
                            check_state(m, model, what)
                            if op == "update":
                                check_updated(m, before, what)
                                # repeated call on the same object: nothing moves any more
                                again = m.df.copy()
                                m.update_coordinates()
                                assert np.array_equal(
                                    again[["x", "y", "z", "shift_x", "shift_y", "shift_z"]].to_numpy(),
                                    m.df[["x", "y", "z", "shift_x", "shift_y", "shift_z"]].to_numpy(),
                                ), what
                        count += 1
    # composition laws spelled out once more on one list
    base = make_df(9, "random")
    s1, s2 = rng.uniform(-5, 5, 3), rng.uniform(-5, 5, 3)
    a, b = Motl(base.copy()), Motl(base.copy())
    a.shift_positions(s1)
    a.shift_positions(s2)
    b.shift_positions(s1 + s2)
    assert np.allclose(a.get_coordinates(), b.get_coordinates(), atol=1e-9)
    q1, q2 = random_rotation(), rot.random(random_state=3)
    a, b = Motl(base.copy()), Motl(base.copy())
    a.apply_rotation(q1)
    a.apply_rotation(q2)
    b.apply_rotation(q1 * q2)
    assert np.allclose(a.get_rotations().as_matrix(), b.get_rotations().as_matrix(), atol=1e-9)
    assert np.array_equal(a.get_coordinates(), Motl(base.copy()).get_coordinates())
    return count


import inspect

HAS_FRAME = "frame" in inspect.signature(Motl.shift_positions).parameters


def outcome(f):
    try:
        return "ok", f()
    except Exception as e:  # noqa
        return type(e).__name__, None


SHIFTS = [[0, 0, 0], [1, 0, 0], [0, 1, 0], [0, 0, 1], [0, 0, -1], (2, -3, 4), [0.5, -0.5, 2.5],
          np.array([1, 2, 3]), np.array([1.5, -2.25, 1e-3]), np.array([[4.0, 5.0, 6.0]]), np.array([-7, 0, 7], dtype=np.int32)]


def part2_original_vs_tree():
    count = 0
    assert list(inspect.signature(Motl.shift_positions).parameters)[:3] == ["self", "shift", "inplace"]
    assert inspect.signature(Motl.shift_positions).parameters["inplace"].default is True
    variants = ("plain", "int_columns", "shuffled_columns", "odd_index", "dup_index", "nan_holes", "int_everything")
    for n in (0, 1, 2, 3, 8, 25):
        for kind in ("integer_pos", "ties", "special", "random"):
            for variant in variants:
                if variant == "int_everything":
                    base = make_df(n, "integer_pos").round().astype(np.int64)
                else:
                    base = decorate(make_df(n, kind), variant)
                o, t = OrigMotl(base.copy()), Motl(base.copy())
                for call in range(3):  # repeated calls on the same objects
                    what = (n, kind, variant, call)
                    s = SHIFTS[int(rng.integers(0, len(SHIFTS)))] if rng.random() < 0.6 else rng.uniform(-30, 30, 3)
                    s_before = copy.deepcopy(s)
                    # 1) a copy is returned, the object itself is left as it was
                    for style in ("positional", "keyword") + (("frame",) if HAS_FRAME else ()):
                        od, td = o.df, t.df
                        ko, ro = outcome(lambda: o.shift_positions(s, False))
                        if style == "positional":
                            kt, rt = outcome(lambda: t.shift_positions(s, False))
                        elif style == "keyword":
                            kt, rt = outcome(lambda: t.shift_positions(s, inplace=False))
                        else:
                            kt, rt = outcome(lambda: t.shift_positions(s, False, "particle"))
                        assert ko == kt, (what, style, ko, kt)
                        assert o.df is od and t.df is td
                        same_frames(o.df, t.df, what + (style, "self"))
                        if ko == "ok":
                            assert type(rt) is Motl and rt is not t
                            same_frames(ro.df, rt.df, what + (style, "returned"))
                        count += 1
                    # 2) in place
                    style = ("plain", "frame")[call % 2] if HAS_FRAME else "plain"
                    ko, ro = outcome(lambda: o.shift_positions(s))
                    if style == "plain":
                        kt, rt = outcome(lambda: t.shift_positions(s))
                    else:
                        kt, rt = outcome(lambda: t.shift_positions(s, frame="particle"))
                    assert ko == kt and ro is None and rt is None, (what, ko, kt)
                    same_frames(o.df, t.df, what + ("inplace",))
                    if ko == "ok" and n > 0:
                        assert list(t.df.index) == list(range(n))  # the index is reset as before
                    assert np.array_equal(np.asarray(s), np.asarray(s_before))  # the argument is not written to
                    count += 1
    return count


def part3_new_option():
    if not HAS_FRAME:
        return 0
    count = 0
    for n in (0, 1, 4, 13):
        for variant in ("plain", "int_columns", "shuffled_columns", "odd_index"):
            base = decorate(make_df(n, "random"), variant)
            m = Motl(base.copy())
            model = Model(base)
            total = np.zeros(3)
            for s in SHIFTS + [rng.uniform(-10, 10, 3)]:
                v = np.asarray(s, dtype=float).reshape(3)
                if rng.random() < 0.5:
                    m.shift_positions(s, frame="tomogram")
                else:
                    m = m.shift_positions(s, inplace=False, frame="tomogram")
                model.P = model.P + v
                total += v
                check_state(m, model, ("tomogram frame", n, variant))
                count += 1
            # positions x, y, z and the angles are not touched
            for c in ("x", "y", "z", "phi", "theta", "psi", "tomo_id"):
                assert np.array_equal(m.df[c].to_numpy(dtype=float), base[c].to_numpy(dtype=float))
            # the two frames agree for particles with the identity orientation
            ident = base.copy()
            ident[["phi", "theta", "psi"]] = 0.0
            a, b = Motl(ident.copy()), Motl(ident.copy())
            a.shift_positions([1.5, -2, 3])
            b.shift_positions([1.5, -2, 3], frame="tomogram")
            assert np.allclose(a.get_coordinates(), b.get_coordinates(), atol=1e-12)
    for bad in ("Particle", "motl", None, 1):
        m = Motl(make_df(3, "random"))
        before = m.df.copy()
        try:
            m.shift_positions([1, 2, 3], frame=bad)
        except ValueError:
            pass
        else:
            raise AssertionError("unknown frame accepted")
        same_frames(m.df, before, "unknown frame")
    return count


if __name__ == "__main__":
    c1 = part1_property()
    c2 = part2_original_vs_tree()
    c3 = part3_new_option()
    print(f"property histories checked: {c1}; original-vs-tree comparisons: {c2}; new-option checks: {c3}"
          + ("" if HAS_FRAME else " (tree without the option)"))
    print("PASS")
