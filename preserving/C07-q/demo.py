"""C07 / change a: scores_extract_particles selects positions and scores with one index array.
Run: cd /tmp/wt11/C07 && /venv/bin/python /tmp/seedsU/C07/a/demo.py
"""
import sys, os
sys.path.insert(0, os.getcwd())
import warnings
warnings.filterwarnings("ignore")
import io, contextlib, tempfile, logging, shutil
import numpy as np
import pandas as pd
from cryocat import cryomotl, tmana, geom
from cryocat.cryomotl import Motl

FAIL = []
COUNT = {"clean_cases": 0, "peak_cases": 0, "compared": 0}


def check(cond, msg):
    if not cond:
        if len(FAIL) < 30:
            print("VIOLATION:", msg)
        FAIL.append(msg)
    return cond


@contextlib.contextmanager
def quiet():
    with contextlib.redirect_stdout(io.StringIO()):
        yield


def frames_equal(a, b):
    """Exact equality of two tables: shape, column order, index, dtypes and values (NaN == NaN)."""
    if a is None or b is None:
        return a is None and b is None
    if list(a.columns) != list(b.columns) or a.shape != b.shape:
        return False
    if not a.index.equals(b.index):
        return False
    if list(a.dtypes) != list(b.dtypes):
        return False
    for c in a.columns:
        x, y = a[c].to_numpy(), b[c].to_numpy()
        if x.dtype.kind in "fc":
            if not np.array_equal(x, y, equal_nan=True):
                return False
        elif not np.array_equal(x, y):
            return False
    return True


def run_catch(fn, *args, **kwargs):
    """Returns ('ok', result) or ('exc', exception type name)."""
    try:
        with quiet():
            r = fn(*args, **kwargs)
        return "ok", r
    except Exception as e:  # noqa
        return "exc", type(e).__name__


# ------------------------------------------------------------------------------------------------------------------
#  Part 1: Motl.clean_by_distance
# ------------------------------------------------------------------------------------------------------------------
UID = "geom4"  # unique row label carried through the cleaning (never used as grouping field or metric)
GROUP_FIELDS = ["tomo_id", "object_id", "class", "geom1", "geom2", "subtomo_mean", "geom5"]


def make_list(rng, n, n_groups, feature, metric, kind):
    """Builds a particle list with clusters. kind is a dict of switches."""
    cols = Motl.motl_columns
    df = pd.DataFrame(0.0, index=range(n), columns=cols)
    # clustered positions
    n_centres = max(1, int(rng.integers(1, max(2, n // 4 + 1))))
    centres = rng.uniform(-60, 200, size=(n_centres, 3))
    which = rng.integers(0, n_centres, size=n)
    spread = kind.get("spread", 4.0)
    pos = centres[which] + rng.normal(0, spread, size=(n, 3))
    if kind.get("int_coords"):
        xyz = np.round(pos)
        shifts = rng.uniform(-0.5, 0.5, size=(n, 3)) if kind.get("shifts", True) else np.zeros((n, 3))
    else:
        xyz = np.floor(pos)
        shifts = pos - xyz if kind.get("shifts", True) else np.zeros((n, 3))
    if kind.get("duplicates") and n > 3:
        # a few particles at exactly the same place (distance 0 < d)
        k = int(rng.integers(1, max(2, n // 5)))
        src = rng.integers(0, n, size=k)
        dst = rng.integers(0, n, size=k)
        xyz[dst] = xyz[src]
        shifts[dst] = shifts[src]
    df[["x", "y", "z"]] = xyz
    df[["shift_x", "shift_y", "shift_z"]] = shifts
    if kind.get("int_coords") and not kind.get("shifts", True):
        df[["x", "y", "z"]] = df[["x", "y", "z"]].astype(int)
    # filler columns
    df["subtomo_id"] = np.arange(1, n + 1)
    df["tomo_id"] = 1
    df["object_id"] = 1
    df["class"] = 1
    df["phi"] = rng.uniform(-180, 180, n)
    df["theta"] = rng.choice([0.0, 180.0, 90.0, 33.3], n)  # poles included
    df["psi"] = rng.uniform(-180, 180, n)
    df["geom3"] = rng.normal(size=n)
    # groups
    gtype = kind.get("group_values", "int")
    if gtype == "int":
        labels = rng.choice(np.arange(-3, 50), size=n_groups, replace=False)
    elif gtype == "float":
        labels = rng.choice(np.arange(-4, 40) * 0.5, size=n_groups, replace=False)
    else:  # big ints, unsorted
        labels = rng.choice(np.array([1000, 7, 10, 2, 315, 99]), size=n_groups, replace=False)
    g = labels[rng.integers(0, n_groups, size=n)]
    g[: min(n, n_groups)] = labels[: min(n, n_groups)]  # every label used if n allows
    rng.shuffle(g)
    df[feature] = g
    # scores
    stype = kind.get("scores", "float")
    if stype == "float":
        s = rng.uniform(-1, 1, n)
    elif stype == "ties":
        s = np.round(rng.uniform(-0.3, 0.3, n), 1) + 0.0  # many equal scores, zeros, negatives
    elif stype == "int":
        s = rng.permutation(n) - n // 2
    else:  # "const"
        s = np.full(n, 0.25)
    df[metric] = s
    if stype == "int":
        df[metric] = df[metric].astype(int)
    # NaN holes in columns that play no role
    if kind.get("nan_holes"):
        for c in ["geom3", "geom5", "subtomo_mean", "geom1"]:
            if c not in (feature, metric):
                holes = rng.random(n) < 0.2
                df.loc[holes, c] = np.nan
    df[UID] = np.arange(n, dtype=float) + 0.5
    # row index
    itype = kind.get("index", "range")
    if itype == "shuffled":
        df.index = rng.permutation(n)
    elif itype == "offset":
        df.index = np.arange(n) * 3 + 11
    elif itype == "reversed":
        df.index = np.arange(n)[::-1]
    elif itype == "repeated":
        df.index = np.zeros(n, dtype=int)
    return df


def positions(df):
    return df[["x", "y", "z"]].to_numpy(dtype=float) + df[["shift_x", "shift_y", "shift_z"]].to_numpy(dtype=float)


def all_dists(p):
    diff = p[:, None, :] - p[None, :, :]
    return np.sqrt((diff ** 2).sum(axis=2))


def pick_distance(rng, df, feature, kind):
    """A radius d > 0 such that no pair of one group lies at exactly d (ties are outside the quantifier)."""
    choice = kind.get("d", "float")
    if choice == "int":
        d = float(rng.integers(1, 12))
    elif choice == "tiny":
        d = 1e-6
    elif choice == "huge":
        d = 1e6
    elif choice == "inf":
        d = np.inf
    else:
        d = float(rng.uniform(0.5, 15))
    for _ in range(50):
        tie = False
        for f in np.unique(df[feature].to_numpy()):
            p = positions(df[df[feature] == f])
            if np.any(np.abs(all_dists(p) - d) < 1e-9):
                tie = True
        if not tie:
            break
        d += 0.01371
    if choice == "int" and not tie and float(d).is_integer() and rng.random() < 0.5:
        d = int(d)
    return d


def reference_kept(df, d, feature, metric, keep_greater):
    """Independent greedy computation; returns per group (set of kept uids, unique?)"""
    res = {}
    for f in pd.unique(df[feature]):
        sub = df[df[feature] == f]
        p = positions(sub)
        s = sub[metric].to_numpy(dtype=float)
        uid = sub[UID].to_numpy()
        unique_scores = len(np.unique(s)) == len(s)
        order = sorted(range(len(s)), key=lambda i: (-s[i] if keep_greater else s[i]))
        near = all_dists(p) < d
        alive = [True] * len(s)
        kept = []
        for i in order:
            if not alive[i]:
                continue
            kept.append(uid[i])
            for k in np.flatnonzero(near[i]):
                if k != i:
                    alive[k] = False
        res[f] = (set(kept), unique_scores)
    return res


def check_clean_property(df_in, df_out, d, feature, metric, keep_greater, tag, with_reference=True):
    ok = True
    uid_in = df_in[UID].to_numpy()
    uid_out = df_out[UID].to_numpy() if df_out.shape[0] else np.array([])
    ok &= check(len(set(uid_out)) == len(uid_out), f"{tag}: a particle appears twice in the result")
    ok &= check(set(uid_out) <= set(uid_in), f"{tag}: result has a particle that was not in the input")
    # remaining rows carry their original values
    src = df_in.set_index(UID, drop=False)
    for c in Motl.motl_columns:
        a = src.loc[uid_out, c].to_numpy(dtype=float) if len(uid_out) else np.array([])
        b = df_out[c].to_numpy(dtype=float) if len(uid_out) else np.array([])
        ok &= check(np.array_equal(a, b, equal_nan=True), f"{tag}: column {c} of the remaining particles changed")
    kept_mask = np.isin(uid_in, uid_out)
    pos = positions(df_in)
    sc = df_in[metric].to_numpy(dtype=float)
    gr = df_in[feature].to_numpy()
    for f in np.unique(gr):
        gi = np.flatnonzero(gr == f)
        ki = gi[kept_mask[gi]]
        ri = gi[~kept_mask[gi]]
        ok &= check(len(ki) >= 1, f"{tag}: group {f} lost all its particles")
        if len(ki) >= 2:
            D = all_dists(pos[ki])
            D[np.diag_indices(len(ki))] = np.inf
            ok &= check(D.min() >= d, f"{tag}: group {f} keeps two particles at distance {D.min()} < {d}")
        if len(ri) and len(ki):
            diff = pos[ri][:, None, :] - pos[ki][None, :, :]
            D = np.sqrt((diff ** 2).sum(axis=2))
            better = (sc[ki][None, :] >= sc[ri][:, None]) if keep_greater else (sc[ki][None, :] <= sc[ri][:, None])
            dominated = ((D < d) & better).any(axis=1)
            ok &= check(dominated.all(), f"{tag}: group {f}: removed particle(s) {uid_in[ri[~dominated]][:3]} have no "
                                         f"remaining neighbour within {d} with an equal or better {metric}")
    if with_reference:
        ref = reference_kept(df_in, d, feature, metric, keep_greater)
        for f, (kept, unique_scores) in ref.items():
            got = set(uid_in[(gr == f) & kept_mask])
            if unique_scores:
                ok &= check(got == kept, f"{tag}: group {f}: kept set differs from the independent greedy computation")
    return ok


def run_clean(fn, df, d, feature, metric, keep_greater, positional=False):
    m = Motl(df.copy())
    with quiet():
        if fn is None:
            if positional:
                r = m.clean_by_distance(d, feature, metric, keep_greater)
            else:
                r = m.clean_by_distance(distance_in_voxels=d, feature_id=feature, metric_id=metric, keep_greater=keep_greater)
        else:
            r = fn(m, d, feature, metric, keep_greater)
    assert r is None
    return m


def clean_cases(seed, n_cases):
    """Generator of (tag, df, d, feature, metric, keep_greater)."""
    rng = np.random.default_rng(seed)
    for it in range(n_cases):
        if it < 12:
            n = [1, 1, 2, 2, 3, 3, 4, 5, 400, 400, 7, 8][it]
        else:
            n = int(rng.choice([int(rng.integers(1, 30)), int(rng.integers(30, 401))], p=[0.6, 0.4]))
        n_groups = int(min(n, rng.integers(1, 5)))
        feature = GROUP_FIELDS[it % len(GROUP_FIELDS)] if it % 3 else "tomo_id"
        metric = "score" if it % 4 else rng.choice([c for c in ["geom2", "subtomo_mean", "geom1"] if c != feature])
        kind = {
            "spread": float(rng.choice([0.5, 2.0, 4.0, 10.0])),
            "int_coords": bool(rng.random() < 0.35),
            "shifts": bool(rng.random() < 0.7),
            "duplicates": bool(rng.random() < 0.25),
            "group_values": str(rng.choice(["int", "float", "big"])),
            "scores": str(rng.choice(["float", "ties", "int", "const"], p=[0.55, 0.2, 0.2, 0.05])),
            "nan_holes": bool(rng.random() < 0.3),
            "index": str(rng.choice(["range", "shuffled", "offset", "reversed", "repeated"])),
            "d": str(rng.choice(["float", "int", "tiny", "huge", "inf"], p=[0.55, 0.3, 0.05, 0.05, 0.05])),
        }
        if feature in ("tomo_id", "object_id", "class") and kind["group_values"] == "float":
            kind["group_values"] = "int"
        df = make_list(rng, n, n_groups, feature, metric, kind)
        d = pick_distance(rng, df, feature, kind)
        keep_greater = bool(it % 2 == 0)
        yield f"clean#{seed}.{it}[n={n},g={n_groups},{feature},{metric},{'hi' if keep_greater else 'lo'},d={d}]", df, d, feature, metric, keep_greater


def test_clean(seed, n_cases, orig_fn=None, extra=None):
    for tag, df, d, feature, metric, keep_greater in clean_cases(seed, n_cases):
        df_before = df.copy()
        m = run_clean(None, df, d, feature, metric, keep_greater, positional=(COUNT["clean_cases"] % 5 == 0))
        check(frames_equal(df, df_before), f"{tag}: the caller's table was modified")
        check_clean_property(df, m.df, d, feature, metric, keep_greater, tag)
        gr = df[feature].to_numpy()
        # different groups never affect each other: every group on its own gives the same remaining set
        if len(np.unique(gr)) > 1:
            for f in np.unique(gr):
                alone = run_clean(None, df[df[feature] == f], d, feature, metric, keep_greater)
                a = set(alone.df[UID].to_numpy())
                b = set(m.df.loc[m.df[feature] == f, UID].to_numpy())
                check(a == b, f"{tag}: group {f} is cleaned differently alone and next to the other groups")
        # repeated call on the same object: a separated set stays as it is
        again = Motl(m.df.copy())
        with quiet():
            again.clean_by_distance(d, feature, metric, keep_greater)
        check(set(again.df[UID].to_numpy()) == set(m.df[UID].to_numpy()), f"{tag}: a second cleaning removes more")
        # second call on a fresh copy gives the same result (no hidden state)
        m2 = run_clean(None, df, d, feature, metric, keep_greater)
        check(frames_equal(m.df, m2.df), f"{tag}: two calls on equal inputs differ")
        if orig_fn is not None:
            mo = run_clean(orig_fn, df, d, feature, metric, keep_greater)
            check(frames_equal(m.df, mo.df), f"{tag}: result differs from the original clean_by_distance")
            COUNT["compared"] += 1
        if extra is not None:
            extra(tag, df, d, feature, metric, keep_greater, m)
        COUNT["clean_cases"] += 1


# ------------------------------------------------------------------------------------------------------------------
#  Part 2: tmana.scores_extract_particles
# ------------------------------------------------------------------------------------------------------------------
TMPDIR = tempfile.mkdtemp(prefix="c07demo_")


def make_maps(rng, shape, n_angles, numbering, score_type, angle_type):
    nvox = int(np.prod(shape))
    if score_type == "int32":
        S = (rng.permutation(nvox).astype(np.int32) - nvox // 3).reshape(shape)  # plateau free, negatives, a zero
    elif score_type == "float32":
        S = rng.permutation(nvox).astype(np.float32).reshape(shape) / np.float32(nvox)  # exact in float32
        S = S - np.float32(0.25)
    else:
        S = rng.random(shape) * 2 - 0.5
        while len(np.unique(S)) != nvox:
            S = rng.random(shape) * 2 - 0.5
    # a smooth bump or two so that neighbouring voxels compete
    A = rng.integers(numbering, numbering + n_angles, size=shape)
    # make sure first and last entries of the list are used
    flat = A.reshape(-1)
    flat[0] = numbering
    flat[-1] = numbering + n_angles - 1
    assert len(np.unique(S)) == nvox
    A = flat.reshape(shape).astype({"float32": np.float32, "int64": np.int64, "int16": np.int16}[angle_type])
    L = np.column_stack([rng.uniform(-180, 180, n_angles), rng.choice([0.0, 180.0, 57.25, 90.0], n_angles),
                         rng.uniform(-180, 180, n_angles)])
    L[0] = [0.0, 0.0, 0.0]
    return S, A, L


def reference_peaks(S, thr, D):
    idx = np.argwhere(S > thr)
    if len(idx) == 0:
        return None
    sc = S[idx[:, 0], idx[:, 1], idx[:, 2]]
    order = np.argsort(-sc.astype(float), kind="stable")
    idx, sc = idx[order], sc[order]
    alive = np.ones(len(idx), dtype=bool)
    peaks = []
    for i in range(len(idx)):
        if not alive[i]:
            continue
        peaks.append(tuple(idx[i]))
        dist = np.sqrt(((idx - idx[i]) ** 2).sum(axis=1).astype(float))
        alive &= ~(dist <= D)
    return peaks


def check_peaks(motl, S, A, L_expected, thr, D, numbering, tomo_id, object_id, tag):
    sup = np.argwhere(S > thr)
    if len(sup) == 0:
        return check(motl is None, f"{tag}: no voxel above the threshold but a list is returned")
    if not check(motl is not None, f"{tag}: voxels above the threshold but nothing returned"):
        return False
    df = motl.df
    ok = True
    p1 = df[["x", "y", "z"]].to_numpy()
    ok &= check(np.array_equal(p1, np.round(p1)), f"{tag}: non-integer peak position")
    p = p1.astype(int) - 1  # 1-based -> voxel
    inside = np.all((p >= 0) & (p < np.array(S.shape)), axis=1)
    if not check(inside.all(), f"{tag}: peak outside the map"):
        return False
    ok &= check(len({tuple(r) for r in p}) == len(p), f"{tag}: a voxel is extracted twice")
    sv = S[p[:, 0], p[:, 1], p[:, 2]]
    ok &= check(np.array_equal(df["score"].to_numpy(), sv), f"{tag}: a peak does not carry its voxel's score")
    ok &= check(bool(np.all(sv > thr)), f"{tag}: a peak does not exceed the threshold")
    ok &= check(np.all(df[["shift_x", "shift_y", "shift_z"]].to_numpy() == 0), f"{tag}: shifts are not zero")
    if len(p) >= 2:
        Dm = all_dists(p.astype(float))
        Dm[np.diag_indices(len(p))] = np.inf
        ok &= check(Dm.min() > D, f"{tag}: two peaks at distance {Dm.min()} <= diameter {D}")
    # domination of every supra-threshold voxel
    ss = S[sup[:, 0], sup[:, 1], sup[:, 2]]
    chunk = max(1, 2_000_000 // max(1, len(p)))
    for a in range(0, len(sup), chunk):
        q = sup[a:a + chunk]
        dist = np.sqrt(((q[:, None, :] - p[None, :, :]) ** 2).sum(axis=2).astype(float))
        dom = ((dist <= D) & (sv[None, :] >= ss[a:a + chunk][:, None])).any(axis=1)
        ok &= check(dom.all(), f"{tag}: supra-threshold voxel {q[~dom][:1]} has no peak within the diameter with an "
                               f"equal or higher score")
    # angles
    ai = A[p[:, 0], p[:, 1], p[:, 2]].astype(int) - numbering
    ok &= check(np.array_equal(df["phi"].to_numpy(), L_expected[ai, 0]), f"{tag}: phi is not the list entry")
    ok &= check(np.array_equal(df["theta"].to_numpy(), L_expected[ai, 1]), f"{tag}: theta is not the list entry")
    ok &= check(np.array_equal(df["psi"].to_numpy(), L_expected[ai, 2]), f"{tag}: psi is not the list entry")
    ok &= check(np.all(df["tomo_id"].to_numpy() == tomo_id), f"{tag}: tomo_id")
    ok &= check(np.all(df["object_id"].to_numpy() == (1 if object_id is None else object_id)), f"{tag}: object_id")
    ok &= check(np.array_equal(df["subtomo_id"].to_numpy(), np.arange(1, len(p) + 1)), f"{tag}: subtomo_id")
    # exact set of peaks (scores are plateau free, so the greedy selection is unique)
    ref = reference_peaks(S, thr, D)
    ok &= check({tuple(r) for r in p} == set(ref), f"{tag}: peaks differ from the independent greedy computation")
    return ok


def peak_cases(seed, n_cases):
    rng = np.random.default_rng(seed)
    fixed_shapes = [(1, 1, 1), (1, 1, 6), (2, 3, 1), (7, 8, 9), (16, 16, 16), (15, 9, 12), (40, 40, 40), (5, 5, 5)]
    for it in range(n_cases):
        if it < len(fixed_shapes):
            shape = fixed_shapes[it]
        else:
            shape = tuple(int(v) for v in rng.integers(1, 25, size=3))
        numbering = int(it % 2)
        order = "zzx" if (it // 2) % 2 else "zxz"
        n_angles = int(rng.integers(1, 40))
        score_type = ["float64", "float32", "int32"][it % 3]
        angle_type = ["float32", "int64", "int16"][(it // 3) % 3]
        S, A, L = make_maps(rng, shape, n_angles, numbering, score_type, angle_type)
        nvox = S.size
        # threshold: a quantile, exactly a voxel's value (strict >), above the maximum, below the minimum
        flat = np.sort(S.reshape(-1))
        mode = it % 7
        max_sup = 2500
        if mode == 5:
            thr = flat[-1]  # nothing exceeds it
        elif mode == 6 and nvox <= max_sup:
            thr = flat[0] - 1  # everything exceeds it
        elif mode == 3:
            thr = flat[max(0, nvox - 1 - int(rng.integers(0, min(nvox, max_sup))))]  # exactly one voxel's score
        else:
            k = int(rng.integers(1, min(nvox, max_sup) + 1))
            lo = flat[nvox - k - 1] if nvox - k - 1 >= 0 else flat[0] - 1
            thr = (float(lo) + float(flat[nvox - k])) / 2
        thr = thr.item() if hasattr(thr, "item") and rng.random() < 0.5 else thr
        D = [1, 2, 3, 5, 2.5, 1.5, float(rng.uniform(0.3, 9)), float(rng.uniform(0.3, 4)), 4, 60.0][it % 10]
        # angle list: array (taken as phi, theta, psi whatever the order) or csv file (zzx lines are phi, psi, theta)
        as_file = order == "zzx" or it % 4 == 0
        if as_file:
            path = os.path.join(TMPDIR, f"angles_{seed}_{it}.csv")
            # three decimals: short decimal strings are read back exactly by the csv reader
            np.savetxt(path, L, delimiter=",", fmt="%.3f")
            ang_arg = path
            L_file = np.array([[float("%.3f" % v) for v in row] for row in L]).reshape(-1, 3)
            L_expected = L_file[:, [0, 2, 1]] if order == "zzx" else L_file
        else:
            ang_arg = L
            L_expected = L
        tomo_id = int(rng.integers(1, 500))
        object_id = None if it % 3 else int(rng.integers(1, 9))
        tag = f"peaks#{seed}.{it}[{shape},{score_type},{angle_type},thr={thr},D={D},num={numbering},{order}]"
        yield tag, S, A, L, ang_arg, L_expected, thr, D, numbering, order, tomo_id, object_id


def test_peaks(seed, n_cases, orig_fn=None):
    for tag, S, A, L, ang_arg, L_expected, thr, D, numbering, order, tomo_id, object_id in peak_cases(seed, n_cases):
        S0, A0, L0 = S.copy(), A.copy(), L.copy()
        kw = dict(object_id=object_id, scores_threshold=thr, angles_order=order, angles_numbering=numbering)
        st, m = run_catch(tmana.scores_extract_particles, S, A, ang_arg, tomo_id, D, **kw)
        if not check(st == "ok", f"{tag}: raised {m}"):
            continue
        check(np.array_equal(S, S0) and np.array_equal(A, A0) and np.array_equal(L, L0), f"{tag}: inputs modified")
        check_peaks(m, S, A, L_expected, thr, D, numbering, tomo_id, object_id, tag)
        # repeated call on the same objects
        st2, m2 = run_catch(tmana.scores_extract_particles, S, A, ang_arg, tomo_id, D, **kw)
        check(st2 == "ok" and frames_equal(None if m is None else m.df, None if m2 is None else m2.df),
              f"{tag}: two calls on the same maps differ")
        if orig_fn is not None:
            sto, mo = run_catch(orig_fn, S, A, ang_arg, tomo_id, D, **kw)
            check(sto == "ok" and frames_equal(None if m is None else m.df, None if mo is None else mo.df),
                  f"{tag}: result differs from the original scores_extract_particles")
            COUNT["compared"] += 1
        COUNT["peak_cases"] += 1


def load_original(module, src, name):
    """Compiles the text of the original function in the namespace of its module."""
    ns = dict(vars(module))
    exec(compile(src, f"<original {name}>", "exec"), ns)
    return ns[name]


def finish():
    shutil.rmtree(TMPDIR, ignore_errors=True)
    print(f"clean_by_distance cases: {COUNT['clean_cases']}, scores_extract_particles cases: {COUNT['peak_cases']}, "
          f"comparisons with the original text: {COUNT['compared']}")
    if FAIL:
        print(f"FAIL ({len(FAIL)} violations)")
        sys.exit(1)
    print("PASS")
    sys.exit(0)


# text of the ORIGINAL function (HEAD of the scratch tree), compiled in the namespace of its module
ORIG_TEXT = r'''def scores_extract_particles(
    scores_map,
    angles_map,
    angles_list,
    tomo_id,
    particle_diameter,
    object_id=None,
    scores_threshold=None,
    sigma_threshold=None,
    cluster_size=None,
    n_particles=None,
    output_path=None,
    output_type="emmotl",
    angles_order="zxz",
    symmetry="c1",
    angles_numbering=0,
    tomo_mask=None,
):
    """Extracts particles from scores maps produced by template matching with GAPSTOP(TM) or STOPGAP.

    Parameters
    ----------
    scores_map : str or array-like
        Path to the scores map file or the scores map array.
    angles_map : str or array-like
        Path to the angles map file or the angles map array.
    angles_list : str or array-like
        Path to the angles list file or the angles list array.
    tomo_id : int
        Identifier for the tomogram from which particles are being extracted.
    particle_diameter : float
        Diameter of the particle to be used for extraction and clustering.
    object_id : int, optional
        Identifier for the object within the tomogram. Defaults to None.
    scores_threshold : float, optional
        "Direct" threshold for the scores map. If set, all values below this threshold will be removed from the scores
        map. This parameter is useful if one knows exact threshold for the scores map. Defaults to None.
    sigma_threshold : float, optional
        Number of standard deviations above the mean to consider as threshold for particle extraction. This parameter
        is prefered over the scores threshold for "batch" processing since the exact scores threshold might differ
        between different scores maps, while the sigma confidence is relatively stable. If None, the threshold is
        computed using :meth:`cryocat.tmana.compute_scores_map_threshold_triangle` function. Defaults to None.
    cluster_size : int, optional
        Minimum number of particles required to form a cluster. Defaults to None.
    n_particles : int, optional
        Maximum number of particles to extract. Defaults to None.
    output_path : str, optional
        Path to save the output file. If the output_path is not specified no file will be written out. Defaults to None.
    output_type : str, {"emmotl", "stopgap", "relion"}
        Type of the file to be written out. The options are "emmotl", "stopgap", "relion". This parameter is used only
        if output_path is not None. Defaults to "emmotl".
    angles_order : str, {"zxz", "zzx"}
        Order of rotation angles in the angles list. For lists generated by STOPGAP use "zzx". For GAPSTOP(TM)
        use the same angle_order that was used in the list generation (default is "zxz"). Defaults to "zxz".
    symmetry : str, default="c1"
        Symmetry to be applied. The function currently supports only cyclic (C) symmetries. If a non-C symmetry is
        provided, it raises warning and defaults to "c1". Defaults to "c1".
    angles_numbering : int, default=0
        Adjusts the indexing of angles from the angles map. Angle maps from STOPGAP start numbering from 1 and thus
        angles_numbering should be set to 1 to fetch correct angles from the angle lists. GAPSTOP(TM) numbers from 0.
        Defaults to 0.
    tomo_mask: str or array-like, optional
        Path to a binary tomogram mask file or an array containing the mask. If provided the scores maps are multiplied
        with the mask prior any further processing.

    Returns
    -------
    motl : Motl object
        Motl object containing the extracted particle coordinates, scores, and orientations.

    Raises
    ------
    Warning
        If a non-supported symmetry is provided, a warning is issued and the symmetry is set to "c1".

    Notes
    -----
    The function supports only cyclic (C) symmetries. If a non-C symmetry is provided, it defaults to "c1".
    """

    if symmetry.lower().startswith("c"):
        symmetry = int(re.findall(r"\d+", symmetry)[-1])
    else:
        warnings.warn(
            f"Only C symmetry is supported. Provided {symmetry} is currently not supported and will be ignored."
        )
        symmetry = 1

    # load the scores map
    scores_map = cryomap.read(scores_map)

    # load the angles map
    angles_map = cryomap.read(angles_map)

    # Read angle list.
    anglist = ioutils.rot_angles_load(angles_list, angles_order=angles_order)

    # load and apply a tomogram mask if any:
    if tomo_mask is not None:
        tomo_mask = cryomap.read(tomo_mask)
        scores_map = scores_map * tomo_mask

    if object_id is None:
        object_id = 1

    if scores_threshold is not None:
        threshold = scores_threshold
    elif sigma_threshold is None:
        threshold = compute_scores_map_threshold_triangle(scores_map)
    else:
        # Set threshold by sigma value
        score_mean = scores_map.mean()
        score_std = scores_map.std(ddof=1)
        threshold = score_mean + sigma_threshold * score_std

    # Threshold and sort indices/scores
    t_idx = np.where(scores_map > threshold)

    # original piece - not clear whether this is really working
    # if n_particles is not None:
    #    k = min(n_particles, len(t_idx[0]))
    # else:
    k = len(t_idx[0])

    # Check for early termination
    if k == 0:
        return None

    k = min(k, len(scores_map[t_idx])) - 1
    s_idx = np.argpartition(-scores_map[t_idx], k)[: k + 1]
    s_idx = s_idx[np.argsort(-scores_map[t_idx][s_idx])]  # Sort for later

    # Sorted indices. s_ind[0] = x, s_ind[1] = y, s_ind[2] = z
    s_ind = np.array([t_idx[0][s_idx], t_idx[1][s_idx], t_idx[2][s_idx]])
    # n_vox = len(s_idx)

    # Create a list of tuples where each tuple is (coord, score) and sort it by score in descending order
    scored_coords = sorted(zip(s_ind.T, scores_map[s_ind[0], s_ind[1], s_ind[2]]), key=lambda x: x[1], reverse=True)

    # Build a KD-tree with the coordinates
    tree = KDTree([coord for coord, score in scored_coords])

    # Remove any points that are within the specified particle diameter of a higher score point
    coord_to_score = {tuple(coord): score for coord, score in scored_coords}
    remaining_coords = set(coord_to_score.keys())
    filtered_coords = []

    for coord, score in scored_coords:
        if tuple(coord) not in remaining_coords:
            continue
        filtered_coords.append((coord, score))
        nearby_coords = tree.query_ball_point(coord, particle_diameter)
        for nearby_coord in nearby_coords:
            nearby_coord_tuple = tuple(scored_coords[nearby_coord][0])
            if nearby_coord_tuple in remaining_coords and coord_to_score[nearby_coord_tuple] <= score:
                remaining_coords.remove(nearby_coord_tuple)

    # Extract the coordinates from the filtered_coords list
    filtered_coords, filtered_scores = zip(*filtered_coords)
    filtered_coords = np.array(filtered_coords)
    filtered_scores = np.array(filtered_scores)

    # Use DBSCAN to cluster points
    clusterer = DBSCAN(eps=particle_diameter / 2, min_samples=1)
    cluster_labels = clusterer.fit_predict(filtered_coords)

    # Keep track of hits in case of number of particles
    filtered_hit_idx = np.zeros(len(filtered_coords), dtype=bool)

    # Count number of hits
    c = 0
    for cluster_id in np.unique(cluster_labels):
        if cluster_id == -1:
            continue

        # Check cluster size
        if cluster_size is not None:
            c_size = np.sum(cluster_labels == cluster_id)
            if c_size < cluster_size:
                continue

        filtered_hit_idx[cluster_labels == cluster_id] = True
        c += np.sum(cluster_labels == cluster_id)

        # Check for early termination
        # if n_particles is not None and c >= n_particles:
        #    break

    # Remaining positions
    rpos = filtered_coords[filtered_hit_idx]
    filtered_scores = filtered_scores[filtered_hit_idx]
    if n_particles is not None:
        rpos = rpos[0 : min(rpos.shape[0], n_particles), :]
        filtered_scores = filtered_scores[0 : min(rpos.shape[0], n_particles)]

    # Fill orientation and scores
    # Parse angle index
    ang_idx = angles_map[rpos[:, 0], rpos[:, 1], rpos[:, 2]].astype(int) - angles_numbering

    phi = anglist[ang_idx, 0]
    theta = anglist[ang_idx, 1]
    psi = anglist[ang_idx, 2]

    if symmetry > 1:
        add_phi = np.linspace(0, 360, symmetry + 1)
        add_phi = add_phi[:-1]
        phi = phi + np.random.choice(add_phi, size=phi.shape[0])

    ##### Generate motivelist #####
    print("Generating motivelist...")

    motl = cryomotl.Motl()
    motl.fill(
        {
            "x": rpos[:, 0] + 1,
            "y": rpos[:, 1] + 1,
            "z": rpos[:, 2] + 1,
            "score": filtered_scores,
            "class": 1,
            "tomo_id": tomo_id,
            "object_id": object_id,
            "phi": phi,
            "theta": theta,
            "psi": psi,
            "subtomo_id": np.arange(1, rpos.shape[0] + 1),
        }
    )

    del s_ind, scored_coords
    gc.collect()

    if output_path is not None:
        if output_type == "emmotl":
            motl.write_out(output_path)
        elif output_type == "stopgap":
            sg_motl = cryomotl.StopgapMotl(motl.df)
            sg_motl.write_out(output_path=output_path)
        elif output_type == "relion":
            rel_motl = cryomotl.RelionMotl(motl.df)
            rel_motl.write_out(output_path=output_path)
        else:
            raise ValueError(f"The output motl type {output_type} is not currently supported.")

    return motl
'''

# ------------------------------------------------------------------------------------------------------------------
#  Change a: positions and scores of the extracted peaks are selected with one index array
# ------------------------------------------------------------------------------------------------------------------
orig_extract = load_original(tmana, ORIG_TEXT, "scores_extract_particles")


def compare_options(seed, n_cases):
    """cluster_size / n_particles / sigma / mask / symmetry: the patched function against the original text, and the
    point of the fix: every row's score is the score of the voxel of that row."""
    rng = np.random.default_rng(seed)
    for it in range(n_cases):
        shape = tuple(int(v) for v in rng.integers(2, 16, size=3))
        numbering = it % 2
        S, A, L = make_maps(rng, shape, int(rng.integers(1, 20)), numbering, ["float64", "float32", "int32"][it % 3],
                            ["float32", "int64", "int16"][it % 3])
        flat = np.sort(S.reshape(-1))
        thr = float(flat[max(0, S.size - 1 - int(rng.integers(1, min(S.size, 800) + 1)))])
        D = float(rng.choice([1, 1.5, 2, 3, 4.5]))
        kw = dict(scores_threshold=thr, angles_numbering=numbering)
        kw["cluster_size"] = [None, 1, 2, 3, 50][it % 5]
        kw["n_particles"] = [None, 0, 1, 2, 5, 1000, -1, -1000, True][(it // 5) % 9]
        if it % 11 == 0:
            kw.pop("scores_threshold")
            kw["sigma_threshold"] = float(rng.uniform(0.5, 2.5))
        if it % 7 == 0:
            kw["tomo_mask"] = (rng.random(shape) < 0.7).astype(np.float32)
        if it % 6 == 0:
            kw["symmetry"] = "c4"
        if it % 13 == 0:
            kw["output_path"] = os.path.join(TMPDIR, f"out_{seed}_{it}.em")
        tag = f"options#{seed}.{it}[{shape},{ {k: v for k, v in kw.items() if k != 'tomo_mask'} }]"
        np.random.seed(it)
        st, m = run_catch(tmana.scores_extract_particles, S, A, L, 3, D, **kw)
        state_new = np.random.get_state()[1].copy()
        np.random.seed(it)
        sto, mo = run_catch(orig_extract, S, A, L, 3, D, **kw)
        state_old = np.random.get_state()[1].copy()
        check(st == sto, f"{tag}: outcome {st}/{m} but the original gives {sto}/{mo}")
        check(np.array_equal(state_new, state_old), f"{tag}: random state differs after the call")
        if st == "ok" and sto == "ok":
            check(frames_equal(None if m is None else m.df, None if mo is None else mo.df),
                  f"{tag}: result differs from the original")
            if m is not None and m.df.shape[0]:
                Sm = S * kw["tomo_mask"] if "tomo_mask" in kw else S
                p = m.df[["x", "y", "z"]].to_numpy().astype(int) - 1
                check(np.array_equal(m.df["score"].to_numpy(), Sm[p[:, 0], p[:, 1], p[:, 2]]),
                      f"{tag}: a row's score is not the score of its voxel")
                ai = A[p[:, 0], p[:, 1], p[:, 2]].astype(int) - numbering
                check(np.array_equal(m.df["theta"].to_numpy(), L[ai, 1]) and np.array_equal(m.df["psi"].to_numpy(), L[ai, 2]),
                      f"{tag}: a row's angles are not those of its voxel")
                n = kw["n_particles"]
                if n is not None and n is not True and n >= 0:
                    check(m.df.shape[0] <= n, f"{tag}: more than n_particles rows")
        elif st == "exc":
            check(m == mo, f"{tag}: raises {m}, the original raises {mo}")
        COUNT["compared"] += 1


test_peaks(seed=101, n_cases=140, orig_fn=orig_extract)
test_peaks(seed=202, n_cases=60, orig_fn=orig_extract)
compare_options(seed=303, n_cases=270)
test_clean(seed=404, n_cases=60)
finish()
